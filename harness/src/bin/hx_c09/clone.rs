//! Manifest::shallow_clone (base_id rewriting): random manifests, model vs implementation, plus the direct
//! oracle "every file of the clone resolves to the place it resolved to in the source".
use hxlib::util::{coq, Args, Rng, Sink, Stream};
use lance_table::format::{BasePath, DataFile, DataStorageFormat, DeletionFile, DeletionFileType, Fragment, Manifest};
use serde_json::json;
use std::collections::{BTreeMap, HashMap};
use std::sync::Arc;

use crate::names::REQ;

pub const FRAG_TY: &str = "N * list (N * option N) * option (option N)";

fn test_schema() -> lance_core::datatypes::Schema {
    let a = arrow_schema::Schema::new(vec![arrow_schema::Field::new("id", arrow_schema::DataType::Int32, false)]);
    lance_core::datatypes::Schema::try_from(&a).unwrap()
}

/// path strings -> small tokens (per case)
#[derive(Default)]
pub struct Tokens(pub BTreeMap<String, u64>);
impl Tokens {
    pub fn get(&mut self, s: &str) -> u64 {
        let n = self.0.len() as u64;
        *self.0.entry(s.to_string()).or_insert(n)
    }
}

pub fn opt_n(o: Option<u32>) -> String {
    coq::opt(o.map(|x| coq::n(x as u64)))
}

/// Coq terms of (fragments, base_paths) of a manifest
pub fn manifest_terms(m: &Manifest, tok: &mut Tokens) -> (String, String) {
    let frags = coq::list(m.fragments.iter().map(|f| {
        format!(
            "({}, {}, {})",
            f.id,
            coq::list(f.files.iter().map(|d| format!("({}, {})", tok.get(&d.path), opt_n(d.base_id)))),
            coq::opt(f.deletion_file.as_ref().map(|d| opt_n(d.base_id)))
        )
    }));
    let mut bases: Vec<(u32, u64)> = m.base_paths.iter().map(|(k, v)| (*k, tok.get(&v.path))).collect();
    bases.sort();
    (frags, coq::list(bases.iter().map(|(k, p)| format!("({k}, {p})"))))
}

/// where each data / deletion file of a manifest lives: (root uri, relative path)
pub fn resolved(m: &Manifest, own_root: &str) -> Vec<(u64, String, Option<String>, String)> {
    let mut out = vec![];
    for f in m.fragments.iter() {
        for d in &f.files {
            let root = match d.base_id {
                None => Some(own_root.to_string()),
                Some(i) => m.base_paths.get(&i).map(|b| b.path.clone()),
            };
            out.push((f.id, "data".to_string(), root, d.path.clone()));
        }
        if let Some(d) = &f.deletion_file {
            let root = match d.base_id {
                None => Some(own_root.to_string()),
                Some(i) => m.base_paths.get(&i).map(|b| b.path.clone()),
            };
            out.push((f.id, "deletion".to_string(), root, format!("{}-{}", d.read_version, d.id)));
        }
    }
    out
}

pub fn run(args: &Args, sink: &mut Sink, rng: &mut Rng) {
    let mut s = Stream::new("shallow_clone", REQ, "chk_shallow_clone", &format!("(list ({FRAG_TY}) * list (N * N)) * (N * N)"), &format!("list ({FRAG_TY}) * list (N * N)"));
    s.shard = 300;
    for it in 0..args.vol(300, 8000) {
        let nb = if it % 7 == 0 { 0 } else { rng.range(0, 3) };
        let mut base_paths = HashMap::new();
        let mut ids: Vec<u32> = vec![];
        for _ in 0..nb {
            let id = match rng.below(4) {
                0 => rng.below(4) as u32,
                1 => u32::MAX - rng.below(2) as u32,
                _ => rng.below(40) as u32,
            };
            if !ids.contains(&id) {
                ids.push(id);
                base_paths.insert(id, BasePath::new(id, format!("memory://base{id}"), None, rng.bool()));
            }
        }
        let nf = rng.range(0, 4);
        let mut frags = vec![];
        for fid in 0..nf {
            let mut f = Fragment::new(fid);
            for k in 0..rng.range(1, 3) {
                let base = match rng.below(3) {
                    0 if !ids.is_empty() => Some(*rng.pick(&ids)),
                    1 if rng.chance(1, 6) => Some(77), // dangling base id
                    _ => None,
                };
                f.files.push(DataFile::new(format!("f{fid}_{k}.lance"), vec![0], vec![0], 2, 0, None, base));
            }
            if rng.chance(1, 2) {
                let base = if !ids.is_empty() && rng.bool() { Some(*rng.pick(&ids)) } else { None };
                f.deletion_file = Some(DeletionFile { read_version: rng.range(1, 5), id: rng.below(100), file_type: DeletionFileType::Array, num_deleted_rows: Some(1), base_id: base });
            }
            frags.push(f);
        }
        let m = Manifest::new(test_schema(), Arc::new(frags), DataStorageFormat::default(), base_paths);
        // the id the commit would choose, or an arbitrary one (possibly colliding)
        let fresh = m.base_paths.keys().max().map(|k| k.wrapping_add(1)).unwrap_or(0);
        let ref_id = if rng.chance(3, 4) { fresh } else if !ids.is_empty() && rng.bool() { *rng.pick(&ids) } else { rng.below(50) as u32 };
        let src_root = "memory://source";
        let c = m.shallow_clone(None, src_root.to_string(), ref_id, if rng.bool() { Some("b".into()) } else { None }, "tx".into());

        // direct oracle: with a fresh id, every file resolves to where it resolved in the source
        let is_fresh = !m.base_paths.contains_key(&ref_id);
        if is_fresh {
            let a = resolved(&m, src_root);
            let b = resolved(&c, "memory://clone");
            let same = a == b && c.fragments.iter().all(|f| f.files.iter().all(|d| d.base_id.is_some()) && f.deletion_file.as_ref().map(|d| d.base_id.is_some()).unwrap_or(true));
            let meta_same = c.version == m.version && c.max_fragment_id == m.max_fragment_id && c.next_row_id == m.next_row_id && c.fragments.len() == m.fragments.len();
            if same && meta_same {
                sink.oracle_ok();
            } else {
                sink.oracle_fail(None, "Manifest::shallow_clone: a file of the clone does not resolve to the source's file", json!({"source": format!("{:?}", a), "clone": format!("{:?}", b), "ref_base_id": ref_id}));
            }
            sink.count("shallow_clone:fresh-id");
        } else {
            sink.count("shallow_clone:colliding-id");
        }
        let mut tok = Tokens::default();
        let (fr, bs) = manifest_terms(&m, &mut tok);
        let rp = tok.get(src_root);
        let (cfr, cbs) = manifest_terms(&c, &mut tok);
        let inp = format!("(({fr}, {bs}), ({rp}, {ref_id}))");
        sink.nontrivial(&inp);
        s.push(inp, format!("({cfr}, {cbs})"), json!({"source": format!("{:?}", resolved(&m, src_root)), "ref_base_id": ref_id, "clone": format!("{:?}", resolved(&c, "memory://clone"))}));
    }
    sink.add(s);
}
