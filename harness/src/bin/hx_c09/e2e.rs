//! End-to-end arm on temp-dir datasets: histories mixing branch creation from arbitrary parents/versions,
//! writes on different branches, tag create/update/delete, branch deletion (force and not), shallow clones,
//! compaction and clean-up.  After EVERY step:
//!   (a) every live branch / clone / main version snapshot taken earlier is re-read and compared (direct
//!       oracle: nothing but the touched reference changed), every tag is resolved and read, the branch and
//!       tag listings are compared with the history;
//!   (b) the set of files on disk is diffed against the set before the step: only paths that belong to the
//!       touched reference may appear or disappear.
//! Model side: the directory that disappears in delete_branch (chk_cleanup), the whole Tags/Branches call
//! history with its result codes and final listings (chk_refs), and the manifest of every shallow clone /
//! new branch against the source manifest (chk_clone_commit).
use arrow_array::{Int32Array, RecordBatch, RecordBatchIterator};
use arrow_schema::{DataType, Field, Schema as ArrowSchema};
use futures::TryStreamExt;
use hxlib::util::{coq, Args, Rng, Sink, Stream};
use lance::dataset::optimize::{compact_files, CompactionOptions};
use lance::dataset::{WriteMode, WriteParams};
use lance::Dataset;
use serde_json::{json, Value};
use std::collections::{BTreeMap, BTreeSet};
use std::path::{Path as FsPath, PathBuf};
use std::sync::Arc;

use crate::cleanup::{copt_str, cstr, RESERVED};
use crate::clone::{manifest_terms, Tokens, FRAG_TY};
use crate::names::REQ;

pub const C_CLEANUP: &str = "cleanup_ignores_branch_refs";
pub const C_DEPENDENT: &str = "delete_ignores_dependent_refs";
pub const C_RESERVED: &str = "reserved_dir_segment";
pub const C_FOREIGN: &str = "create_from_foreign_ref";

#[derive(Clone, Debug, PartialEq, Eq, PartialOrd, Ord, Hash)]
pub enum Loc {
    Main,
    Branch(String, u32),
    Clone(usize),
}
impl Loc {
    fn branch_name(&self) -> Option<String> {
        match self {
            Loc::Branch(n, _) => Some(n.clone()),
            _ => None,
        }
    }
    fn show(&self) -> String {
        match self {
            Loc::Main => "main".into(),
            Loc::Branch(n, i) => format!("branch {n}#{i}"),
            Loc::Clone(i) => format!("clone{i}"),
        }
    }
}

pub struct LocState {
    uri: String,
    prefix: String, // relative to the temp dir, with trailing '/'
    snaps: BTreeMap<u64, Vec<i32>>,
    latest: u64,
    parent: Option<Loc>,
    alive: bool,
    broken: bool,
}

#[derive(Clone, Debug)]
enum StepCtx {
    Write(Loc),
    StaleCommit(Loc),        // two-phase append committed after the location moved on
    CreateBranch(Loc, bool), // new location, through a foreign handle
    CreateOverZombie(Loc),   // create_branch failed because a dataset directory is in the way
    DeleteBranch(String, Option<Loc>),
    Tag(String),
    CloneTo(Loc, bool),
    Cleanup(Loc),
}

pub struct World {
    _dir: tempfile::TempDir,
    base: PathBuf,
    root_uri: String,
    locs: BTreeMap<Loc, LocState>,
    branches: BTreeMap<String, (Option<String>, u64, Loc)>,
    tags: BTreeMap<String, (Option<String>, u64, Option<Loc>)>,
    incarnation: u32,
    next_id: i32,
    clones: usize,
    hist: Vec<Value>,
    rops: Vec<String>,
    codes: Vec<u64>,
    tainted: bool,
    label: String,
}

fn schema() -> Arc<ArrowSchema> {
    Arc::new(ArrowSchema::new(vec![Field::new("id", DataType::Int32, false)]))
}
fn reader(ids: &[i32]) -> RecordBatchIterator<std::vec::IntoIter<Result<RecordBatch, arrow_schema::ArrowError>>> {
    let b = RecordBatch::try_new(schema(), vec![Arc::new(Int32Array::from(ids.to_vec()))]).unwrap();
    RecordBatchIterator::new(vec![Ok(b)].into_iter(), schema())
}
fn short(e: impl ToString) -> String {
    e.to_string().chars().take(220).collect()
}
fn code(e: &lance::Error) -> u64 {
    match e {
        lance::Error::InvalidRef { .. } => 1,
        lance::Error::RefConflict { .. } => 2,
        lance::Error::RefNotFound { .. } => 3,
        lance::Error::VersionNotFound { .. } => 4,
        _ => 9,
    }
}
async fn scan_ids(ds: &Dataset) -> Result<Vec<i32>, String> {
    let st = ds.scan().try_into_stream().await.map_err(short)?;
    let bs: Vec<RecordBatch> = st.try_collect().await.map_err(|e: lance::Error| short(e))?;
    let mut out = vec![];
    for b in bs {
        let a = b.column(0).as_any().downcast_ref::<Int32Array>().ok_or("column type")?;
        out.extend(a.values().iter().copied());
    }
    out.sort();
    Ok(out)
}
fn list_files(base: &FsPath) -> BTreeSet<String> {
    fn walk(base: &FsPath, d: &FsPath, out: &mut BTreeSet<String>) {
        if let Ok(rd) = std::fs::read_dir(d) {
            for e in rd.flatten() {
                let p = e.path();
                if p.is_dir() {
                    walk(base, &p, out);
                } else {
                    out.insert(p.strip_prefix(base).unwrap().to_string_lossy().to_string());
                }
            }
        }
    }
    let mut out = BTreeSet::new();
    walk(base, base, &mut out);
    out
}
/// names n such that ds/tree/n holds a dataset (a `_versions` directory with a manifest)
fn dataset_dirs(base: &FsPath) -> Vec<String> {
    fn walk(tree: &FsPath, d: &FsPath, out: &mut Vec<String>) {
        if let Ok(rd) = std::fs::read_dir(d) {
            for e in rd.flatten() {
                let p = e.path();
                if p.is_dir() {
                    let v = p.join("_versions");
                    let has = std::fs::read_dir(&v).map(|r| r.flatten().any(|x| x.path().is_file() && x.file_name().to_string_lossy().ends_with(".manifest"))).unwrap_or(false);
                    if has {
                        out.push(p.strip_prefix(tree).unwrap().to_string_lossy().to_string());
                    }
                    walk(tree, &p, out);
                }
            }
        }
    }
    let tree = base.join("ds").join("tree");
    let mut out = vec![];
    walk(&tree, &tree, &mut out);
    out.sort();
    out
}
fn owned_by(path: &str, prefix: &str) -> bool {
    match path.strip_prefix(prefix) {
        Some(rest) => {
            let mut it = rest.splitn(2, '/');
            let first = it.next().unwrap_or("");
            it.next().is_some() && RESERVED.contains(&first)
        }
        None => false,
    }
}
fn seg_prefix_str(p: &str, q: &str) -> bool {
    let ps: Vec<&str> = p.split('/').collect();
    let qs: Vec<&str> = q.split('/').collect();
    ps.len() <= qs.len() && ps.iter().zip(qs.iter()).all(|(a, b)| a == b)
}
/// `inner` = `outer`/<reserved>/... (a branch nested in a directory name the dataset `outer` uses itself)
fn nested_reserved(outer: &str, inner: &str) -> bool {
    let os: Vec<&str> = outer.split('/').collect();
    let is: Vec<&str> = inner.split('/').collect();
    is.len() > os.len() && seg_prefix_str(outer, inner) && RESERVED.contains(&is[os.len()])
}

impl World {
    async fn new(label: &str, first_rows: usize) -> World {
        let dir = tempfile::tempdir().unwrap();
        let base = dir.path().to_path_buf();
        let root_uri = base.join("ds").to_string_lossy().to_string();
        let ids: Vec<i32> = (0..first_rows as i32).collect();
        let ds = Dataset::write(reader(&ids), &root_uri, None).await.unwrap();
        let mut locs = BTreeMap::new();
        let mut snaps = BTreeMap::new();
        snaps.insert(ds.version().version, ids.clone());
        locs.insert(Loc::Main, LocState { uri: root_uri.clone(), prefix: "ds/".into(), snaps, latest: ds.version().version, parent: None, alive: true, broken: false });
        World { _dir: dir, base, root_uri, locs, branches: BTreeMap::new(), tags: BTreeMap::new(), incarnation: 0, next_id: first_rows as i32, clones: 0, hist: vec![json!({"op": "create", "rows": first_rows})], rops: vec![], codes: vec![], tainted: false, label: label.into() }
    }
    fn case(&self, extra: Value) -> Value {
        json!({"history": self.label, "steps": self.hist, "detail": extra})
    }
    async fn open(&self, loc: &Loc, version: Option<u64>) -> Result<Dataset, String> {
        match loc {
            Loc::Main => {
                let ds = Dataset::open(&self.root_uri).await.map_err(short)?;
                match version {
                    Some(v) => ds.checkout_version(v).await.map_err(short),
                    None => Ok(ds),
                }
            }
            Loc::Branch(n, _) => {
                let ds = Dataset::open(&self.root_uri).await.map_err(short)?;
                ds.checkout_version((Some(n.clone()), version)).await.map_err(short)
            }
            Loc::Clone(_) => {
                let ds = Dataset::open(&self.locs[loc].uri).await.map_err(short)?;
                match version {
                    Some(v) => ds.checkout_version(v).await.map_err(short),
                    None => Ok(ds),
                }
            }
        }
    }
    fn lineage(&self, loc: &Loc) -> Vec<Loc> {
        let mut out = vec![loc.clone()];
        let mut cur = loc.clone();
        while let Some(p) = self.locs.get(&cur).and_then(|s| s.parent.clone()) {
            out.push(p.clone());
            cur = p;
        }
        out
    }
    /// alive locations (other than `loc`) whose files may live in `loc`
    fn dependents(&self, loc: &Loc) -> Vec<Loc> {
        self.locs.iter().filter(|(l, s)| s.alive && !s.broken && *l != loc && self.lineage(l).contains(loc)).map(|(l, _)| l.clone()).collect()
    }
    fn alive_locs(&self) -> Vec<Loc> {
        self.locs.iter().filter(|(_, s)| s.alive && !s.broken).map(|(l, _)| l.clone()).collect()
    }
    fn fresh_ids(&mut self, n: usize) -> Vec<i32> {
        let v: Vec<i32> = (self.next_id..self.next_id + n as i32).collect();
        self.next_id += n as i32;
        v
    }

    /// which known class (if any) explains that `failing` stopped reading its snapshot after `ctx`
    fn classify(&self, ctx: &StepCtx, failing: &Loc) -> Option<&'static str> {
        match ctx {
            StepCtx::Cleanup(x) => {
                if failing != x && self.lineage(failing).contains(x) {
                    return Some(C_CLEANUP);
                }
                if let (Some(xn), Some(fname)) = (x.branch_name(), failing.branch_name()) {
                    if nested_reserved(&xn, &fname) {
                        return Some(C_RESERVED);
                    }
                }
                None
            }
            StepCtx::DeleteBranch(name, loc) => {
                if let Some(l) = loc {
                    if failing != l && self.lineage(failing).contains(l) {
                        return Some(C_DEPENDENT);
                    }
                }
                if let Some(fname) = failing.branch_name() {
                    if nested_reserved(&fname, name) {
                        return Some(C_RESERVED);
                    }
                }
                None
            }
            StepCtx::CreateBranch(l, true) | StepCtx::CloneTo(l, true) if l == failing => Some(C_FOREIGN),
            _ => None,
        }
    }

    /// (a) re-read everything; returns the number of reads
    async fn verify_all(&mut self, sink: &mut Sink, rng: &mut Rng, ctx: &StepCtx) {
        // cleanup: versions of the cleaned location that are neither the latest nor tagged may be gone
        let mut may_be_gone: BTreeSet<u64> = BTreeSet::new();
        let cleaned: Option<Loc> = if let StepCtx::Cleanup(x) = ctx { Some(x.clone()) } else { None };
        if let Some(x) = &cleaned {
            // a clone has its own (empty) _refs: the tags of the source protect nothing there
            let tagged: BTreeSet<u64> = if matches!(x, Loc::Clone(_)) { BTreeSet::new() } else { self.tags.values().map(|t| t.1).collect() };
            let st = &self.locs[x];
            for v in st.snaps.keys() {
                if *v != st.latest && !tagged.contains(v) {
                    may_be_gone.insert(*v);
                }
            }
        }
        for loc in self.alive_locs() {
            let versions: Vec<u64> = {
                let st = &self.locs[&loc];
                let all: Vec<u64> = st.snaps.keys().copied().collect();
                if all.len() <= 4 || cleaned.as_ref() == Some(&loc) {
                    all
                } else {
                    let mut pick = vec![all[0], st.latest];
                    for _ in 0..2 {
                        pick.push(*rng.pick(&all));
                    }
                    pick.sort();
                    pick.dedup();
                    pick
                }
            };
            for v in versions {
                let expect = self.locs[&loc].snaps[&v].clone();
                let got = match self.open(&loc, Some(v)).await {
                    Ok(ds) => scan_ids(&ds).await,
                    Err(e) => Err(e),
                };
                if cleaned.as_ref() == Some(&loc) && may_be_gone.contains(&v) {
                    match got {
                        Err(_) => {
                            self.locs.get_mut(&loc).unwrap().snaps.remove(&v);
                            sink.oracle_ok();
                            continue;
                        }
                        Ok(_) => {}
                    }
                }
                if got.as_ref() == Ok(&expect) {
                    sink.oracle_ok();
                } else {
                    let class = self.classify(ctx, &loc);
                    sink.oracle_fail(
                        class,
                        &format!("{} version {} no longer reads what it read before a step on another reference", loc.show(), v),
                        self.case(json!({"reference": loc.show(), "version": v, "expected_rows": expect.len(), "got": format!("{:?}", got.map(|r| r.len())), "after": format!("{:?}", ctx)})),
                    );
                    self.locs.get_mut(&loc).unwrap().broken = true;
                    self.tainted = true;
                    break;
                }
            }
            // latest resolves to the recorded latest version
            if !self.locs[&loc].broken {
                let latest = self.locs[&loc].latest;
                match self.open(&loc, None).await {
                    Ok(ds) if ds.version().version == latest => sink.oracle_ok(),
                    other => {
                        let class = self.classify(ctx, &loc);
                        sink.oracle_fail(class, &format!("latest of {} is not the recorded latest version", loc.show()), self.case(json!({"reference": loc.show(), "expected": latest, "got": other.map(|d| d.version().version), "after": format!("{:?}", ctx)})));
                        self.locs.get_mut(&loc).unwrap().broken = true;
                        self.tainted = true;
                    }
                }
            }
        }
        // tags: resolve to exactly (branch, version), and read the snapshot
        let main = match Dataset::open(&self.root_uri).await {
            Ok(d) => d,
            Err(e) => {
                sink.oracle_fail(None, "main can no longer be opened", self.case(json!({"error": short(e), "after": format!("{:?}", ctx)})));
                return;
            }
        };
        for (t, (br, v, loc)) in self.tags.clone() {
            match main.tags().get(&t).await {
                Ok(c) if c.branch == br && c.version == v => sink.oracle_ok(),
                other => sink.oracle_fail(None, "tags().get does not return the (branch, version) the tag was set to", self.case(json!({"tag": t, "expected": [json!(br), json!(v)], "got": format!("{:?}", other.map(|c| (c.branch, c.version)).map_err(short)), "after": format!("{:?}", ctx)}))),
            }
            let Some(loc) = loc else { continue };
            let st = &self.locs[&loc];
            if !st.alive || st.broken || !st.snaps.contains_key(&v) {
                continue; // dangling tag (its branch was deleted): nothing to read
            }
            let expect = st.snaps[&v].clone();
            let got = match main.checkout_version(t.as_str()).await {
                Ok(ds) => scan_ids(&ds).await,
                Err(e) => Err(short(e)),
            };
            if got.as_ref() == Ok(&expect) {
                sink.oracle_ok();
            } else {
                let class = self.classify(ctx, &loc);
                sink.oracle_fail(class, "checkout of a tag does not read the version the tag was set to", self.case(json!({"tag": t, "branch": br, "version": v, "expected_rows": expect.len(), "got": format!("{:?}", got.map(|r| r.len())), "after": format!("{:?}", ctx)})));
                self.tainted = true;
            }
        }
        // listings
        let tl: Result<BTreeMap<String, (Option<String>, u64)>, String> = main.tags().list().await.map(|m| m.into_iter().map(|(k, c)| (k, (c.branch, c.version))).collect()).map_err(short);
        let expect_t: BTreeMap<String, (Option<String>, u64)> = self.tags.iter().map(|(k, v)| (k.clone(), (v.0.clone(), v.1))).collect();
        if tl.as_ref() == Ok(&expect_t) {
            sink.oracle_ok();
        } else {
            sink.oracle_fail(None, "tags().list() is not the finite map built by the create/update/delete calls", self.case(json!({"expected": format!("{:?}", expect_t), "got": format!("{:?}", tl), "after": format!("{:?}", ctx)})));
        }
        let bl: Result<BTreeMap<String, (Option<String>, u64)>, String> = main.list_branches().await.map(|m| m.into_iter().map(|(k, c)| (k, (c.parent_branch, c.parent_version))).collect()).map_err(short);
        let expect_b: BTreeMap<String, (Option<String>, u64)> = self.branches.iter().map(|(k, v)| (k.clone(), (v.0.clone(), v.1))).collect();
        if bl.as_ref() == Ok(&expect_b) {
            sink.oracle_ok();
        } else {
            sink.oracle_fail(None, "list_branches() is not the set of created and not deleted branches", self.case(json!({"expected": format!("{:?}", expect_b), "got": format!("{:?}", bl), "after": format!("{:?}", ctx)})));
        }
    }

    /// (b) only paths of the touched reference may appear / disappear
    fn check_files(&mut self, sink: &mut Sink, ctx: &StepCtx, before: &BTreeSet<String>, after: &BTreeSet<String>) {
        let added: Vec<&String> = after.difference(before).collect();
        let removed: Vec<&String> = before.difference(after).collect();
        let mut bad: Vec<(Option<&'static str>, String)> = vec![];
        let other_owner = |w: &World, p: &str, except: Option<&Loc>| -> Option<Loc> { w.locs.iter().find(|(l, s)| s.alive && Some(*l) != except && owned_by(p, &s.prefix)).map(|(l, _)| l.clone()) };
        match ctx {
            StepCtx::Write(l) | StepCtx::CloneTo(l, _) => {
                let pre = self.locs[l].prefix.clone();
                for p in &added {
                    if !owned_by(p, &pre) {
                        bad.push((None, format!("a write on {} created {p}", l.show())));
                    }
                }
                for p in &removed {
                    bad.push((None, format!("a write on {} removed {p}", l.show())));
                }
            }
            StepCtx::StaleCommit(l) => {
                let pre = self.locs[l].prefix.clone();
                for p in added.iter().chain(removed.iter()) {
                    if !owned_by(p, &pre) {
                        // (repaired by ce3cd96: a stale commit on a branch used to land on main)
                        bad.push((None, format!("a two-phase append on {} touched {p}", l.show())));
                    }
                }
            }
            StepCtx::CreateOverZombie(l) => {
                let pre = format!("ds/tree/{}/", l.branch_name().unwrap_or_default());
                for p in added.iter().chain(removed.iter()) {
                    if !owned_by(p, &pre) {
                        bad.push((None, format!("a failed create_branch {} touched {p}", l.show())));
                    }
                }
            }
            StepCtx::CreateBranch(l, _) => {
                let n = l.branch_name().unwrap_or_default();
                let pre = format!("ds/tree/{n}/");
                let bf = format!("ds/_refs/branches/{}.json", n.replace('/', "%2F"));
                for p in &added {
                    if !(owned_by(p, &pre) || **p == bf) {
                        bad.push((None, format!("creating branch {n} created {p}")));
                    }
                }
                for p in &removed {
                    bad.push((None, format!("creating branch {n} removed {p}")));
                }
            }
            StepCtx::DeleteBranch(n, l) => {
                let bf = format!("ds/_refs/branches/{}.json", n.replace('/', "%2F"));
                for p in &added {
                    bad.push((None, format!("deleting branch {n} created {p}")));
                }
                for p in &removed {
                    if **p == bf {
                        continue;
                    }
                    if !p.starts_with("ds/tree/") {
                        bad.push((None, format!("deleting branch {n} removed {p}, which is not under tree/")));
                    } else if let Some(o) = other_owner(self, p, l.as_ref()) {
                        let class = match o.branch_name() {
                            Some(on) if nested_reserved(&on, n) => Some(C_RESERVED),
                            _ => None,
                        };
                        bad.push((class, format!("deleting branch {n} removed {p}, a file of {}", o.show())));
                    }
                }
            }
            StepCtx::Tag(t) => {
                let tf = format!("ds/_refs/tags/{t}.json");
                for p in added.iter().chain(removed.iter()) {
                    if **p != tf {
                        bad.push((None, format!("a tag operation on {t} touched {p}")));
                    }
                }
            }
            StepCtx::Cleanup(l) => {
                let pre = self.locs[l].prefix.clone();
                for p in &added {
                    bad.push((None, format!("clean-up of {} created {p}", l.show())));
                }
                for p in &removed {
                    if !owned_by(p, &pre) {
                        bad.push((None, format!("clean-up of {} removed {p}", l.show())));
                    } else if let Some(o) = other_owner(self, p, Some(l)) {
                        let class = match (l.branch_name(), o.branch_name()) {
                            (Some(ln), Some(on)) if nested_reserved(&ln, &on) => Some(C_RESERVED),
                            _ => None,
                        };
                        bad.push((class, format!("clean-up of {} removed {p}, a file of {}", l.show(), o.show())));
                    }
                }
            }
        }
        if bad.is_empty() {
            sink.oracle_ok();
        } else {
            let (class, what) = bad[0].clone();
            // a known class only if every offending path is explained by it
            let class = if bad.iter().all(|b| b.0 == class) { class } else { None };
            if class.is_some() {
                self.tainted = true;
            }
            sink.oracle_fail(class, &format!("a step touched files of another reference: {what}"), self.case(json!({"after": format!("{:?}", ctx), "offending": bad.iter().map(|b| b.1.clone()).take(6).collect::<Vec<_>>()})));
        }
    }
}

pub struct Streams {
    pub del: Stream,
    pub refs: Stream,
    pub clone: Stream,
}

// ---------------------------------------------------------------------------------------------------
// steps
#[derive(Clone, Debug)]
pub enum Step {
    Append(Loc, usize),
    Overwrite(Loc, usize),
    DeleteRows(Loc, i32),
    Compact(Loc),
    /// InsertBuilder::execute_uncommitted on a handle, then CommitBuilder on the location's uri; with `stale`
    /// another writer appends in between
    TwoPhaseAppend { loc: Loc, rows: usize, stale: bool },
    CreateBranch { name: String, src: Loc, version: u64, foreign: Option<Loc> },
    DeleteBranch { name: String, force: bool },
    TagCreate { tag: String, loc: Loc, br: Option<String>, version: u64 },
    TagUpdate { tag: String, loc: Loc, br: Option<String>, version: u64 },
    TagDelete { tag: String },
    ShallowClone { src: Loc, version: u64, foreign: Option<Loc> },
    Cleanup { loc: Loc, delete_unverified: bool },
}

fn branch_opt(l: &Loc) -> Option<String> {
    l.branch_name()
}

async fn apply(w: &mut World, st: &mut Streams, sink: &mut Sink, rng: &mut Rng, step: Step) {
    let before = list_files(&w.base);
    let dirs_before = dataset_dirs(&w.base);
    w.hist.push(json!(format!("{:?}", step)));
    #[allow(unused_assignments)]
    let mut ctx: StepCtx = StepCtx::Tag(String::new());
    match step.clone() {
        Step::Append(l, _) | Step::Overwrite(l, _) | Step::DeleteRows(l, _) | Step::Compact(l) => {
            ctx = StepCtx::Write(l.clone());
            let old = w.locs[&l].snaps[&w.locs[&l].latest].clone();
            let mut ds = match w.open(&l, None).await {
                Ok(d) => d,
                Err(e) => {
                    sink.oracle_fail(None, "a live reference cannot be opened for writing", w.case(json!({"reference": l.show(), "error": e})));
                    return;
                }
            };
            let (res, expect): (Result<Dataset, String>, Vec<i32>) = match step {
                Step::Append(_, n) => {
                    let ids = w.fresh_ids(n);
                    let mut e = old.clone();
                    e.extend(ids.iter());
                    e.sort();
                    (ds.append(reader(&ids), None).await.map(|_| ds).map_err(short), e)
                }
                Step::Overwrite(_, n) => {
                    let ids = w.fresh_ids(n);
                    let uri = ds.uri().to_string();
                    (Dataset::write(reader(&ids), &uri, Some(WriteParams { mode: WriteMode::Overwrite, ..Default::default() })).await.map_err(short), ids)
                }
                Step::DeleteRows(_, k) => {
                    let e: Vec<i32> = old.iter().copied().filter(|x| x % k != 0).collect();
                    (ds.delete(&format!("id % {k} = 0")).await.map(|_| ds).map_err(short), e)
                }
                _ => (compact_files(&mut ds, CompactionOptions { target_rows_per_fragment: 1000, ..Default::default() }, None).await.map(|_| ds).map_err(short), old.clone()),
            };
            match res {
                Ok(d) => {
                    let v = d.version().version;
                    let got = scan_ids(&d).await;
                    if got.as_ref() == Ok(&expect) && v >= w.locs[&l].latest {
                        sink.oracle_ok();
                    } else {
                        sink.oracle_fail(None, "a write did not produce the expected rows", w.case(json!({"reference": l.show(), "expected_rows": expect.len(), "got": format!("{:?}", got.map(|r| r.len()))})));
                    }
                    let s = w.locs.get_mut(&l).unwrap();
                    s.snaps.insert(v, expect);
                    s.latest = v;
                }
                Err(e) => sink.oracle_fail(None, "a write on a live reference failed", w.case(json!({"reference": l.show(), "error": e}))),
            }
        }
        Step::TwoPhaseAppend { loc: l, rows, stale } => {
            use lance::dataset::{CommitBuilder, InsertBuilder};
            ctx = if stale { StepCtx::StaleCommit(l.clone()) } else { StepCtx::Write(l.clone()) };
            let h = match w.open(&l, None).await {
                Ok(d) => d,
                Err(e) => {
                    sink.oracle_fail(None, "a live reference cannot be opened for writing", w.case(json!({"reference": l.show(), "error": e})));
                    return;
                }
            };
            let uri = h.uri().to_string();
            let ids = w.fresh_ids(rows);
            let b = RecordBatch::try_new(schema(), vec![Arc::new(Int32Array::from(ids.clone()))]).unwrap();
            let txn = InsertBuilder::new(Arc::new(h.clone())).with_params(&WriteParams { mode: WriteMode::Append, ..Default::default() }).execute_uncommitted(vec![b]).await;
            let txn = match txn {
                Ok(t) => t,
                Err(e) => {
                    sink.oracle_fail(None, "an uncommitted append on a live reference failed", w.case(json!({"reference": l.show(), "error": short(e)})));
                    return;
                }
            };
            if stale {
                // another writer moves the location on
                let other = w.fresh_ids(1);
                let mut h2 = w.open(&l, None).await.unwrap();
                if h2.append(reader(&other), None).await.is_ok() {
                    let mut e = w.locs[&l].snaps[&w.locs[&l].latest].clone();
                    e.extend(other.iter());
                    e.sort();
                    let v = h2.version().version;
                    let s = w.locs.get_mut(&l).unwrap();
                    s.snaps.insert(v, e);
                    s.latest = v;
                }
            }
            let mut expect = w.locs[&l].snaps[&w.locs[&l].latest].clone();
            expect.extend(ids.iter());
            expect.sort();
            let r = CommitBuilder::new(uri.as_str()).execute(txn).await;
            sink.count(&format!("e2e:two_phase_append:{}{}", if stale { "stale:" } else { "" }, if r.is_ok() { "ok" } else { "err" }));
            // what the location reads afterwards decides
            let after = match w.open(&l, None).await {
                Ok(d) => scan_ids(&d).await.map(|r| (d.version().version, r)),
                Err(e) => Err(e),
            };
            match after {
                Ok((v, rows)) if rows == expect && v > w.locs[&l].latest && r.is_ok() => {
                    sink.oracle_ok();
                    let s = w.locs.get_mut(&l).unwrap();
                    s.snaps.insert(v, expect);
                    s.latest = v;
                }
                other => {
                    w.tainted = true;
                    sink.oracle_fail(None, "a committed two-phase append is not what the reference reads afterwards", w.case(json!({"reference": l.show(), "stale": stale, "commit": format!("{:?}", r.as_ref().map(|d| (d.uri().to_string(), d.version().version)).map_err(short)), "expected_rows": expect.len(), "got": format!("{:?}", other.map(|(v, r)| (v, r.len())))})));
                }
            }
        }
        Step::CreateBranch { name, src, version, foreign } => {
            w.incarnation += 1;
            let newloc = Loc::Branch(name.clone(), w.incarnation);
            ctx = StepCtx::CreateBranch(newloc.clone(), foreign.is_some());
            let handle_loc = foreign.clone().unwrap_or(src.clone());
            let vex = w.locs[&src].alive && w.locs[&src].snaps.contains_key(&version);
            let src_name = branch_opt(&src);
            let expect = w.locs[&src].snaps.get(&version).cloned();
            let src_manifest = match w.open(&src, Some(version)).await {
                Ok(d) => Some((d.manifest().clone(), d.uri().to_string())),
                Err(_) => None,
            };
            let mut h = match w.open(&handle_loc, None).await {
                Ok(d) => d,
                Err(e) => {
                    sink.oracle_fail(None, "a live reference cannot be opened", w.case(json!({"reference": handle_loc.show(), "error": e})));
                    return;
                }
            };
            let r = h.create_branch(&name, (src_name.clone(), Some(version)), None).await;
            let c = r.as_ref().map(|_| 0).unwrap_or_else(code);
            if foreign.is_none() {
                w.rops.push(format!("BCreate {} {} {} {}", cstr(&name), copt_str(&src_name), version, coq::b(vex)));
                w.codes.push(c);
            } else {
                w.tainted = true;
            }
            sink.count(&format!("e2e:create_branch:code{c}"));
            match r {
                Ok(d) => {
                    let prefix = format!("ds/tree/{}/", name);
                    let got = scan_ids(&d).await;
                    let mut snaps = BTreeMap::new();
                    let ver = d.version().version;
                    let mut parent = Some(src.clone());
                    let ok = expect.is_some() && got.as_ref().ok() == expect.as_ref() && ver == version;
                    if ok {
                        sink.oracle_ok();
                        snaps.insert(ver, expect.clone().unwrap());
                    } else {
                        let class = if foreign.is_some() { Some(C_FOREIGN) } else { None };
                        sink.oracle_fail(class, "a new branch does not read the (branch, version) it was created from", w.case(json!({"branch": name, "source": src.show(), "version": version, "handle": handle_loc.show(), "expected_rows": expect.as_ref().map(|e| e.len()), "got": format!("{:?}", got.as_ref().map(|r| r.len()))})));
                        // resynchronise on what was really cloned (the handle's location)
                        if let Ok(g) = got {
                            snaps.insert(ver, g);
                        }
                        parent = Some(handle_loc.clone());
                    }
                    let broken = snaps.is_empty();
                    w.locs.insert(newloc.clone(), LocState { uri: d.uri().to_string(), prefix, snaps, latest: ver, parent, alive: true, broken });
                    w.branches.insert(name.clone(), (src_name.clone(), version, newloc.clone()));
                    // the new manifest against the source manifest (model: shallow_clone + new_base_id)
                    if let (Some((sm, suri)), true) = (src_manifest, foreign.is_none()) {
                        let mut tok = Tokens::default();
                        let (fr, bs) = manifest_terms(&sm, &mut tok);
                        let rp = tok.get(&suri);
                        let (cfr, cbs) = manifest_terms(d.manifest(), &mut tok);
                        let inp = format!("(({fr}, {bs}), {rp})");
                        sink.nontrivial(&format!("clone{}{}", w.label, w.hist.len()));
                        st.clone.push(inp, format!("(Ok ({cfr}, {cbs}))"), json!({"history": w.label, "new_branch": name, "source": src.show(), "version": version, "source_base_paths": sm.base_paths.len(), "clone_base_paths": d.manifest().base_paths.len()}));
                    }
                }
                Err(e) => {
                    // expected failures: the name is taken / a directory is in the way / the version does not exist
                    let taken = dirs_before.contains(&name);
                    if taken {
                        ctx = StepCtx::CreateOverZombie(newloc.clone());
                    }
                    if (taken || !vex || foreign.is_some()) && !w.branches.contains_key(&name) || w.branches.contains_key(&name) {
                        sink.oracle_ok();
                    } else {
                        sink.oracle_fail(None, "create_branch with a free, valid name and an existing source version failed", w.case(json!({"branch": name, "error": short(e)})));
                    }
                }
            }
        }
        Step::DeleteBranch { name, force } => {
            let loc = w.branches.get(&name).map(|b| b.2.clone());
            ctx = StepCtx::DeleteBranch(name.clone(), loc.clone());
            let mut main = Dataset::open(&w.root_uri).await.unwrap();
            let r = if force { main.force_delete_branch(&name).await } else { main.delete_branch(&name).await };
            let c = r.as_ref().map(|_| 0).unwrap_or_else(code);
            w.rops.push(format!("BDelete {} {}", cstr(&name), coq::b(force)));
            w.codes.push(c);
            sink.count(&format!("e2e:delete_branch:code{c}"));
            let listed = loc.is_some();
            // the BranchContents file is removed before anything can fail
            let removed_entry = match &r {
                Ok(()) => true,
                Err(e) => listed && code(e) == 9,
            };
            if removed_entry {
                if let Some(l) = &loc {
                    w.locs.get_mut(l).unwrap().alive = false;
                    w.branches.remove(&name);
                }
            }
            match &r {
                Ok(()) => {
                    // after a successful delete the branch can no longer be checked out through its contents
                    sink.oracle_ok();
                    // model: the directory that disappeared
                    let had_dir = w.base.join("ds").join("tree").join(&name).is_dir();
                    if had_dir && lance::dataset::refs::check_valid_branch(&name).is_ok() {
                        let segs: Vec<&str> = name.split('/').collect();
                        let mut observed: Option<String> = None;
                        for k in 1..=segs.len() {
                            let rel = segs[..k].join("/");
                            if !w.base.join("ds").join("tree").join(&rel).exists() {
                                observed = Some(format!("root/tree/{rel}"));
                                break;
                            }
                        }
                        let rem: Vec<String> = w.branches.keys().cloned().collect();
                        let out: Result<Option<String>, bool> = Ok(observed.clone());
                        match crate::cleanup::safety_oracle(&name, &rem, &out) {
                            None => sink.oracle_ok(),
                            Some((class, what)) => {
                                if class.is_some() {
                                    w.tainted = true;
                                }
                                sink.oracle_fail(class, &format!("delete_branch: {what}"), w.case(json!({"delete": name, "remaining": rem, "removed_directory": observed})))
                            }
                        }
                        let inp = format!("({}, {})", cstr(&name), coq::list(rem.iter().map(|r| cstr(r))));
                        sink.nontrivial(&format!("del{}{}", w.label, w.hist.len()));
                        st.del.push(inp, format!("(Ok {})", coq::opt(observed.as_ref().map(|d| cstr(d)))), json!({"history": w.label, "delete": name, "remaining": rem, "removed_directory": observed}));
                    }
                }
                Err(e) => {
                    let c = code(e);
                    let fine = (c == 3 && !listed && !force) || c == 1 || (c == 9 && name.split('/').any(|s| s == "."));
                    if fine {
                        sink.oracle_ok();
                    } else {
                        sink.oracle_fail(None, "delete_branch failed on a listed branch", w.case(json!({"delete": name, "force": force, "error": short(e)})));
                    }
                }
            }
        }
        Step::TagCreate { tag, loc, br, version } | Step::TagUpdate { tag, loc, br, version } => {
            ctx = StepCtx::Tag(tag.clone());
            let is_create = matches!(step, Step::TagCreate { .. });
            let st_loc = &w.locs[&loc];
            // the location is the live incarnation of `br` and holds the version
            let live = match &br {
                None => true,
                Some(n) => w.branches.get(n).map(|b| b.2 == loc).unwrap_or(false),
            };
            let vex = live && st_loc.alive && st_loc.snaps.contains_key(&version);
            // through a handle on main or on any live branch: tags live at the root
            let hl = {
                let c: Vec<Loc> = w.alive_locs().into_iter().filter(|l| !matches!(l, Loc::Clone(_))).collect();
                rng.pick(&c).clone()
            };
            let h = w.open(&hl, None).await.unwrap();
            let r = if is_create { h.tags().create_on_branch(&tag, version, br.as_deref()).await } else { h.tags().update_on_branch(&tag, version, br.as_deref()).await };
            let c = r.as_ref().map(|_| 0).unwrap_or_else(code);
            w.rops.push(format!("{} {} {} {} {}", if is_create { "TCreate" } else { "TUpdate" }, cstr(&tag), copt_str(&br), version, coq::b(vex)));
            w.codes.push(c);
            sink.count(&format!("e2e:tag_{}:code{c}", if is_create { "create" } else { "update" }));
            if r.is_ok() {
                w.tags.insert(tag.clone(), (br.clone(), version, if vex { Some(loc.clone()) } else { None }));
            }
        }
        Step::TagDelete { tag } => {
            ctx = StepCtx::Tag(tag.clone());
            let main = Dataset::open(&w.root_uri).await.unwrap();
            let r = main.tags().delete(&tag).await;
            let c = r.as_ref().map(|_| 0).unwrap_or_else(code);
            w.rops.push(format!("TDelete {}", cstr(&tag)));
            w.codes.push(c);
            sink.count(&format!("e2e:tag_delete:code{c}"));
            if r.is_ok() {
                w.tags.remove(&tag);
            }
        }
        Step::ShallowClone { src, version, foreign } => {
            w.clones += 1;
            let newloc = Loc::Clone(w.clones);
            ctx = StepCtx::CloneTo(newloc.clone(), foreign.is_some());
            let uri = w.base.join(format!("clone{}", w.clones)).to_string_lossy().to_string();
            let handle_loc = foreign.clone().unwrap_or(src.clone());
            let expect = w.locs[&src].snaps.get(&version).cloned();
            let src_manifest = match w.open(&src, Some(version)).await {
                Ok(d) => Some((d.manifest().clone(), d.uri().to_string())),
                Err(_) => None,
            };
            let mut h = w.open(&handle_loc, None).await.unwrap();
            let r = h.shallow_clone(&uri, (branch_opt(&src), Some(version)), None).await;
            sink.count(&format!("e2e:shallow_clone:{}", if r.is_ok() { "ok" } else { "err" }));
            if foreign.is_some() {
                w.tainted = true;
            }
            // register the location first so that the file oracle knows the prefix
            w.locs.insert(newloc.clone(), LocState { uri: uri.clone(), prefix: format!("clone{}/", w.clones), snaps: BTreeMap::new(), latest: version, parent: Some(src.clone()), alive: false, broken: false });
            match r {
                Ok(d) => {
                    let got = scan_ids(&d).await;
                    let ver = d.version().version;
                    let ok = expect.is_some() && got.as_ref().ok() == expect.as_ref() && ver == version;
                    let s = w.locs.get_mut(&newloc).unwrap();
                    s.alive = true;
                    s.latest = ver;
                    if ok {
                        s.snaps.insert(ver, expect.clone().unwrap());
                        sink.oracle_ok();
                    } else {
                        if let Ok(g) = &got {
                            s.snaps.insert(ver, g.clone());
                        } else {
                            s.broken = true;
                        }
                        s.parent = Some(handle_loc.clone());
                        let class = if foreign.is_some() { Some(C_FOREIGN) } else { None };
                        sink.oracle_fail(class, "a shallow clone does not read the (branch, version) it was cloned from", w.case(json!({"source": src.show(), "version": version, "handle": handle_loc.show(), "expected_rows": expect.as_ref().map(|e| e.len()), "got": format!("{:?}", got.as_ref().map(|r| r.len()))})));
                    }
                    if let (Some((sm, suri)), true) = (src_manifest, foreign.is_none()) {
                        let mut tok = Tokens::default();
                        let (fr, bs) = manifest_terms(&sm, &mut tok);
                        let rp = tok.get(&suri);
                        let (cfr, cbs) = manifest_terms(d.manifest(), &mut tok);
                        sink.nontrivial(&format!("clone{}{}", w.label, w.hist.len()));
                        st.clone.push(format!("(({fr}, {bs}), {rp})"), format!("(Ok ({cfr}, {cbs}))"), json!({"history": w.label, "shallow_clone_of": src.show(), "version": version, "source_base_paths": sm.base_paths.len(), "clone_base_paths": d.manifest().base_paths.len()}));
                    }
                }
                Err(e) => {
                    if expect.is_none() || foreign.is_some() {
                        sink.oracle_ok();
                    } else {
                        sink.oracle_fail(None, "shallow_clone of an existing version failed", w.case(json!({"source": src.show(), "version": version, "error": short(e)})));
                    }
                }
            }
        }
        Step::Cleanup { loc, delete_unverified } => {
            ctx = StepCtx::Cleanup(loc.clone());
            let h = w.open(&loc, None).await.unwrap();
            let r = h.cleanup_old_versions(chrono::Duration::zero(), Some(delete_unverified), Some(false)).await;
            sink.count(&format!("e2e:cleanup:{}", if r.is_ok() { "ok" } else { "err" }));
            if let Err(e) = r {
                sink.oracle_fail(None, "cleanup_old_versions failed", w.case(json!({"reference": loc.show(), "error": short(e)})));
            }
        }
    }
    let after = list_files(&w.base);
    w.check_files(sink, &ctx, &before, &after);
    w.verify_all(sink, rng, &ctx).await;
}

fn finish_history(w: &World, st: &mut Streams, sink: &mut Sink) {
    if w.tainted || w.rops.is_empty() {
        sink.count("e2e:histories-with-known-class");
        return;
    }
    sink.count("e2e:histories-clean");
    let tags = coq::list(w.tags.iter().map(|(k, v)| format!("({}, ({}, {}))", cstr(k), copt_str(&v.0), v.1)));
    let branches = coq::list(w.branches.iter().map(|(k, v)| format!("({}, ({}, {}))", cstr(k), copt_str(&v.0), v.1)));
    let dirs = dataset_dirs(&w.base);
    let out = format!("({}, ({}, {}, {}))", coq::nlist(w.codes.iter()), tags, branches, coq::list(dirs.iter().map(|d| cstr(d))));
    let inp = coq::list(w.rops.iter().cloned());
    sink.nontrivial(&inp);
    st.refs.push(inp, out, json!({"history": w.label, "steps": w.hist, "codes": w.codes, "dirs": dirs}));
}

// ---------------------------------------------------------------------------------------------------
// generators
const NAMES: [&str; 14] = ["a", "ab", "abc", "ab/c", "a/b", "a/b/c", "a_versions", "dev", "f/x", "f/y", "f/x/z", "rel/1.0", "x-y", "a/bc"];
const TAGS: [&str; 6] = ["t1", "v1.0", "rel-2", "x_y", "t.lock", "bad/tag"];

fn random_step(w: &World, rng: &mut Rng) -> Option<Step> {
    let alive = w.alive_locs();
    let branchable: Vec<Loc> = alive.iter().filter(|l| !matches!(l, Loc::Clone(_))).cloned().collect();
    if alive.is_empty() || branchable.is_empty() || !alive.contains(&Loc::Main) {
        return None;
    }
    let pick_version = |rng: &mut Rng, l: &Loc| -> u64 {
        let vs: Vec<u64> = w.locs[l].snaps.keys().copied().collect();
        *rng.pick(&vs)
    };
    match rng.below(100) {
        0..=29 => {
            let l = rng.pick(&alive).clone();
            Some(match rng.below(10) {
                0..=5 => Step::Append(l, rng.range(1, 4) as usize),
                6..=7 => Step::Overwrite(l, rng.range(1, 3) as usize),
                8 => Step::DeleteRows(l, rng.range(2, 3) as i32),
                _ if rng.bool() => {
                    // stale or not, on main, branches and clones alike: the rows must land on the location itself
                    let stale = rng.bool();
                    Step::TwoPhaseAppend { loc: l, rows: rng.range(1, 2) as usize, stale }
                }
                _ => Step::Compact(l),
            })
        }
        30..=51 => {
            let src = rng.pick(&branchable).clone();
            let version = if rng.chance(1, 12) { w.locs[&src].latest + 7 } else { pick_version(rng, &src) };
            let name = rng.pick(&NAMES).to_string();
            Some(Step::CreateBranch { name, src, version, foreign: None })
        }
        52..=65 => {
            // delete: a live branch without dependents (clean histories), sometimes an unknown name
            let live: Vec<String> = w.branches.iter().filter(|(_, b)| w.dependents(&b.2).is_empty()).map(|(k, _)| k.clone()).collect();
            if !live.is_empty() && rng.chance(5, 6) {
                Some(Step::DeleteBranch { name: rng.pick(&live).clone(), force: rng.chance(1, 4) })
            } else {
                let n = rng.pick(&NAMES).to_string();
                if w.branches.contains_key(&n) {
                    return None;
                }
                // force-deleting an unlisted name removes a leftover (zombie) directory, never a live branch.
                // (Without a directory the force delete fails with NotFound on a local file system, depending on
                //  which empty parent directories earlier deletes left behind: outside the model's domain.)
                let zombie = dataset_dirs(&w.base).contains(&n);
                let force = rng.bool();
                if force && !zombie {
                    return None;
                }
                Some(Step::DeleteBranch { name: n, force })
            }
        }
        66..=85 => {
            // updates and deletes mostly aim at tags that exist (otherwise they only exercise the error paths)
            let existing: Vec<String> = w.tags.keys().cloned().collect();
            let kind = rng.below(5);
            let tag = if kind >= 2 && !existing.is_empty() && rng.chance(3, 4) { rng.pick(&existing).clone() } else { rng.pick(&TAGS).to_string() };
            match kind {
                0..=1 => {
                    let l = rng.pick(&branchable).clone();
                    let version = if rng.chance(1, 8) { w.locs[&l].latest + 5 } else { pick_version(rng, &l) };
                    Some(Step::TagCreate { tag, br: branch_opt(&l), loc: l, version })
                }
                2..=3 => {
                    let l = rng.pick(&branchable).clone();
                    let version = if rng.chance(1, 8) { w.locs[&l].latest + 5 } else { pick_version(rng, &l) };
                    Some(Step::TagUpdate { tag, br: branch_opt(&l), loc: l, version })
                }
                _ => Some(Step::TagDelete { tag }),
            }
        }
        86..=92 => {
            let src = rng.pick(&branchable).clone();
            let version = pick_version(rng, &src);
            Some(Step::ShallowClone { src, version, foreign: None })
        }
        _ => {
            // clean-up only where nothing else depends on the files (otherwise: known class, scripted below)
            let c: Vec<Loc> = alive.iter().filter(|l| w.dependents(l).is_empty()).cloned().collect();
            if c.is_empty() {
                None
            } else {
                Some(Step::Cleanup { loc: rng.pick(&c).clone(), delete_unverified: rng.bool() })
            }
        }
    }
}

fn main_loc() -> Loc {
    Loc::Main
}
fn find_branch_loc(w: &World, n: &str) -> Loc {
    w.branches[n].2.clone()
}

pub fn run(args: &Args, sink: &mut Sink, rng: &mut Rng) {
    let rt = tokio::runtime::Builder::new_multi_thread().worker_threads(4).enable_all().build().unwrap();
    let mut st = Streams {
        del: Stream::new("e2e_delete", REQ, "chk_cleanup", "list N * list (list N)", "outcome (option (list N))"),
        refs: Stream::new("e2e_refs", REQ, "chk_refs", "list rop", "list N * (list (list N * (option (list N) * N)) * list (list N * (option (list N) * N)) * list (list N))"),
        clone: Stream::new("e2e_clone", REQ, "chk_clone_commit", &format!("(list ({FRAG_TY}) * list (N * N)) * N"), &format!("outcome (list ({FRAG_TY}) * list (N * N))")),
    };
    st.refs.shard = 40;
    rt.block_on(async {
        // ---- BranchLocation arithmetic needs one dataset to obtain a BranchLocation value
        {
            let w = World::new("seed", 2).await;
            let ds = Dataset::open(&w.root_uri).await.unwrap();
            crate::cleanup::find_branch_arm(args, sink, rng, &ds);
        }
        // ---- corpus histories (F6 regression inputs, end to end)
        for (label, names, del) in [("corpus:F6-abc", vec!["ab", "ab/c", "abc"], "abc"), ("corpus:F6-a_versions", vec!["a", "a_versions"], "a_versions"), ("corpus:nested", vec!["f/x", "f/x/z", "f/y"], "f/x")] {
            let mut w = World::new(label, 3).await;
            for n in &names {
                apply(&mut w, &mut st, sink, rng, Step::CreateBranch { name: n.to_string(), src: main_loc(), version: 1, foreign: None }).await;
                let l = find_branch_loc(&w, n);
                apply(&mut w, &mut st, sink, rng, Step::Append(l, 2)).await;
            }
            let l0 = find_branch_loc(&w, names[0]);
            apply(&mut w, &mut st, sink, rng, Step::TagCreate { tag: "t1".into(), loc: l0, br: Some(names[0].to_string()), version: 2 }).await;
            apply(&mut w, &mut st, sink, rng, Step::DeleteBranch { name: del.to_string(), force: false }).await;
            apply(&mut w, &mut st, sink, rng, Step::CreateBranch { name: del.to_string(), src: main_loc(), version: 1, foreign: None }).await;
            for n in &names {
                if w.branches.contains_key(*n) {
                    apply(&mut w, &mut st, sink, rng, Step::DeleteBranch { name: n.to_string(), force: false }).await;
                }
            }
            finish_history(&w, &mut st, sink);
        }
        // ---- random clean histories
        let nh = args.vol(9, 90);
        let steps = args.vol(14, 22);
        for h in 0..nh {
            let mut w = World::new(&format!("random:{}:{h}", args.seed), rng.range(1, 4) as usize).await;
            let mut done = 0;
            let mut tries = 0;
            while done < steps && tries < steps * 4 {
                tries += 1;
                if let Some(s) = random_step(&w, rng) {
                    apply(&mut w, &mut st, sink, rng, s).await;
                    done += 1;
                }
            }
            finish_history(&w, &mut st, sink);
        }
        // ---- scripted histories inside the known-finding classes (reproductions; failures are tagged)
        // F7: clean-up on a parent after branching from an old version
        for variant in 0..args.vol(2, 6) {
            let mut w = World::new(&format!("known:cleanup:{variant}"), 3).await;
            let parent = if variant % 2 == 0 {
                main_loc()
            } else {
                apply(&mut w, &mut st, sink, rng, Step::CreateBranch { name: "p".into(), src: main_loc(), version: 1, foreign: None }).await;
                let l = find_branch_loc(&w, "p");
                apply(&mut w, &mut st, sink, rng, Step::Append(l.clone(), 2)).await;
                l
            };
            let v = w.locs[&parent].latest;
            apply(&mut w, &mut st, sink, rng, Step::CreateBranch { name: "dev".into(), src: parent.clone(), version: v, foreign: None }).await;
            if variant >= 2 {
                apply(&mut w, &mut st, sink, rng, Step::ShallowClone { src: parent.clone(), version: v, foreign: None }).await;
            }
            apply(&mut w, &mut st, sink, rng, Step::Overwrite(parent.clone(), 2)).await;
            apply(&mut w, &mut st, sink, rng, Step::Cleanup { loc: parent.clone(), delete_unverified: variant % 3 == 0 }).await;
            finish_history(&w, &mut st, sink);
        }
        // deleting a branch that other references were created from
        for variant in 0..args.vol(2, 4) {
            let mut w = World::new(&format!("known:dependents:{variant}"), 3).await;
            apply(&mut w, &mut st, sink, rng, Step::CreateBranch { name: "x".into(), src: main_loc(), version: 1, foreign: None }).await;
            let x = find_branch_loc(&w, "x");
            apply(&mut w, &mut st, sink, rng, Step::Append(x.clone(), 2)).await;
            if variant % 2 == 0 {
                apply(&mut w, &mut st, sink, rng, Step::CreateBranch { name: "c".into(), src: x.clone(), version: 2, foreign: None }).await;
            } else {
                apply(&mut w, &mut st, sink, rng, Step::ShallowClone { src: x.clone(), version: 2, foreign: None }).await;
            }
            apply(&mut w, &mut st, sink, rng, Step::DeleteBranch { name: "x".into(), force: variant >= 2 }).await;
            finish_history(&w, &mut st, sink);
        }
        // a branch nested in a directory name the outer branch's dataset uses itself
        for (variant, child) in ["a/data", "a/_versions", "a/_indices/q", "a/_deletions"].iter().enumerate().take(args.vol(3, 4)) {
            let mut w = World::new(&format!("known:reserved:{child}"), 3).await;
            apply(&mut w, &mut st, sink, rng, Step::CreateBranch { name: "a".into(), src: main_loc(), version: 1, foreign: None }).await;
            let a = find_branch_loc(&w, "a");
            apply(&mut w, &mut st, sink, rng, Step::Append(a.clone(), 2)).await;
            apply(&mut w, &mut st, sink, rng, Step::CreateBranch { name: child.to_string(), src: main_loc(), version: 1, foreign: None }).await;
            w.tainted = true;
            let c = find_branch_loc(&w, child);
            apply(&mut w, &mut st, sink, rng, Step::Append(c.clone(), 2)).await;
            if variant == 0 {
                apply(&mut w, &mut st, sink, rng, Step::Append(a.clone(), 1)).await;
                apply(&mut w, &mut st, sink, rng, Step::Cleanup { loc: a.clone(), delete_unverified: true }).await;
            } else {
                apply(&mut w, &mut st, sink, rng, Step::DeleteBranch { name: child.to_string(), force: false }).await;
            }
            finish_history(&w, &mut st, sink);
        }
        // fixed regression case (repaired by ce3cd96, strict oracle): a two-phase append on a branch, committed after
        // the branch moved on, lands on the branch; main is untouched
        for variant in 0..args.vol(2, 3) {
            let mut w = World::new(&format!("corpus:stale-commit-on-branch:{variant}"), 3).await;
            for _ in 0..(2 + variant) {
                apply(&mut w, &mut st, sink, rng, Step::Append(main_loc(), 1)).await;
            }
            apply(&mut w, &mut st, sink, rng, Step::CreateBranch { name: "b".into(), src: main_loc(), version: 1, foreign: None }).await;
            let b = find_branch_loc(&w, "b");
            apply(&mut w, &mut st, sink, rng, Step::Append(b.clone(), 1)).await;
            apply(&mut w, &mut st, sink, rng, Step::TwoPhaseAppend { loc: b.clone(), rows: 1, stale: false }).await;
            apply(&mut w, &mut st, sink, rng, Step::TwoPhaseAppend { loc: b.clone(), rows: 1, stale: true }).await;
            finish_history(&w, &mut st, sink);
        }
        // create_branch / shallow_clone of (branch, version) through a handle on another branch
        for variant in 0..args.vol(2, 4) {
            let mut w = World::new(&format!("known:foreign:{variant}"), 3).await;
            apply(&mut w, &mut st, sink, rng, Step::Append(main_loc(), 1)).await;
            apply(&mut w, &mut st, sink, rng, Step::CreateBranch { name: "a".into(), src: main_loc(), version: 1, foreign: None }).await;
            let a = find_branch_loc(&w, "a");
            apply(&mut w, &mut st, sink, rng, Step::Append(a.clone(), 2)).await;
            match variant {
                0 => apply(&mut w, &mut st, sink, rng, Step::CreateBranch { name: "b".into(), src: a.clone(), version: 2, foreign: Some(main_loc()) }).await,
                1 => apply(&mut w, &mut st, sink, rng, Step::ShallowClone { src: a.clone(), version: 2, foreign: Some(main_loc()) }).await,
                2 => apply(&mut w, &mut st, sink, rng, Step::CreateBranch { name: "b".into(), src: main_loc(), version: 2, foreign: Some(a.clone()) }).await,
                _ => apply(&mut w, &mut st, sink, rng, Step::ShallowClone { src: main_loc(), version: 2, foreign: Some(a.clone()) }).await,
            }
            apply(&mut w, &mut st, sink, rng, Step::Append(main_loc(), 1)).await;
            finish_history(&w, &mut st, sink);
        }
    });
    sink.add(st.del);
    sink.add(st.refs);
    sink.add(st.clone);
}
