//! get_cleanup_path through the hook lance::dataset::refs::verif_get_cleanup_path (base location
//! `root`): exhaustive over small name sets + fixed corpus + random hierarchical names, model vs
//! implementation, plus the direct safety oracle (implementation only):
//!   * Some(D): D is a segment prefix of root/tree/<b>, strictly below root/tree, and D is not a segment
//!     prefix of root/tree/<r> for any remaining r; nor does D lie inside the own storage
//!     (root/tree/<r>/<_versions|data|_transactions|_deletions|_indices>/...) of a remaining r;
//!   * None exactly when some remaining branch lives at or under b's directory.
//! Also: BranchLocation::find_branch / find_main path arithmetic (model vs implementation + round trips).
use hxlib::util::{catch, coq, Args, Rng, Sink, Stream};
use lance::dataset::refs::{check_valid_branch, verif_get_cleanup_path};
use serde_json::json;

use crate::names::REQ;

pub const RESERVED: [&str; 5] = ["_versions", "data", "_transactions", "_deletions", "_indices"];

pub fn cstr(s: &str) -> String {
    coq::list(s.chars().map(|c| coq::n(c as u64)))
}
pub fn copt_str(s: &Option<String>) -> String {
    coq::opt(s.as_ref().map(|x| cstr(x)))
}

fn seg_prefix(p: &[&str], q: &[&str]) -> bool {
    p.len() <= q.len() && p.iter().zip(q.iter()).all(|(a, b)| a == b)
}

/// The direct safety oracle on one (branch, remaining) -> result. Returns (class, what) on failure.
pub fn safety_oracle(b: &str, remaining: &[String], out: &Result<Option<String>, bool>) -> Option<(Option<&'static str>, String)> {
    let bsegs: Vec<&str> = b.split('/').collect();
    let under_b = remaining.iter().any(|r| seg_prefix(&bsegs, &r.split('/').collect::<Vec<_>>()));
    match out {
        Err(true) => Some((None, "get_cleanup_path panicked".into())),
        Err(false) => {
            // only names with a "." segment fail (object_store rejects the path segment ".")
            if bsegs.iter().any(|s| *s == ".") {
                None
            } else {
                Some((None, "get_cleanup_path returned Err for a valid branch name without '.' segments".into()))
            }
        }
        Ok(None) => {
            if under_b {
                None
            } else {
                Some((None, "no clean-up although no remaining branch lives under the deleted branch's directory (storage leak)".into()))
            }
        }
        Ok(Some(d)) => {
            if under_b {
                return Some((None, format!("clean-up of {d} although a remaining branch lives under the deleted branch's directory")));
            }
            let dsegs: Vec<&str> = d.split('/').collect();
            let mut full = vec!["root", "tree"];
            full.extend(bsegs.iter());
            if dsegs.len() < 3 || !seg_prefix(&dsegs, &full) {
                return Some((None, format!("clean-up directory {d} is not a directory on the way to root/tree/{b} (below root/tree)")));
            }
            for r in remaining {
                let mut rfull = vec!["root", "tree"];
                rfull.extend(r.split('/'));
                if seg_prefix(&dsegs, &rfull) {
                    return Some((None, format!("clean-up directory {d} contains the directory of remaining branch {r}")));
                }
                // D inside r's own storage: root/tree/<r>/<reserved>/...
                if seg_prefix(&rfull, &dsegs) && dsegs.len() > rfull.len() && RESERVED.contains(&dsegs[rfull.len()]) {
                    return Some((Some("reserved_dir_segment"), format!("clean-up directory {d} is inside the own storage of remaining branch {r}")));
                }
            }
            // maximality: the parent of D is root/tree or is shared with a remaining branch
            if dsegs.len() > 3 {
                let parent = &dsegs[..dsegs.len() - 1];
                let shared = remaining.iter().any(|r| {
                    let mut rfull = vec!["root", "tree"];
                    rfull.extend(r.split('/'));
                    seg_prefix(parent, &rfull)
                });
                if !shared {
                    return Some((None, format!("clean-up directory {d} leaves an unused parent directory behind")));
                }
            }
            None
        }
    }
}

fn call_hook(b: &str, rem: &[String]) -> Result<Option<String>, bool> {
    let refs: Vec<&str> = rem.iter().map(|s| s.as_str()).collect();
    match catch(|| verif_get_cleanup_path(b, &refs)) {
        Ok(Ok(v)) => Ok(v),
        Ok(Err(_)) => Err(false),
        Err(_) => Err(true),
    }
}

pub fn push_case(sink: &mut Sink, s: &mut Stream, b: &str, rem: &[String], kind: &str, with_oracle: bool) {
    let out = call_hook(b, rem);
    if with_oracle {
        match safety_oracle(b, rem, &out) {
            None => sink.oracle_ok(),
            Some((class, what)) => sink.oracle_fail(class, &what, json!({"delete": b, "remaining": rem, "cleanup_path": format!("{:?}", out)})),
        }
    }
    sink.count(&format!(
        "cleanup:{kind}:{}",
        match &out {
            Ok(None) => "none",
            Ok(Some(_)) => "some",
            Err(false) => "err",
            Err(true) => "panic",
        }
    ));
    let inp = format!("({}, {})", cstr(b), coq::list(rem.iter().map(|r| cstr(r))));
    sink.nontrivial(&inp);
    let o = coq::outcome(&out.clone().map(|o| coq::opt(o.map(|d| cstr(&d)))));
    s.push(inp, o, json!({"delete": b, "remaining": rem, "cleanup_path": format!("{:?}", out)}));
}

fn valid(n: &str) -> bool {
    check_valid_branch(n).is_ok()
}

pub fn run(args: &Args, sink: &mut Sink, rng: &mut Rng) {
    let mut s = Stream::new("cleanup", REQ, "chk_cleanup", "list N * list (list N)", "outcome (option (list N))");
    s.shard = 700;

    // ---- fixed corpus (old failing inputs of F6 first)
    for (b, rem) in crate::corpus_cleanup() {
        let ok = valid(&b) && rem.iter().all(|r| valid(r)) && !rem.contains(&b);
        push_case(sink, &mut s, &b, &rem, "corpus", ok);
    }
    // the table of the Rust unit test test_get_cleanup_path
    let table: [(&str, &[&str]); 15] = [
        ("feature/auth", &["feature/login", "feature/signup"]),
        ("feature/auth/module", &["feature/other"]),
        ("a/b/c", &["a/b/d", "a/e"]),
        ("feature/auth", &["feature/auth/sub"]),
        ("feature", &["feature/sub1", "feature/sub2"]),
        ("a/b", &["a/b/c", "a/b/d"]),
        ("main", &[]),
        ("a", &["a"]),
        ("single", &["other"]),
        ("feature/auth/login/oauth", &["feature/auth/login/basic", "feature/auth/signup"]),
        ("feature/user-auth", &["feature/user-signup"]),
        ("release/2024.01", &["release/2024.02"]),
        ("very/long/common/prefix/branch1", &["very/long/common/prefix/branch2"]),
        ("feature", &["bugfix", "hotfix"]),
        ("feature/sub", &["feature", "other"]),
    ];
    for (b, rem) in table {
        let rem: Vec<String> = rem.iter().map(|x| x.to_string()).collect();
        push_case(sink, &mut s, b, &rem, "unit-test-table", false);
    }

    // ---- exhaustive: universe = all valid names of length <= 3 over {a,b,/} (18 names) + 4 prefix-trap names;
    //      every b in it x every remaining set of size <= 2 (quick) / <= 3 (thorough) not containing b
    let mut universe: Vec<String> = vec![];
    let alpha = ['a', 'b', '/'];
    for len in 1..=3usize {
        for code in 0..3usize.pow(len as u32) {
            let mut c = code;
            let mut st = String::new();
            for _ in 0..len {
                st.push(alpha[c % 3]);
                c /= 3;
            }
            if valid(&st) {
                universe.push(st);
            }
        }
    }
    for extra in ["a_", "a_/a", "ab/a", "a/ab"] {
        universe.push(extra.to_string());
    }
    let n = universe.len();
    let max_set = args.vol(2, 3);
    let mut count = 0u64;
    for bi in 0..n {
        let others: Vec<usize> = (0..n).filter(|j| *j != bi).collect();
        let mut sets: Vec<Vec<usize>> = vec![vec![]];
        for &i in &others {
            sets.push(vec![i]);
        }
        if max_set >= 2 {
            for (x, &i) in others.iter().enumerate() {
                for &j in &others[x + 1..] {
                    sets.push(vec![i, j]);
                }
            }
        }
        if max_set >= 3 {
            for (x, &i) in others.iter().enumerate() {
                for (y, &j) in others.iter().enumerate().skip(x + 1) {
                    for &k in &others[y + 1..] {
                        sets.push(vec![i, j, k]);
                    }
                }
            }
        }
        for set in sets {
            let rem: Vec<String> = set.iter().map(|&i| universe[i].clone()).collect();
            push_case(sink, &mut s, &universe[bi], &rem, "exhaustive", true);
            count += 1;
        }
    }
    sink.notes.push(format!("cleanup: exhaustive over {n} names (all valid names of length <= 3 over {{a,b,/}} + a_, a_/a, ab/a, a/ab) x every remaining set of size <= {max_set}: {count} cases"));

    // ---- random hierarchical valid names (segments that are prefixes of one another, dots, reserved words rarely)
    let segs = ["a", "ab", "abc", "a_versions", "b", "feature", "feat", "x.y", "v1", "1", "a-b", "_", "-", "dev"];
    let gen_name = |rng: &mut Rng, reserved: bool| -> String {
        let depth = rng.range(1, 4) as usize;
        let mut parts: Vec<String> = (0..depth).map(|_| rng.pick(&segs).to_string()).collect();
        if reserved {
            let at = rng.range(1, depth as u64) as usize;
            parts.insert(at.min(parts.len()), rng.pick(&RESERVED).to_string());
        }
        parts.join("/")
    };
    for it in 0..args.vol(900, 30000) {
        let reserved_case = it % 25 == 0;
        let with_res = reserved_case && rng.bool();
        let b = gen_name(rng, with_res);
        let mut rem: Vec<String> = vec![];
        for _ in 0..rng.range(0, 5) {
            let r = match rng.below(4) {
                // a relative of b: a prefix, an extension, a sibling
                0 => {
                    let bs: Vec<&str> = b.split('/').collect();
                    let k = rng.range(1, bs.len() as u64) as usize;
                    bs[..k].join("/")
                }
                1 => format!("{}/{}", b, rng.pick(&segs)),
                2 => {
                    let mut bs: Vec<String> = b.split('/').map(|x| x.to_string()).collect();
                    let k = rng.below(bs.len() as u64) as usize;
                    bs[k] = rng.pick(&segs).to_string();
                    bs.join("/")
                }
                _ => gen_name(rng, false),
            };
            if r != b && valid(&r) && !rem.contains(&r) {
                rem.push(r);
            }
        }
        if !valid(&b) {
            continue;
        }
        push_case(sink, &mut s, &b, &rem, if reserved_case { "random-reserved" } else { "random" }, true);
    }
    // ---- strings that are not valid names (join_str / Path::parse arms of find_branch); no safety oracle
    let odd = ["", "/", "a/", "/a", "a//b", ".", "a/.", "./a", "..", "a/../b", "a b", "a/b/", "//", "é", "é/x", "a\\b"];
    for b in odd {
        for rem in [vec![], vec!["a".to_string()], vec!["a/b".to_string(), "".to_string()], vec!["é".to_string(), ".".to_string()]] {
            push_case(sink, &mut s, b, &rem, "invalid-name", false);
        }
    }
    sink.add(s);
}

// ------------------------------------------------------------------------------------------------
// BranchLocation::find_branch / find_main. The type lives in a private module; a value is obtained from
// Dataset::find_branch_location and its public fields are overwritten.
pub fn find_branch_arm(args: &Args, sink: &mut Sink, rng: &mut Rng, ds: &lance::Dataset) {
    use object_store::path::Path;
    let seed_loc = ds.find_branch_location("seed").unwrap();
    let mut s = Stream::new("find_branch", REQ, "chk_find_branch", "(list N * list N * option (list N)) * option (list N)", "outcome (list N * list N * option (list N))");
    s.shard = 300;
    let roots: [(&str, &str); 6] = [("root", "memory://root"), ("", "memory://"), ("a/b", "file:///a/b"), ("tmp/x y/ds", "/tmp/x y/ds"), ("root", "memory://root/"), ("tree", "tree")];
    let names = ["a", "a/b", "ab", "x.y/z-1", "feature/auth/login", "tree", "tree/a", "a/tree/b", "_versions", "é"];
    let targets: Vec<Option<String>> = {
        let mut t: Vec<Option<String>> = vec![None, Some("".into()), Some("/a".into()), Some("a//b".into()), Some("a/".into()), Some(".".into()), Some("a/..".into()), Some("main".into())];
        for n in names {
            t.push(Some(n.to_string()));
        }
        t
    };
    let mut locs: Vec<(String, String, Option<String>)> = vec![];
    for (p, u) in roots {
        locs.push((p.to_string(), u.to_string(), None));
        for n in names {
            // a consistent branch location
            let pp = if p.is_empty() { format!("tree/{n}") } else { format!("{p}/tree/{n}") };
            let uu = if u.ends_with('/') { format!("{u}tree/{n}") } else { format!("{u}/tree/{n}") };
            locs.push((pp.clone(), uu.clone(), Some(n.to_string())));
            // inconsistent ones: wrong branch recorded, missing separator, doubled separator
            if rng.chance(1, 3) {
                locs.push((pp.clone(), uu.clone(), Some(format!("{n}x"))));
                locs.push((format!("{p}tree/{n}"), format!("{u}tree/{n}"), Some(n.to_string())));
                locs.push((pp.clone(), format!("{u}//tree/{n}"), Some(n.to_string())));
                locs.push((pp, uu, Some("".into())));
            }
        }
    }
    let _ = args;
    for (p, u, b) in &locs {
        let Ok(path) = Path::parse(p) else { continue };
        if path.as_ref() != p.as_str() {
            continue;
        }
        for t in &targets {
            let mut l = seed_loc.clone();
            l.path = path.clone();
            l.uri = u.clone();
            l.branch = b.clone();
            let l2 = l.clone();
            let t2 = t.clone();
            let out: Result<(String, String, Option<String>), bool> = match catch(move || l2.find_branch(t2)) {
                Ok(Ok(r)) => Ok((r.path.to_string(), r.uri.clone(), r.branch.clone())),
                Ok(Err(_)) => Err(false),
                Err(_) => Err(true),
            };
            // direct oracle (round trip) for consistent locations and valid targets: the result depends only on
            // the root, and find_main of the result is the root again
            // (a dataset at the very root of a store, path "", cannot find its way back from a branch: get_root_path
            //  requires a '/' before "tree/<name>" - recorded as an observation, outside the oracle)
            let consistent = !p.is_empty() && match b {
                None => true,
                Some(n) => !n.is_empty() && check_valid_branch(n).is_ok() && p.ends_with(&format!("/tree/{n}")) && u.ends_with(&format!("/tree/{n}")) && !u.ends_with(&format!("//tree/{n}")),
            };
            let valid_t = t.as_ref().map(|x| check_valid_branch(x).is_ok() && !x.split('/').any(|s| s == ".")).unwrap_or(true);
            if consistent && valid_t {
                let root = l.find_main();
                let ok = match (&out, root) {
                    (Ok((rp, ru, rb)), Ok(root)) => {
                        let via_root = root.find_branch(t.clone());
                        let back = {
                            let mut x = seed_loc.clone();
                            x.path = Path::parse(rp).unwrap();
                            x.uri = ru.clone();
                            x.branch = rb.clone();
                            x.find_main()
                        };
                        let root_uri_trim = root.uri.trim_end_matches('/').to_string();
                        let expect_uri = match t {
                            None => root.uri.clone(),
                            Some(t) => format!("{}/tree/{}", root_uri_trim, t),
                        };
                        let expect_path = match t {
                            None => root.path.to_string(),
                            Some(t) if root.path.as_ref().is_empty() => format!("tree/{t}"),
                            Some(t) => format!("{}/tree/{}", root.path, t),
                        };
                        matches!(&via_root, Ok(v) if v.path.as_ref() == rp.as_str() && &v.uri == ru && &v.branch == rb)
                            && matches!(&back, Ok(m) if m.path == root.path && m.uri.trim_end_matches('/') == root_uri_trim && m.branch.is_none())
                            && rb == t
                            && rp == &expect_path
                            && (ru == &expect_uri || (root.uri.ends_with('/') && t.is_some() && ru == &format!("{}tree/{}", root.uri, t.as_ref().unwrap())))
                    }
                    _ => false,
                };
                if ok {
                    sink.oracle_ok();
                } else {
                    sink.oracle_fail(None, "BranchLocation::find_branch: result is not <root>/tree/<name> or does not lead back to the root", json!({"path": p, "uri": u, "branch": b, "target": t, "out": format!("{:?}", out)}));
                }
                sink.count("find_branch:consistent");
            } else {
                sink.count("find_branch:odd");
            }
            let inp = format!("(({}, {}, {}), {})", cstr(p), cstr(u), copt_str(b), copt_str(t));
            sink.nontrivial(&inp);
            let o = coq::outcome(&out.clone().map(|(rp, ru, rb)| format!("({}, {}, {})", cstr(&rp), cstr(&ru), copt_str(&rb))));
            s.push(inp, o, json!({"path": p, "uri": u, "branch": b, "target": t, "out": format!("{:?}", out)}));
        }
    }
    sink.add(s);
}
