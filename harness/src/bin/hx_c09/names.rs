//! check_valid_branch / check_valid_tag: exhaustive over all strings of length <= N over the alphabet
//! {a,b,/,.,-,_,\,l,o,c,k}, plus random unicode strings.  Model side: Table/Model_Refs.v
//! (check_valid_branch / check_valid_tag return the index of the `return Err` that fired).
//! Direct oracle: the rule lists of docs/src/format/table/branch_tag.md, written here as character
//! scanners that do not share code with the implementation.
use hxlib::util::{coq, Args, Rng, Sink, Stream};
use lance::dataset::refs::{check_valid_branch, check_valid_tag};
use serde_json::json;

pub const REQ: &str = "Common.Base Table.Model_Refs";
pub const ALPHABET: [char; 11] = ['a', 'b', '/', '.', '-', '_', '\\', 'l', 'o', 'c', 'k'];

/// index of the `return Err` of check_valid_branch that produced this message
fn branch_code(r: &lance::Result<()>) -> Option<u64> {
    match r {
        Ok(()) => None,
        Err(e) => {
            let m = e.to_string();
            let k = if m.contains("cannot be empty") {
                1
            } else if m.contains("start or end with a '/'") {
                2
            } else if m.contains("consecutive '/'") {
                3
            } else if m.contains("cannot contain '..' or") {
                4
            } else if m.contains("empty segments") {
                5
            } else if m.contains("contains invalid characters") {
                6
            } else if m.contains("cannot end with '.lock'") {
                7
            } else if m.contains("cannot be 'main'") {
                8
            } else {
                99
            };
            let k = if matches!(e, lance::Error::InvalidRef { .. }) { k } else { 98 };
            Some(k)
        }
    }
}
fn tag_code(r: &lance::Result<()>) -> Option<u64> {
    match r {
        Ok(()) => None,
        Err(e) => {
            let m = e.to_string();
            let k = if m.contains("Ref cannot be empty") {
                1
            } else if m.contains("must be either alphanumeric") {
                2
            } else if m.contains("cannot begin with a dot") {
                3
            } else if m.contains("cannot end with a dot") {
                4
            } else if m.contains("cannot end with .lock") {
                5
            } else if m.contains("two consecutive dots") {
                6
            } else {
                99
            };
            let k = if matches!(e, lance::Error::InvalidRef { .. }) { k } else { 98 };
            Some(k)
        }
    }
}

fn allowed_char(c: char) -> bool {
    c.is_alphanumeric() || c == '.' || c == '-' || c == '_'
}

/// docs/src/format/table/branch_tag.md, "Branch Name", rules 1-7, as one left-to-right scan
pub fn doc_branch_ok(s: &str) -> bool {
    let cs: Vec<char> = s.chars().collect();
    if cs.is_empty() {
        return false; // 1
    }
    if cs[0] == '/' || cs[cs.len() - 1] == '/' {
        return false; // 2
    }
    for (i, &c) in cs.iter().enumerate() {
        let next = cs.get(i + 1).copied();
        if c == '/' && next == Some('/') {
            return false; // 3
        }
        if c == '.' && next == Some('.') {
            return false; // 4
        }
        if c == '\\' {
            return false; // 4
        }
        if c != '/' && !allowed_char(c) {
            return false; // 5
        }
    }
    let n = cs.len();
    if n >= 5 && cs[n - 5..] == ['.', 'l', 'o', 'c', 'k'] {
        return false; // 6
    }
    if cs == ['m', 'a', 'i', 'n'] {
        return false; // 7
    }
    true
}
/// "Tag Name", rules 1-5
pub fn doc_tag_ok(s: &str) -> bool {
    let cs: Vec<char> = s.chars().collect();
    if cs.is_empty() {
        return false;
    }
    if !cs.iter().all(|&c| allowed_char(c)) {
        return false;
    }
    if cs[0] == '.' || cs[cs.len() - 1] == '.' {
        return false;
    }
    let n = cs.len();
    if n >= 5 && cs[n - 5..] == ['.', 'l', 'o', 'c', 'k'] {
        return false;
    }
    if cs.windows(2).any(|w| w == ['.', '.']) {
        return false;
    }
    true
}

fn code_term(c: Option<u64>) -> String {
    coq::opt(c.map(coq::n))
}

fn oracle(sink: &mut Sink, s: &str, b: Option<u64>, t: Option<u64>) {
    if doc_branch_ok(s) != b.is_none() {
        sink.oracle_fail(None, "check_valid_branch disagrees with the documented branch-name rules", json!({"name": s, "impl_error_index": b}));
    } else {
        sink.oracle_ok();
    }
    if doc_tag_ok(s) != t.is_none() {
        sink.oracle_fail(None, "check_valid_tag disagrees with the documented tag-name rules", json!({"name": s, "impl_error_index": t}));
    } else {
        sink.oracle_ok();
    }
}

fn tally(sink: &mut Sink, b: Option<u64>, t: Option<u64>) {
    sink.count(&format!("names:branch:{}", b.map(|k| format!("err{k}")).unwrap_or("ok".into())));
    sink.count(&format!("names:tag:{}", t.map(|k| format!("err{k}")).unwrap_or("ok".into())));
}

pub fn run(args: &Args, sink: &mut Sink, rng: &mut Rng) {
    // ---- exhaustive sweep (always complete up to max_len). One correspondence case = BATCH consecutive strings of
    //      one length, the answers packed base 100 (keeps the coqc side small); the direct oracle runs per string.
    let max_len = 5usize;
    const BATCH: u64 = 500;
    let mut s = Stream::new("names_sweep", REQ, "chk_names_batch", "N * N * N", "list N");
    s.shard = 45;
    let mut total = 0u64;
    for len in 0..=max_len {
        let n = 11u64.pow(len as u32);
        let mut start = 0u64;
        while start < n {
            let count = BATCH.min(n - start);
            let mut codes: Vec<u64> = vec![];
            let mut first = String::new();
            let mut last = String::new();
            for code in start..start + count {
                let mut c = code;
                let mut st = String::with_capacity(len);
                for _ in 0..len {
                    st.push(ALPHABET[(c % 11) as usize]);
                    c /= 11;
                }
                let b = branch_code(&check_valid_branch(&st));
                let t = tag_code(&check_valid_tag(&st));
                oracle(sink, &st, b, t);
                tally(sink, b, t);
                total += 1;
                codes.push(b.unwrap_or(0).min(9) * 10 + t.unwrap_or(0).min(9));
                if code == start {
                    first = st.clone();
                }
                last = st;
            }
            let packed: Vec<u64> = codes.chunks(8).map(|ch| ch.iter().rev().fold(0u64, |acc, c| acc * 100 + c)).collect();
            s.push(format!("({len}, {start}, {count})"), coq::nlist(packed.iter()), json!({"length": len, "first_code": start, "count": count, "first": first, "last": last, "codes_branch_tag": codes}));
            start += count;
        }
    }
    sink.nontrivial += total; // every string of the sweep is a distinct input
    sink.count_n("names:sweep-strings", total);
    sink.notes.push(format!("names: exhaustive over all {total} strings of length <= {max_len} over {{a,b,/,.,-,_,\\,l,o,c,k}} (batched {BATCH} per correspondence case)"));
    sink.add(s);

    // ---- longer ASCII strings built from fragments that sit at the rule boundaries + random unicode
    let mut s = Stream::new("names_uni", REQ, "chk_names", "list N * list (N * bool)", "option N * option N");
    s.shard = 1000;
    let frags = [
        "a", "b", "Z", "0", "9", "/", "//", ".", "..", "-", "_", "\\", ".lock", "lock", "main", "mai", "n", "ab", "feature", "x.lock", " ", "@", "~", "*", "{", "%2F", "\t", "\u{7f}",
        "é", "ß", "中", "文", "٣", "²", "Ⅷ", "ª", "\u{300}", "€", "\u{200b}", "𝒜", "𝟗", "😀", "ǅ", "ʰ", "_versions", "data",
    ];
    let uni_ranges: [(u32, u32); 8] = [(0x80, 0x2ff), (0x370, 0x6ff), (0x900, 0xdff), (0x2000, 0x2bff), (0x3040, 0x30ff), (0x4e00, 0x4fff), (0xff00, 0xffef), (0x1d400, 0x1d7ff)];
    let mut cases: Vec<String> = vec![];
    for a in frags {
        cases.push(a.to_string());
        for b in frags {
            cases.push(format!("{a}{b}"));
            cases.push(format!("x{a}y{b}z"));
            if args.thorough() {
                cases.push(format!("x{a}{b}"));
                cases.push(format!("{a}{b}y"));
            }
        }
    }
    for u in crate::corpus_names() {
        cases.push(u);
    }
    for _ in 0..args.vol(2000, 60000) {
        let n = rng.range(1, 9) as usize;
        let mut st = String::new();
        for _ in 0..n {
            match rng.below(10) {
                0..=3 => {
                    let f: &&str = rng.pick(&frags[..]);
                    st.push_str(f)
                }
                4..=5 => st.push(*rng.pick(&ALPHABET)),
                6 => st.push(char::from_u32(rng.range(0x20, 0x7e) as u32).unwrap()),
                _ => {
                    let (lo, hi) = *rng.pick(&uni_ranges);
                    if let Some(c) = char::from_u32(rng.range(lo as u64, hi as u64) as u32) {
                        st.push(c);
                    }
                }
            }
        }
        cases.push(st);
    }
    let mut seen = std::collections::HashSet::new();
    for st in cases {
        if !seen.insert(st.clone()) {
            continue;
        }
        let b = branch_code(&check_valid_branch(&st));
        let t = tag_code(&check_valid_tag(&st));
        oracle(sink, &st, b, t);
        tally(sink, b, t);
        let mut cls: Vec<(u32, bool)> = st.chars().filter(|c| (*c as u32) >= 128).map(|c| (c as u32, c.is_alphanumeric())).collect();
        cls.sort();
        cls.dedup();
        if cls.is_empty() {
            sink.count("names:long-ascii");
        } else if cls.iter().any(|c| c.1) {
            sink.count("names:unicode-alnum");
        } else {
            sink.count("names:unicode-other");
        }
        let inp = format!(
            "({}, {})",
            coq::list(st.chars().map(|c| coq::n(c as u64))),
            coq::list(cls.iter().map(|(c, f)| format!("({}, {})", c, coq::b(*f))))
        );
        sink.nontrivial(&inp);
        s.push(inp, format!("({}, {})", code_term(b), code_term(t)), json!({"name": st, "branch": b, "tag": t}));
    }
    sink.add(s);
}
