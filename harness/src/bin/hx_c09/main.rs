//! hx_c09: branches, tags and shallow clones are isolated references (property C09).
mod probe;

fn main() {
    let (sub, args) = hxlib::util::Args::parse();
    let code = match sub.as_str() {
        "probe" => probe::run(&args),
        _ => {
            eprintln!("unknown subcommand {sub}");
            2
        }
    };
    std::process::exit(code);
}
