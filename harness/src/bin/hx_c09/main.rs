//! hx_c09: branches, tags and shallow clones are isolated references (property C09).
//! `hx_c09 c09 --tier quick|thorough --seed N --out DIR`; `hx_c09 probe` reruns the reproductions of the
//! known findings on the real code (not part of the check).
mod cleanup;
mod clone;
mod e2e;
mod names;
mod probe;

use hxlib::util::{Args, Rng, Sink};

fn corpus_dir() -> std::path::PathBuf {
    std::path::Path::new(env!("CARGO_MANIFEST_DIR")).join("..").join("corpus").join("C09")
}
pub fn corpus_names() -> Vec<String> {
    let p = corpus_dir().join("names.json");
    let v: serde_json::Value = serde_json::from_str(&std::fs::read_to_string(p).expect("corpus/C09/names.json")).unwrap();
    v.as_array().unwrap().iter().map(|x| x.as_str().unwrap().to_string()).collect()
}
pub fn corpus_cleanup() -> Vec<(String, Vec<String>)> {
    let p = corpus_dir().join("cleanup.json");
    let v: serde_json::Value = serde_json::from_str(&std::fs::read_to_string(p).expect("corpus/C09/cleanup.json")).unwrap();
    v.as_array()
        .unwrap()
        .iter()
        .map(|c| (c["delete"].as_str().unwrap().to_string(), c["remaining"].as_array().unwrap().iter().map(|x| x.as_str().unwrap().to_string()).collect()))
        .collect()
}

fn run(args: &Args) -> i32 {
    let mut sink = Sink::new("C09", &args.out);
    let mut rng = Rng::new(args.seed);
    cleanup::run(args, &mut sink, &mut rng);
    names::run(args, &mut sink, &mut rng);
    clone::run(args, &mut sink, &mut rng);
    e2e::run(args, &mut sink, &mut rng);
    sink.exhaustive = false;
    sink.finish();
    0
}

fn main() {
    let (sub, args) = Args::parse();
    let code = match sub.as_str() {
        "c09" => run(&args),
        "probe" => probe::run(&args),
        _ => {
            eprintln!("unknown subcommand {sub}");
            2
        }
    };
    std::process::exit(code);
}
