//! hx_c04: no lost updates (C04).  Shares the verdict matrix and the end-to-end world with hx_c03.
#[path = "../hx_c03/mt.rs"]
mod mt;
#[path = "../hx_c03/unit.rs"]
mod unit;
#[path = "../hx_c03/world.rs"]
mod world;
use hxlib::util::{Args, Rng, Sink};
use world::Op;

fn run(args: &Args) -> i32 {
    let rt = tokio::runtime::Builder::new_multi_thread().worker_threads(4).enable_all().build().unwrap();
    let mut sink = Sink::new("C04", &args.out);
    let mut rng = Rng::new(args.seed);
    rt.block_on(async {
        unit::verdict_matrix(&mut sink, "C04").await;
        // pairs / triples of delete, update (RewriteRows), merge_insert (both modes) over overlapping and disjoint row sets,
        // in the same and in different fragments, incl. whole-fragment deletes; mostly from stale handles
        let kinds = ["delete", "delete", "update", "update", "merge_insert_full", "merge_insert_partial", "append"];
        let forced = vec![
            // same row from two stale writers: exactly one commits
            vec![(Op::Delete(vec![1, 2]), true), (Op::Delete(vec![2, 3]), true)],
            vec![(Op::Update(vec![5]), true), (Op::Delete(vec![5, 9]), true)],
            vec![(Op::Delete(vec![4, 5, 6, 7]), true), (Op::Update(vec![6]), true)],
            // disjoint rows of one fragment: both commit, the second is rebased
            vec![(Op::Delete(vec![0]), true), (Op::Delete(vec![1]), true), (Op::Update(vec![2]), true)],
        ];
        world::histories(&mut sink, &mut rng, &kinds, args.vol(60, 600), "C04", forced).await;
    });
    sink.notes.push("e2e: delete/update/merge_insert histories from stale handles; per-commit serial-replay oracle (a lost update, a resurrected row or a double image makes the table differ)".into());
    sink.finish();
    0
}

fn main() {
    let (sub, args) = Args::parse();
    let code = match sub.as_str() {
        "c04" => run(&args),
        _ => {
            eprintln!("unknown subcommand {sub}");
            2
        }
    };
    std::process::exit(code);
}
