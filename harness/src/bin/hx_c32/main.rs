//! hx_c32: C32 - metadata serialisation round trips.
//! For every persisted metadata type: (a) direct oracle decode(encode(x)) == x through the real
//! conversions AND the real prost wire codec, compared by a canonical field-by-field rendering;
//! (b) `<type>_to` streams: the intermediate pb message, field by field, against the model's to_pb,
//! plus whether the round trip succeeded against the model's prediction; (c) `<type>_of` streams:
//! decoding of hand-made / mutated pb messages (missing fields, bad lengths, legacy encodings)
//! against the model's of_pb (Ok / Err / Panic).
mod e2e;
mod gen;
mod render;

use gen::*;
use hxlib::util::{catch, coq, Args, Rng, Sink, Stream};
use lance::dataset::refs::{BranchContents, TagContents};
use lance::dataset::transaction::Transaction;
use lance_index::mem_wal::{MemWal, MemWalIndexDetails};
use lance_table::format::pb;
use lance_table::format::{Fragment, IndexMetadata, Manifest};
use lance_table::rowids::segment::U64Segment;
use lance_table::rowids::version::{read_dataset_versions, write_dataset_versions, RowDatasetVersionRun, RowDatasetVersionSequence};
use lance_table::rowids::{read_row_ids, write_row_ids, RowIdSequence};
use prost::Message;
use render as rd;
use serde_json::json;

pub const REQ: &str = "Common.Base Meta.Model_Serde";

pub fn short<T: std::fmt::Debug>(x: &T) -> String {
    // Debug of a rowid Bitmap whose data is shorter than its length panics: keep the harness alive
    let mut s = catch(|| format!("{:?}", x)).unwrap_or_else(|_| "<Debug panicked>".to_string());
    if s.len() > 700 {
        let mut n = 700;
        while !s.is_char_boundary(n) {
            n -= 1;
        }
        s.truncate(n);
        s.push_str("...");
    }
    s
}
/// outcome of a fallible conversion wrapped in catch: Ok(rendered) | Err (false) | Panic (true)
fn outcome<T, E>(r: &Result<Result<T, E>, bool>, f: impl Fn(&T) -> String) -> Result<String, bool> {
    match r {
        Ok(Ok(v)) => Ok(f(v)),
        Ok(Err(_)) => Err(false),
        Err(_) => Err(true),
    }
}

/// Generic arm for one type: domain value -> pb -> bytes -> pb -> domain.
#[allow(clippy::too_many_arguments)]
fn roundtrip_case<X, P: Message + Default + PartialEq + std::fmt::Debug>(
    sink: &mut Sink,
    to_s: &mut Stream,
    kind: &str,
    x: &X,
    classes: u64,
    to_pb: impl Fn(&X) -> P,
    of_pb: impl Fn(P) -> Result<X, lance_core::Error>,
    dom: impl Fn(&X) -> String,
    pbr: impl Fn(&P) -> String,
    dbg: String,
) -> bool {
    let p = to_pb(x);
    let wire = p.encode_to_vec();
    let p2 = P::decode(wire.as_slice());
    // the prost codec hypothesis of the theorems, observed on this message
    match &p2 {
        Ok(q) if *q == p => sink.oracle_ok(),
        _ => sink.oracle_fail(None, &format!("{kind}: prost decode(encode(m)) != m"), json!({"value": dbg, "pb": short(&p)})),
    }
    let xr = dom(x);
    let back = catch(|| of_pb(p2.unwrap_or_default()));
    let rt = matches!(&back, Ok(Ok(y)) if dom(y) == xr);
    let case = json!({"kind": kind, "value": dbg, "pb": short(&p), "roundtrip_equal": rt, "classes": classes,
        "decoded": match &back { Ok(Ok(y)) => dom(y), Ok(Err(e)) => format!("Err({e})"), Err(_) => "panic".into() }});
    if rt && classes == 0 {
        sink.oracle_ok();
    } else if !rt && classes != 0 {
        sink.oracle_fail(Some(class_name(classes)), &format!("{kind}: decode(encode(x)) != x"), case.clone());
    } else if !rt {
        sink.oracle_fail(None, &format!("{kind}: decode(encode(x)) != x for a well-formed value"), case.clone());
    } else {
        sink.oracle_fail(None, &format!("{kind}: a value of known lossy class {} round-tripped (finding fixed? update model and KNOWN_FINDINGS)", class_name(classes)), case.clone());
    }
    sink.count(&format!("{kind}:{}", if classes == 0 { "wf" } else { class_name(classes) }));
    sink.nontrivial(&xr);
    to_s.push(xr, format!("({}, {})", pbr(&p), coq::b(rt)), case);
    rt
}

// ------------------------------------------------------------------------------------------------
// pb segment generator (well-formed and ill-formed)
fn pb_arr(r: &mut Rng, bad: bool) -> pb::EncodedU64Array {
    use pb::encoded_u64_array::{Array, U16Array, U32Array, U64Array};
    let n = match r.below(4) { 0 => 0, 1 => 1, _ => r.below(6) } as usize;
    let extra = if bad { 1 + r.below(1) as usize } else { 0 };
    let mk = |r: &mut Rng, w: usize| -> Vec<u8> {
        let mut v: Vec<u8> = vec![];
        for _ in 0..n {
            let x = match r.below(4) { 0 => 0u64, 1 => u64::MAX, _ => r.next() };
            v.extend_from_slice(&x.to_le_bytes()[..w]);
        }
        v.extend(std::iter::repeat(7u8).take(extra));
        v
    };
    let array = match r.below(if bad { 4 } else { 3 }) {
        0 => Some(Array::U16Array(U16Array { base: u64i(r), offsets: mk(r, 2) })),
        1 => Some(Array::U32Array(U32Array { base: u64i(r), offsets: mk(r, 4) })),
        2 => Some(Array::U64Array(U64Array { values: mk(r, 8) })),
        _ => None,
    };
    pb::EncodedU64Array { array }
}
fn pb_seg(r: &mut Rng, bad: bool) -> pb::U64Segment {
    use pb::u64_segment::{Range, RangeWithBitmap, RangeWithHoles, Segment};
    let (s, e) = match r.below(5) {
        0 => (0, 0),
        1 => (u64::MAX - 5, u64::MAX),
        2 if bad => (10, 3),
        _ => {
            let s = u64i(r) >> 1;
            (s, s + r.below(40))
        }
    };
    let badarr = bad && r.bool();
    let segment = match r.below(if bad { 6 } else { 5 }) {
        0 => Some(Segment::Range(Range { start: s, end: if r.chance(1, 6) { s / 2 } else { e } })),
        1 => Some(Segment::RangeWithHoles(RangeWithHoles { start: s, end: e, holes: if bad && r.chance(1, 3) { None } else { Some(pb_arr(r, badarr)) } })),
        2 => {
            let nbytes = if r.chance(1, 4) { r.below(4) } else { (e.wrapping_sub(s) % 64).div_ceil(8) };
            Some(Segment::RangeWithBitmap(RangeWithBitmap { start: s, end: if e.wrapping_sub(s) > 64 { s + 9 } else { e }, bitmap: (0..nbytes).map(|_| r.next() as u8).collect() }))
        }
        3 => Some(Segment::SortedArray(pb_arr(r, badarr))),
        4 => Some(Segment::Array(pb_arr(r, badarr))),
        _ => None,
    };
    pb::U64Segment { segment }
}

fn arm_rowids(args: &Args, sink: &mut Sink, rng: &mut Rng) {
    let mut s_to = Stream::new("seg_to", REQ, "chk_seg_to", "segment", "pb_segment * bool");
    let mut s_of = Stream::new("seg_of", REQ, "chk_seg_of", "pb_segment", "outcome segment");
    let mut domain: Vec<U64Segment> = vec![];
    // pb-first
    for i in 0..args.vol(200, 2000) {
        let bad = i % 4 == 0;
        let p = pb_seg(rng, bad);
        let r = catch(|| U64Segment::try_from(p.clone()));
        let out = outcome(&r, rd::seg_dom);
        sink.count(match &out { Ok(_) => "seg_of:ok", Err(false) => "seg_of:err", Err(true) => "seg_of:panic" });
        let pin = rd::seg_pb(&p);
        sink.nontrivial(&pin);
        s_of.push(pin, coq::outcome(&out), json!({"pb": short(&p), "decoded": short(&r.as_ref().map(|x| x.as_ref().map_err(|e| e.to_string())))}));
        if let Ok(Ok(x)) = r {
            domain.push(x);
        }
    }
    // domain-first through the public encoders (these choose the variant the way real tables do)
    for _ in 0..args.vol(60, 800) {
        let base = u64i(rng) >> 2;
        let n = rng.below(30);
        let mut vals: Vec<u64> = (0..n).map(|i| base + i * (1 + rng.below(3))).collect();
        match rng.below(5) {
            0 => vals.reverse(),
            1 => vals = vals.into_iter().map(|v| v.wrapping_mul(2654435761) >> rng.below(40)).collect(),
            2 => vals.dedup(),
            _ => {}
        }
        // row ids are unique (precondition of the encoder, C34's domain): drop repeats, keep order
        let mut seen = std::collections::HashSet::new();
        vals.retain(|v| seen.insert(*v));
        match catch(|| U64Segment::from_iter(vals.iter().copied())) {
            Ok(sg) => domain.push(sg),
            Err(_) => sink.count("segment:encoder-panicked-skipped"),
        }
        if n > 2 {
            let holes: Vec<u64> = vals.iter().copied().filter(|_| rng.chance(1, 4)).collect();
            domain.push(U64Segment::RangeWithHoles { range: base..base + 200, holes: holes.into() });
        }
    }
    for x in &domain {
        roundtrip_case(sink, &mut s_to, "segment", x, 0, |x| pb::U64Segment::from(x.clone()), U64Segment::try_from, rd::seg_dom, rd::seg_pb, short(x));
    }
    sink.add(s_to);
    sink.add(s_of);

    // version sequences (all fields public): lists of runs over the segments above
    let mut v_to = Stream::new("vseq_to", REQ, "chk_vseq_to", "vseq", "pb_vseq * bool");
    let mut v_of = Stream::new("vseq_of", REQ, "chk_vseq_of", "pb_vseq", "outcome vseq");
    for _ in 0..args.vol(100, 1200) {
        let n = match rng.below(5) { 0 => 0, 1 => 1, 2 => 12 + rng.below(20), _ => rng.below(6) };
        let runs: Vec<RowDatasetVersionRun> = (0..n).map(|_| RowDatasetVersionRun { span: if domain.is_empty() || rng.chance(1, 3) { U64Segment::Range(0..rng.below(100)) } else { rng.pick(&domain).clone() }, version: u64i(rng) }).collect();
        let x = RowDatasetVersionSequence { runs };
        // wire-level direct oracle: read(write x) == x
        let bytes = write_dataset_versions(&x);
        let back = catch(|| read_dataset_versions(&bytes));
        let rt = matches!(&back, Ok(Ok(y)) if *y == x);
        if rt {
            sink.oracle_ok();
        } else {
            sink.oracle_fail(None, "read_dataset_versions(write_dataset_versions(x)) != x", json!({"value": short(&x)}));
        }
        let p = pb::RowDatasetVersionSequence::decode(bytes.as_slice()).unwrap_or_default();
        let xr = rd::vseq_dom(&x);
        sink.nontrivial(&xr);
        sink.count(if x.runs.len() > 10 { "vseq:many-runs" } else { "vseq" });
        v_to.push(xr, format!("({}, {})", rd::vseq_pb(&p), coq::b(rt)), json!({"value": short(&x), "pb": short(&p)}));
        // decode side, sometimes with a missing span / broken segment
        let mut q = p.clone();
        if !q.runs.is_empty() && rng.chance(1, 3) {
            let i = rng.below(q.runs.len() as u64) as usize;
            if rng.bool() { q.runs[i].span = None } else { q.runs[i].span = Some(pb_seg(rng, true)) }
        }
        let r = catch(|| read_dataset_versions(&q.encode_to_vec()));
        let out = outcome(&r, rd::vseq_dom);
        v_of.push(rd::vseq_pb(&q), coq::outcome(&out), json!({"pb": short(&q), "out": format!("{:?}", out)}));
    }
    sink.add(v_to);
    sink.add(v_of);

    // row id sequences through write_row_ids / read_row_ids
    let mut r_of = Stream::new("rowids_of", REQ, "chk_rowids_of", "list pb_segment", "outcome (list (segment * list bool))");
    for i in 0..args.vol(80, 800) {
        let mut x = RowIdSequence::new();
        if i % 3 == 0 {
            // natural construction: ranges, arrays, deletions, masks
            for _ in 0..1 + rng.below(3) {
                let base = u64i(rng) >> 3;
                let part = match rng.below(3) {
                    0 => RowIdSequence::from(base..base + rng.below(50)),
                    1 => {
                        let v: Vec<u64> = (0..rng.below(20)).map(|j| base + j * 7 % 31).collect();
                        RowIdSequence::from(v.as_slice())
                    }
                    _ => {
                        let mut s = RowIdSequence::from(base..base + 40 + rng.below(300));
                        let del: Vec<u64> = (0..rng.below(12)).map(|_| base + rng.below(40)).collect();
                        s.delete(del);
                        s
                    }
                };
                x.extend(part);
            }
        } else {
            // (segments whose bitmap bytes are shorter than the range cannot be printed by Debug: left to the seg streams)
            let printable: Vec<&U64Segment> = domain.iter().filter(|s| !matches!(s, U64Segment::RangeWithBitmap { bitmap, .. } if bitmap.data.len() * 8 < bitmap.len)).collect();
            let segs: Vec<pb::U64Segment> = (0..rng.below(5)).map(|_| pb::U64Segment::from((*rng.pick(&printable)).clone())).collect();
            x = RowIdSequence::try_from(pb::RowIdSequence { segments: segs }).unwrap();
        }
        let bytes = write_row_ids(&x);
        let back = catch(|| read_row_ids(&bytes));
        let rt = matches!(&back, Ok(Ok(y)) if *y == x && format!("{:?}", y) == format!("{:?}", x));
        if rt {
            sink.oracle_ok();
        } else {
            sink.oracle_fail(None, "read_row_ids(write_row_ids(x)) != x", json!({"value": short(&x)}));
        }
        // independent prost decode of the written bytes; possibly corrupt one segment for the decode stream
        let mut p = pb::RowIdSequence::decode(bytes.as_slice()).unwrap_or_default();
        if !p.segments.is_empty() && rng.chance(1, 5) {
            let j = rng.below(p.segments.len() as u64) as usize;
            let q = pb_seg(rng, true);
            // keep Debug-printable (see above)
            let short_bitmap = matches!(&q.segment, Some(pb::u64_segment::Segment::RangeWithBitmap(b)) if b.end >= b.start && (b.bitmap.len() as u64) * 8 < b.end - b.start);
            if !short_bitmap {
                p.segments[j] = q;
            }
        }
        let r = catch(|| read_row_ids(&p.encode_to_vec()));
        let out = outcome(&r, |y| rd::rowids_view_dbg(&format!("{:?}", y)));
        let pin = coq::list(p.segments.iter().map(rd::seg_pb));
        sink.nontrivial(&pin);
        sink.count("rowids");
        r_of.push(pin, coq::outcome(&out), json!({"value": short(&x), "pb": short(&p)}));
    }
    sink.add(r_of);
}

fn arm_fragments(args: &Args, sink: &mut Sink, rng: &mut Rng) {
    let mut s_to = Stream::new("frag_to", REQ, "chk_frag_to", "fragment", "pb_fragment * bool");
    let mut s_of = Stream::new("frag_of", REQ, "chk_frag_of", "pb_fragment", "outcome fragment");
    for i in 0..args.vol(250, 2500) {
        let known = i % 5 == 0;
        let x = fragment(rng, known, false);
        let cls = if frag_in_default_class(&x) { CL_DEFAULT } else { 0 };
        roundtrip_case(sink, &mut s_to, "fragment", &x, cls, |x| pb::DataFragment::from(x), Fragment::try_from, rd::frag_dom, rd::frag_pb, short(&x));
        // serde_json form (Fragment::from_json), direct oracle only
        if cls == 0 {
            let js = serde_json::to_string(&x).unwrap();
            match Fragment::from_json(&js) {
                Ok(y) if rd::frag_dom(&y) == rd::frag_dom(&x) => sink.oracle_ok(),
                _ => sink.oracle_fail(None, "Fragment::from_json(to_json(x)) != x", json!({"value": short(&x), "json": js})),
            }
        }
        // decode side: mutate the message
        let mut p = pb::DataFragment::from(&x);
        match rng.below(6) {
            0 => {
                if let Some(d) = p.deletion_file.as_mut() {
                    d.file_type = *rng.pick(&[2, -1, 7, 1, 0]);
                }
            }
            1 => p.physical_rows = 0,
            2 => {
                if let Some(d) = p.deletion_file.as_mut() {
                    d.num_deleted_rows = 0;
                }
            }
            3 => p.files.iter_mut().for_each(|f| f.file_size_bytes = 0),
            _ => {}
        }
        let r = catch(|| Fragment::try_from(p.clone()));
        let out = outcome(&r, rd::frag_dom);
        sink.count(match &out { Ok(_) => "frag_of:ok", Err(false) => "frag_of:err", Err(true) => "frag_of:panic" });
        s_of.push(rd::frag_pb(&p), coq::outcome(&out), json!({"pb": short(&p), "out": format!("{:?}", out)}));
    }
    sink.add(s_to);
    sink.add(s_of);
}

fn arm_index(args: &Args, sink: &mut Sink, rng: &mut Rng) {
    let mut s_to = Stream::new("idx_to", REQ, "chk_idx_to", "index_meta", "pb_index_meta * bool");
    let mut s_of = Stream::new("idx_of", REQ, "chk_idx_of", "pb_index_meta", "outcome index_meta");
    for i in 0..args.vol(200, 2000) {
        let known = i % 5 == 0;
        let x = index_meta(rng, known);
        let cls = if idx_submilli(&x) { CL_SUBMILLI } else { 0 };
        roundtrip_case(sink, &mut s_to, "index", &x, cls, |x| pb::IndexMetadata::from(x), IndexMetadata::try_from, rd::idx_dom, rd::idx_pb, short(&x));
        let mut p = pb::IndexMetadata::from(&x);
        match rng.below(8) {
            0 => p.uuid = None,
            1 => p.uuid = Some(pb::Uuid { uuid: bytes(rng) }),
            2 => p.fragment_bitmap = vec![1, 2, 3],
            3 => p.index_version = None,
            4 => p.created_at = Some(*rng.pick(&[8_210_266_876_799_999u64, 8_210_266_876_800_000, (-8_334_601_228_800_000i64) as u64, (-8_334_601_228_800_001i64) as u64, u64::MAX, 1 << 63, (1 << 63) - 1, 0])),
            5 => p.fragment_bitmap = vec![],
            _ => {}
        }
        let r = catch(|| IndexMetadata::try_from(p.clone()));
        let out = outcome(&r, rd::idx_dom);
        sink.count(match &out { Ok(_) => "idx_of:ok", Err(false) => "idx_of:err", Err(true) => "idx_of:panic" });
        s_of.push(rd::idx_pb(&p), coq::outcome(&out), json!({"pb": short(&p), "out": format!("{:?}", out)}));
    }
    sink.add(s_to);
    sink.add(s_of);
}

fn arm_memwal(args: &Args, sink: &mut Sink, rng: &mut Rng) {
    let mut s_to = Stream::new("mw_to", REQ, "chk_mw_to", "mem_wal", "pb_mem_wal * bool");
    let mut s_of = Stream::new("mw_of", REQ, "chk_mw_of", "pb_mem_wal", "outcome mem_wal");
    for _ in 0..args.vol(100, 1200) {
        let x = mem_wal(rng);
        roundtrip_case(sink, &mut s_to, "memwal", &x, 0, |x| pb::mem_wal_index_details::MemWal::from(x), MemWal::try_from, rd::mw_dom, rd::mw_pb, short(&x));
        let mut p = pb::mem_wal_index_details::MemWal::from(&x);
        match rng.below(5) {
            0 => p.id = None,
            1 => p.state = *rng.pick(&[4, -1, 100]),
            2 => {
                p.id = None;
                p.state = 9;
            }
            _ => {}
        }
        let r = catch(|| MemWal::try_from(p.clone()));
        let out = outcome(&r, rd::mw_dom);
        sink.count(match &out { Ok(_) => "mw_of:ok", Err(false) => "mw_of:err", Err(true) => "mw_of:panic" });
        s_of.push(rd::mw_pb(&p), coq::outcome(&out), json!({"pb": short(&p), "out": format!("{:?}", out)}));
        // the details list (the index payload): direct oracle through the wire
        let d = MemWalIndexDetails { mem_wal_list: (0..rng.below(4)).map(|_| mem_wal(rng)).collect() };
        let bytes = pb::MemWalIndexDetails::from(&d).encode_to_vec();
        match pb::MemWalIndexDetails::decode(bytes.as_slice()).ok().and_then(|q| MemWalIndexDetails::try_from(q).ok()) {
            Some(y) if y == d => sink.oracle_ok(),
            _ => sink.oracle_fail(None, "MemWalIndexDetails decode(encode(x)) != x", json!({"value": short(&d)})),
        }
    }
    sink.add(s_to);
    sink.add(s_of);
}

fn arm_manifest(args: &Args, sink: &mut Sink, rng: &mut Rng) {
    let mut s_to = Stream::new("mf_to", REQ, "chk_mf_to", "manifest", "pb_manifest * bool");
    let mut s_of = Stream::new("mf_of", REQ, "chk_mf_of", "pb_manifest", "outcome manifest");
    s_to.shard = 100;
    s_of.shard = 100;
    for i in 0..args.vol(150, 1200) {
        let known = i % 5 == 0;
        let x = manifest(rng, known);
        let cls = if manifest_in_default_class(&x) { CL_DEFAULT } else { 0 };
        roundtrip_case(sink, &mut s_to, "manifest", &x, cls, |x| pb::Manifest::from(x), Manifest::try_from, rd::mf_dom, rd::mf_pb, short(&x));
        let mut p = pb::Manifest::from(&x);
        match rng.below(9) {
            0 => p.data_format = None,
            1 => {
                p.data_format = None;
                p.fragments.iter_mut().for_each(|f| f.files.iter_mut().for_each(|d| {
                    d.file_major_version = 2;
                    d.file_minor_version = 1;
                }));
            }
            2 => {
                p.data_format = None;
                p.fragments.clear();
                p.writer_feature_flags = rng.below(16);
            }
            3 => p.timestamp = Some(prost_types::Timestamp { seconds: *rng.pick(&[-1i64, 0, 5, i64::MAX, i64::MIN]), nanos: *rng.pick(&[0i32, 999_999_999, -1, i32::MAX]) }),
            4 => p.reader_feature_flags |= 2,
            5 => {
                // more deleted rows than physical rows: usize underflow in Fragment::num_rows
                if let Some(f) = p.fragments.first_mut() {
                    f.physical_rows = 3;
                    f.deletion_file = Some(pb::DeletionFile { file_type: 0, read_version: 1, id: 1, num_deleted_rows: 5, base_id: None });
                }
            }
            6 => p.fragments.iter_mut().for_each(|f| f.physical_rows = u64::MAX - 1),
            _ => {}
        }
        let r = catch(|| Manifest::try_from(p.clone()));
        let out = outcome(&r, rd::mf_dom);
        sink.count(match &out { Ok(_) => "mf_of:ok", Err(false) => "mf_of:err", Err(true) => "mf_of:panic" });
        s_of.push(rd::mf_pb(&p), coq::outcome(&out), json!({"pb": short(&p), "out": short(&out)}));
    }
    sink.add(s_to);
    sink.add(s_of);
}

fn arm_txn(args: &Args, sink: &mut Sink, rng: &mut Rng) {
    let mut s_to = Stream::new("txn_to", REQ, "chk_txn_to", "transaction", "pb_transaction * bool");
    let mut s_of = Stream::new("txn_of", REQ, "chk_txn_of", "pb_transaction", "outcome transaction");
    let mut s_cl = Stream::new("txn_class", REQ, "chk_txn_class", "transaction", "N");
    s_to.shard = 120;
    s_of.shard = 120;
    s_cl.shard = 150;
    let per = args.vol(24, 200);
    for kind in 0..15u64 {
        for i in 0..per {
            let known = i % 3 == 0;
            let x = transaction(rng, kind, known);
            let cls = txn_classes(&x);
            roundtrip_case(sink, &mut s_to, &format!("txn:{}", x.operation), &x, cls, |x| pb::Transaction::from(x), Transaction::try_from, rd::txn_dom, rd::txn_pb, short(&x));
            s_cl.push(rd::txn_dom(&x), coq::n(cls), json!({"value": short(&x), "classes": cls}));
            // decode side: mutated / legacy messages
            let mut p = pb::Transaction::from(&x);
            use pb::transaction::Operation as O;
            match rng.below(6) {
                0 => {
                    if rng.chance(1, 4) {
                        p.operation = None
                    }
                }
                1 => match p.operation.as_mut() {
                    Some(O::Rewrite(w)) => {
                        // legacy layout: groups empty, old/new fragment lists
                        let g = std::mem::take(&mut w.groups);
                        if let Some(g0) = g.into_iter().next() {
                            w.old_fragments = g0.old_fragments;
                            w.new_fragments = g0.new_fragments;
                        }
                        if rng.bool() {
                            if let Some(ri) = w.rewritten_indices.first_mut() {
                                match rng.below(3) {
                                    0 => ri.old_id = None,
                                    1 => ri.new_id = Some(pb::Uuid { uuid: vec![1, 2] }),
                                    _ => ri.new_index_details = None,
                                }
                            }
                        }
                    }
                    Some(O::UpdateConfig(c)) => {
                        // old-style fields (alone, or mixed with new-style ones -> Err)
                        if rng.bool() {
                            c.config_updates = None;
                            c.table_metadata_updates = None;
                            c.schema_metadata_updates = None;
                            c.field_metadata_updates.clear();
                        }
                        c.upsert_values = kvmap(rng);
                        c.delete_keys = (0..rng.below(3)).map(|_| string(rng)).collect();
                        c.schema_metadata = kvmap(rng);
                        for _ in 0..rng.below(3) {
                            c.field_metadata.insert(u32i(rng), pb::transaction::update_config::FieldMetadataUpdate { metadata: kvmap(rng) });
                        }
                    }
                    Some(O::DataReplacement(d)) => {
                        if let Some(g) = d.replacements.first_mut() {
                            g.new_file = None;
                        }
                    }
                    Some(O::Update(u)) => {
                        u.update_mode = *rng.pick(&[0, 1, 2, -1]);
                        if let Some(m) = u.mem_wal_to_merge.as_mut() {
                            match rng.below(3) {
                                0 => m.id = None,
                                1 => m.state = 17,
                                _ => {}
                            }
                        }
                    }
                    Some(O::UpdateMemWalState(u)) => {
                        if let Some(m) = u.updated.first_mut().or(u.added.first_mut()) {
                            if rng.bool() { m.id = None } else { m.state = 4 }
                        }
                    }
                    Some(O::CreateIndex(c)) => {
                        if let Some(ix) = c.new_indices.first_mut() {
                            match rng.below(3) {
                                0 => ix.uuid = None,
                                1 => ix.fragment_bitmap = vec![9, 9],
                                _ => ix.created_at = Some(u64::MAX / 3),
                            }
                        }
                    }
                    Some(O::Overwrite(w)) => {
                        w.schema_metadata.insert("m".into(), vec![1]);
                        if rng.bool() {
                            w.config_upsert_values = kvmap(rng);
                        }
                    }
                    Some(O::Append(a)) => {
                        if let Some(d) = a.fragments.first_mut().and_then(|f| f.deletion_file.as_mut()) {
                            d.file_type = 5;
                        }
                    }
                    _ => {}
                },
                _ => {}
            }
            let r = catch(|| Transaction::try_from(p.clone()));
            // the translation of old-style UpdateConfig maps iterates a HashMap: sort the upsert part
            let out = outcome(&r, |t| rd::txn_dom(&canon_legacy(t, &p)));
            sink.count(match &out { Ok(_) => "txn_of:ok", Err(false) => "txn_of:err", Err(true) => "txn_of:panic" });
            s_of.push(rd::txn_pb(&p), coq::outcome(&out), json!({"pb": short(&p), "out": short(&out)}));
        }
    }
    sink.add(s_to);
    sink.add(s_of);
    sink.add(s_cl);
}

/// For a transaction decoded from an old-style UpdateConfig message, entries that came out of a
/// HashMap iteration are put in key order (the model iterates its sorted association lists).
fn canon_legacy(t: &Transaction, p: &pb::Transaction) -> Transaction {
    use lance::dataset::transaction::Operation;
    let mut t = t.clone();
    if let (Operation::UpdateConfig { config_updates, schema_metadata_updates, field_metadata_updates, .. }, Some(pb::transaction::Operation::UpdateConfig(c))) = (&mut t.operation, &p.operation) {
        let legacy = !c.upsert_values.is_empty() || !c.delete_keys.is_empty() || !c.schema_metadata.is_empty() || !c.field_metadata.is_empty();
        if legacy {
            if let Some(u) = config_updates.as_mut() {
                let n = c.upsert_values.len().min(u.update_entries.len());
                u.update_entries[..n].sort_by(|a, b| a.key.cmp(&b.key));
            }
            if let Some(u) = schema_metadata_updates.as_mut() {
                u.update_entries.sort_by(|a, b| a.key.cmp(&b.key));
            }
            for u in field_metadata_updates.values_mut() {
                u.update_entries.sort_by(|a, b| a.key.cmp(&b.key));
            }
        }
    }
    t
}

fn arm_refs(args: &Args, sink: &mut Sink, rng: &mut Rng) {
    let mut t_to = Stream::new("tag_to", REQ, "chk_tag_to", "tag_contents", "jobj * bool");
    let mut t_of = Stream::new("tag_of", REQ, "chk_tag_of", "jobj", "outcome tag_contents");
    let mut b_to = Stream::new("branch_to", REQ, "chk_branch_to", "branch_contents", "jobj * bool");
    let mut b_of = Stream::new("branch_of", REQ, "chk_branch_of", "jobj", "outcome branch_contents");
    for _ in 0..args.vol(120, 1500) {
        let x = TagContents { branch: ostring(rng), version: u64i(rng), manifest_size: u64i(rng) as usize };
        let text = serde_json::to_string_pretty(&x).unwrap();
        let v: serde_json::Value = serde_json::from_str(&text).unwrap();
        let back: Result<TagContents, _> = serde_json::from_str(&text);
        let rt = matches!(&back, Ok(y) if rd::tag_dom(y) == rd::tag_dom(&x));
        if rt { sink.oracle_ok() } else { sink.oracle_fail(None, "TagContents from_str(to_string_pretty(x)) != x", json!({"value": short(&x), "json": text})) }
        sink.nontrivial(&rd::tag_dom(&x));
        sink.count("tag");
        t_to.push(rd::tag_dom(&x), format!("({}, {})", rd::jobj(&v), coq::b(rt)), json!({"value": short(&x), "json": v}));
        // decode hand-made objects: missing / null / wrongly typed members
        let mut o = v.as_object().unwrap().clone();
        match rng.below(6) {
            0 => { o.remove("branch"); }
            1 => { o.remove("version"); }
            2 => { o.insert("manifestSize".into(), json!("12")); }
            3 => { o.insert("branch".into(), json!(5)); }
            4 => { o.remove("manifestSize"); }
            _ => {}
        }
        let ov = serde_json::Value::Object(o);
        let r: Result<TagContents, _> = serde_json::from_str(&ov.to_string());
        let out: Result<String, bool> = r.as_ref().map(rd::tag_dom).map_err(|_| false);
        t_of.push(rd::jobj(&ov), coq::outcome(&out), json!({"json": ov, "out": format!("{:?}", out)}));

        let x = BranchContents { parent_branch: ostring(rng), parent_version: u64i(rng), create_at: u64i(rng), manifest_size: u64i(rng) as usize };
        let text = serde_json::to_string_pretty(&x).unwrap();
        let v: serde_json::Value = serde_json::from_str(&text).unwrap();
        let back: Result<BranchContents, _> = serde_json::from_str(&text);
        let rt = matches!(&back, Ok(y) if rd::branch_dom(y) == rd::branch_dom(&x));
        if rt { sink.oracle_ok() } else { sink.oracle_fail(None, "BranchContents from_str(to_string_pretty(x)) != x", json!({"value": short(&x), "json": text})) }
        sink.nontrivial(&rd::branch_dom(&x));
        sink.count("branch");
        b_to.push(rd::branch_dom(&x), format!("({}, {})", rd::jobj(&v), coq::b(rt)), json!({"value": short(&x), "json": v}));
        let mut o = v.as_object().unwrap().clone();
        match rng.below(6) {
            0 => { o.remove("parentBranch"); }
            1 => { o.remove("parentVersion"); }
            2 => { o.remove("createAt"); }
            3 => { o.insert("parentBranch".into(), serde_json::Value::Null); }
            4 => { o.insert("createAt".into(), json!(-3)); }
            _ => {}
        }
        let ov = serde_json::Value::Object(o);
        let r: Result<BranchContents, _> = serde_json::from_str(&ov.to_string());
        let out: Result<String, bool> = r.as_ref().map(rd::branch_dom).map_err(|_| false);
        b_of.push(rd::jobj(&ov), coq::outcome(&out), json!({"json": ov, "out": format!("{:?}", out)}));
    }
    sink.add(t_to);
    sink.add(t_of);
    sink.add(b_to);
    sink.add(b_of);
}

fn probe() -> i32 {
    use chrono::{DateTime, Utc};
    println!("chrono MIN_UTC ms = {}", DateTime::<Utc>::MIN_UTC.timestamp_millis());
    println!("chrono MAX_UTC ms = {}", DateTime::<Utc>::MAX_UTC.timestamp_millis());
    for ms in [-8_334_601_228_800_001i64, -8_334_601_228_800_000, 8_210_266_876_799_999, 8_210_266_876_800_000] {
        println!("from_timestamp_millis({ms}) = {:?}", DateTime::<Utc>::from_timestamp_millis(ms).map(|d| d.timestamp_millis()));
    }
    let mut e = roaring::RoaringBitmap::new();
    let mut v = vec![];
    e.serialize_into(&mut v).unwrap();
    println!("empty roaring bitmap serialises to {} bytes", v.len());
    e.insert(1);
    0
}

fn run(args: &Args) -> i32 {
    let mut sink = Sink::new("C32", &args.out);
    let mut rng = Rng::new(args.seed);
    arm_rowids(args, &mut sink, &mut rng);
    arm_fragments(args, &mut sink, &mut rng);
    arm_index(args, &mut sink, &mut rng);
    arm_memwal(args, &mut sink, &mut rng);
    arm_manifest(args, &mut sink, &mut rng);
    arm_txn(args, &mut sink, &mut rng);
    arm_refs(args, &mut sink, &mut rng);
    e2e::run(args, &mut sink, &mut rng);
    sink.notes.push("per type: domain-first generated values (None / Some(default) / empty / boundary ids / detached versions / ns timestamps) -> real to_pb -> prost bytes -> real of_pb, compared by canonical rendering; pb-first mutated messages for the decode side; e2e: deletion vector files in both formats, manifest files with index section + inline transaction through write_manifest/read_manifest, tags and transactions through lance::Dataset".into());
    sink.finish();
    0
}

fn main() {
    let (sub, args) = Args::parse();
    let code = match sub.as_str() {
        "c32" => run(&args),
        "probe" => probe(),
        _ => {
            eprintln!("unknown subcommand {sub}");
            2
        }
    };
    std::process::exit(code);
}
