//! Arms that go through the real files: deletion vector files (both formats), manifest files with
//! an index section and an inline transaction, and tags / transactions / deletion files of a real
//! lance::Dataset.
use crate::gen::*;
use crate::render as rd;
use crate::{short, REQ};
use arrow_array::{Int32Array, RecordBatch, RecordBatchIterator, UInt32Array};
use hxlib::util::{coq, Args, Rng, Sink, Stream};
use lance::dataset::transaction::{Operation, Transaction};
use lance::dataset::{CommitBuilder, WriteParams};
use lance::Dataset;
use lance_core::utils::deletion::DeletionVector;
use lance_io::object_store::ObjectStore;
use lance_io::utils::read_message;
use lance_table::format::{pb, IndexMetadata, Manifest};
use lance_table::io::commit::{write_manifest_file_to_path, ManifestLocation, ManifestNamingScheme};
use lance_table::io::deletion::{deletion_file_path, read_deletion_file, write_deletion_file};
use lance_table::io::manifest::{read_manifest, read_manifest_indexes};
use object_store::path::Path;
use roaring::RoaringBitmap;
use serde_json::json;
use std::collections::HashSet;
use std::sync::Arc;

fn gen_dv(r: &mut Rng, big: bool) -> DeletionVector {
    let elems = |r: &mut Rng| -> Vec<u32> {
        let n = match r.below(6) { 0 => 0, 1 => 1, 2 if big => 5000 + r.below(3000), _ => r.below(60) };
        let span = *r.pick(&[50u64, 70000, u32::MAX as u64 + 1]);
        let mut v: Vec<u32> = (0..n).map(|_| r.below(span.max(n * 2)) as u32).collect();
        if r.chance(1, 4) {
            v.push(u32::MAX);
            v.push(0);
        }
        v
    };
    match r.below(7) {
        0 => DeletionVector::NoDeletions,
        1 | 2 | 3 => DeletionVector::Set(elems(r).into_iter().collect::<HashSet<u32>>()),
        _ => DeletionVector::Bitmap(elems(r).into_iter().collect::<RoaringBitmap>()),
    }
}
fn sorted(dv: &DeletionVector) -> Vec<u32> {
    let mut v: Vec<u32> = dv.iter().collect();
    v.sort();
    v
}
fn nl(v: &[u32]) -> String {
    coq::list(v.iter().map(|x| coq::n(*x as u64)))
}

async fn arm_dv(args: &Args, sink: &mut Sink, rng: &mut Rng) {
    let mut s = Stream::new("dv", REQ, "chk_dv", "dvec", "option (N * option N * list N * N * list N)");
    s.shard = 150;
    let store = ObjectStore::memory();
    let base = Path::from("dvbase");
    for i in 0..args.vol(100, 800) {
        let dv = gen_dv(rng, i % 40 == 7);
        let elems = sorted(&dv);
        let input = match &dv {
            DeletionVector::NoDeletions => "DvNone".to_string(),
            DeletionVector::Set(_) => format!("(DvSet {})", nl(&elems)),
            DeletionVector::Bitmap(_) => format!("(DvBitmap {})", nl(&elems)),
        };
        let frag_id = u64i(rng);
        let rv = u64i(rng);
        let case = json!({"variant": format!("{:?}", std::mem::discriminant(&dv)), "n": elems.len(), "first": elems.iter().take(8).collect::<Vec<_>>(), "fragment": frag_id, "read_version": rv});
        let written = match write_deletion_file(&base, frag_id, rv, &dv, &store).await {
            Ok(w) => w,
            Err(e) => {
                sink.oracle_fail(None, &format!("write_deletion_file failed: {e}"), case);
                continue;
            }
        };
        sink.nontrivial(&input);
        sink.count(match &dv { DeletionVector::NoDeletions => "dv:none", DeletionVector::Set(_) => "dv:set", DeletionVector::Bitmap(_) => "dv:bitmap" });
        let Some(df) = written else {
            if matches!(dv, DeletionVector::NoDeletions) { sink.oracle_ok() } else { sink.oracle_fail(None, "no deletion file written for a deletion vector with a representation", case.clone()) }
            s.push(input, "None".into(), case);
            continue;
        };
        // independent decoding of the file that was written
        let path = deletion_file_path(&base, frag_id, &df);
        let data = store.read_one_all(&path).await.unwrap();
        let (ty, file_elems): (u64, Vec<u32>) = match df.file_type {
            lance_table::format::DeletionFileType::Array => {
                let rdr = arrow_ipc::reader::FileReader::try_new(std::io::Cursor::new(data.to_vec()), None).unwrap();
                let mut v = vec![];
                for b in rdr {
                    let b = b.unwrap();
                    v.extend(b.column(0).as_any().downcast_ref::<UInt32Array>().unwrap().iter().map(|x| x.unwrap()));
                }
                v.sort();
                (0, v)
            }
            lance_table::format::DeletionFileType::Bitmap => (1, RoaringBitmap::deserialize_from(data.as_ref()).unwrap().iter().collect()),
        };
        let back = read_deletion_file(frag_id, &df, &base, &store).await;
        let ok = match &back {
            Ok(b) => sorted(b) == elems && df.num_deleted_rows == Some(elems.len()) && df.read_version == rv && file_elems == elems && df.base_id.is_none(),
            Err(_) => false,
        };
        if ok { sink.oracle_ok() } else { sink.oracle_fail(None, "read_deletion_file(write_deletion_file(dv)) is not the same set / descriptor wrong", json!({"case": case, "descriptor": short(&df), "read": short(&back.as_ref().map(sorted).map_err(|e| e.to_string()))})) }
        let (rcode, relems) = match &back {
            Ok(b) => (match b { DeletionVector::NoDeletions => 0, DeletionVector::Set(_) => 1, DeletionVector::Bitmap(_) => 2 }, sorted(b)),
            Err(_) => (9, vec![]),
        };
        s.push(input, format!("(Some ({}, {}, {}, {}, {}))", ty, rd::on(df.num_deleted_rows.map(|v| v as u64)), nl(&file_elems), rcode, nl(&relems)), case);
    }
    sink.add(s);
}

async fn arm_manifest_files(args: &Args, sink: &mut Sink, rng: &mut Rng) {
    let store = ObjectStore::memory();
    for i in 0..args.vol(30, 200) {
        let mut m = manifest(rng, false);
        if i == 3 {
            // > 64 KiB: the reader needs its second range request
            let frags: Vec<_> = (0..1500).map(|_| fragment(rng, false, true)).collect();
            let mut big = Manifest::new(m.schema.clone(), Arc::new(frags), m.data_storage_format.clone(), m.base_paths.clone());
            big.version = m.version;
            big.timestamp_nanos = m.timestamp_nanos;
            big.reader_feature_flags = m.reader_feature_flags & !2;
            m = big;
        }
        m.index_section = None;
        m.transaction_section = None;
        let indices: Option<Vec<IndexMetadata>> = if rng.chance(2, 3) { Some((0..rng.below(4)).map(|_| index_meta(rng, false)).collect()) } else { None };
        let kind = rng.below(15);
        let txn: Option<Transaction> = if rng.bool() { Some(transaction(rng, kind, false)) } else { None };
        let path = Path::from(format!("mf/{i}.manifest"));
        let mut written = m.clone();
        let case = json!({"manifest": short(&m), "indices": short(&indices), "transaction": short(&txn)});
        let w = write_manifest_file_to_path(&store, &mut written, indices.clone(), &path, txn.as_ref().map(|t| t.into())).await;
        if let Err(e) = w {
            sink.oracle_fail(None, &format!("write_manifest failed: {e}"), case);
            continue;
        }
        sink.count("e2e:manifest-file");
        let back = read_manifest(&store, &path, None).await;
        let ok_m = matches!(&back, Ok(b) if rd::mf_dom(b) == rd::mf_dom(&written) && *b == written);
        if ok_m { sink.oracle_ok() } else { sink.oracle_fail(None, "read_manifest(write_manifest(m)) != m", json!({"case": case, "read": short(&back.as_ref().map_err(|e| e.to_string()))})) }
        let Ok(back) = back else { continue };
        if written.index_section.is_some() != indices.is_some() || written.transaction_section.is_some() != txn.is_some() {
            sink.oracle_fail(None, "index/transaction section offsets not recorded", case.clone());
        }
        let loc = ManifestLocation { version: back.version, path: path.clone(), size: None, naming_scheme: ManifestNamingScheme::V2, e_tag: None };
        let idx_back = read_manifest_indexes(&store, &loc, &back).await;
        let want: Vec<String> = indices.clone().unwrap_or_default().iter().map(rd::idx_dom).collect();
        let ok_i = matches!(&idx_back, Ok(v) if v.iter().map(rd::idx_dom).collect::<Vec<_>>() == want);
        if ok_i { sink.oracle_ok() } else { sink.oracle_fail(None, "read_manifest_indexes after write_manifest returns different index metadata", json!({"case": case, "read": short(&idx_back.as_ref().map_err(|e| e.to_string()))})) }
        if let (Some(t), Some(pos)) = (&txn, back.transaction_section) {
            let rdr = store.open(&path).await.unwrap();
            let tb = read_message::<pb::Transaction>(rdr.as_ref(), pos).await.map_err(|e| e.to_string()).and_then(|p| Transaction::try_from(p).map_err(|e| e.to_string()));
            let ok_t = matches!(&tb, Ok(b) if rd::txn_dom(b) == rd::txn_dom(t));
            if ok_t { sink.oracle_ok() } else { sink.oracle_fail(None, "inline transaction read back from the manifest file differs", json!({"case": case, "read": short(&tb)})) }
        }
    }
}

fn batch(lo: i32, n: i32) -> RecordBatch {
    let schema = Arc::new(arrow_schema::Schema::new(vec![arrow_schema::Field::new("i", arrow_schema::DataType::Int32, false)]));
    RecordBatch::try_new(schema, vec![Arc::new(Int32Array::from_iter_values(lo..lo + n))]).unwrap()
}

async fn arm_dataset(args: &Args, sink: &mut Sink, rng: &mut Rng) {
    for round in 0..args.vol(2, 10) {
        let dir = tempfile::tempdir().unwrap();
        let uri = dir.path().join("t").to_str().unwrap().to_string();
        let n = 6000 + rng.below(3000) as i32;
        let b = batch(0, n);
        let stable = round % 2 == 1;
        let params = WriteParams { enable_stable_row_ids: stable, ..Default::default() };
        let mut ds = Dataset::write(RecordBatchIterator::new(vec![Ok(b.clone())], b.schema()), &uri, Some(params)).await.unwrap();
        // small delete -> Array file; large delete -> Bitmap file
        let cut = if round % 2 == 0 { 3 + rng.below(40) as i32 } else { 5500 };
        let pred = format!("i < {cut}");
        ds.delete(&pred).await.unwrap();
        let frag = ds.manifest().fragments[0].clone();
        let case = json!({"rows": n, "predicate": pred, "fragment": short(&frag)});
        sink.count("e2e:dataset-delete");
        match &frag.deletion_file {
            Some(df) => {
                let dv = read_deletion_file(frag.id, df, &ds.branch_location().path, ds.object_store()).await;
                let want: Vec<u32> = (0..cut as u32).collect();
                let ok = matches!(&dv, Ok(d) if sorted(d) == want) && df.num_deleted_rows == Some(cut as usize);
                if ok { sink.oracle_ok() } else { sink.oracle_fail(None, "deletion file of a real dataset does not hold the deleted offsets", case.clone()) }
            }
            None => sink.oracle_fail(None, "delete wrote no deletion file", case.clone()),
        }
        // the manifest on disk decodes to the in-memory one
        let reopened = Dataset::open(&uri).await.unwrap();
        if rd::mf_dom(reopened.manifest()) == rd::mf_dom(ds.manifest()) { sink.oracle_ok() } else { sink.oracle_fail(None, "manifest read from disk differs from the committed one", case.clone()) }
        // the committed transaction is readable and is the Delete that was made
        match reopened.read_transaction().await {
            Ok(Some(t)) if matches!(&t.operation, Operation::Delete { predicate, updated_fragments, .. } if *predicate == pred && updated_fragments.len() == 1 && rd::frag_dom(&updated_fragments[0]) == rd::frag_dom(&frag)) => sink.oracle_ok(),
            other => sink.oracle_fail(None, "read_transaction of a delete commit does not give back the Delete operation", json!({"case": case, "read": short(&other.map_err(|e| e.to_string()))})),
        }
        // generated transactions committed through the public API and read back from the new version
        for _ in 0..args.vol(3, 8) {
            let op = match rng.below(3) {
                0 => operation(rng, 11, false),
                1 => Operation::ReserveFragments { num_fragments: 1 + rng.below(5) as u32 },
                _ => Operation::UpdateConfig { config_updates: Some(update_map(rng)), table_metadata_updates: Some(update_map(rng)), schema_metadata_updates: None, field_metadata_updates: Default::default() },
            };
            let t = Transaction { read_version: ds.manifest().version, uuid: uuid(rng).hyphenated().to_string(), operation: op, tag: None, transaction_properties: if rng.bool() { Some(Arc::new(nekvmap(rng))) } else { None } };
            let case = json!({"transaction": short(&t)});
            match CommitBuilder::new(Arc::new(ds.clone())).execute(t.clone()).await {
                Ok(nds) => {
                    sink.count("e2e:dataset-commit");
                    match nds.read_transaction().await {
                        Ok(Some(b)) if rd::txn_dom(&b) == rd::txn_dom(&t) => sink.oracle_ok(),
                        other => sink.oracle_fail(None, "transaction read back after commit differs from the committed one", json!({"case": case, "read": short(&other.map_err(|e| e.to_string()))})),
                    }
                    ds = nds;
                }
                Err(e) => {
                    // invalid updates (e.g. field ids that do not exist) are rejected by commit; not a serde matter
                    sink.count("e2e:dataset-commit-rejected");
                    let _ = e;
                }
            }
        }
        // tags
        let v = ds.manifest().version;
        let name = format!("t{round}");
        ds.tags().create(&name, v).await.unwrap();
        match ds.tags().get(&name).await {
            Ok(tc) if tc.version == v && tc.branch.is_none() && tc.manifest_size > 0 => sink.oracle_ok(),
            other => sink.oracle_fail(None, "tag file read back differs", json!({"tag": name, "version": v, "read": short(&other.map_err(|e| e.to_string()))})),
        }
        sink.count("e2e:tag");
    }
}

pub fn run(args: &Args, sink: &mut Sink, rng: &mut Rng) {
    let rt = tokio::runtime::Builder::new_multi_thread().worker_threads(4).enable_all().build().unwrap();
    rt.block_on(async {
        arm_dv(args, sink, rng).await;
        arm_manifest_files(args, sink, rng).await;
        arm_dataset(args, sink, rng).await;
    });
}
