//! Generators of metadata values (all randomness from hxlib::util::Rng) and the Rust-side
//! classification into the known lossy classes (mirrors wf_* / Known_C32_* of Model_Serde.v; the
//! two are tied by the txn_class stream and by the `rt` flag of every *_to stream).
use chrono::{DateTime, Utc};
use hxlib::util::Rng;
use lance::dataset::transaction::{DataReplacementGroup, Operation, RewriteGroup, RewrittenIndex, Transaction, UpdateMap, UpdateMapEntry, UpdateMode};
use lance_core::datatypes::Schema;
use lance_index::mem_wal::{MemWal, MemWalId, State};
use lance_table::format::{BasePath, DataFile, DataStorageFormat, DeletionFile, DeletionFileType, ExternalFile, Fragment, IndexMetadata, Manifest, RowDatasetVersionMeta, RowIdMeta, WriterVersion};
use roaring::RoaringBitmap;
use std::collections::HashMap;
use std::num::NonZero;
use std::sync::Arc;

pub const CL_DEFAULT: u64 = 1;
pub const CL_FRI: u64 = 4;
pub const CL_SCHEMA_MD: u64 = 8;
pub const CL_SUBMILLI: u64 = 16;
pub fn class_name(c: u64) -> &'static str {
    if c & CL_FRI != 0 {
        "rewrite_frag_reuse_index_dropped"
    } else if c & CL_SCHEMA_MD != 0 {
        "txn_schema_metadata_dropped"
    } else if c & CL_SUBMILLI != 0 {
        "index_created_at_submilli"
    } else {
        "default_conflated"
    }
}

const STRS: [&str; 14] = ["", "a", "x/y.lance", "\u{e9}", "tag-1", "main", "k", "v", "data/0.lance", "s3://b/p", "0.1", "idx", "r\u{3b1}", "id = 1"];
pub fn string(r: &mut Rng) -> String {
    r.pick(&STRS).to_string()
}
pub fn nestring(r: &mut Rng) -> String {
    loop {
        let s = string(r);
        if !s.is_empty() {
            return s;
        }
    }
}
pub fn ostring(r: &mut Rng) -> Option<String> {
    if r.chance(1, 3) { None } else { Some(string(r)) }
}
pub fn u64i(r: &mut Rng) -> u64 {
    match r.below(12) {
        0 => 0,
        1 => 1,
        2 => u32::MAX as u64,
        3 => u32::MAX as u64 + 1,
        4 => 1u64 << 63,
        5 => (1u64 << 63) | r.below(1000), // detached version
        6 => u64::MAX,
        7 => u64::MAX - 1,
        8 => r.next(),
        _ => r.below(1000),
    }
}
pub fn u32i(r: &mut Rng) -> u32 {
    match r.below(8) {
        0 => 0,
        1 => u32::MAX,
        2 => 1u32 << 31,
        3 => r.next() as u32,
        _ => r.below(100) as u32,
    }
}
pub fn i32i(r: &mut Rng) -> i32 {
    match r.below(8) {
        0 => -1,
        1 => i32::MAX,
        2 => i32::MIN,
        3 => 0,
        _ => r.below(50) as i32,
    }
}
pub fn bytes(r: &mut Rng) -> Vec<u8> {
    let n = match r.below(4) { 0 => 0, 1 => 1, _ => r.below(12) };
    (0..n).map(|_| r.next() as u8).collect()
}
pub fn kvmap(r: &mut Rng) -> HashMap<String, String> {
    let n = match r.below(3) { 0 => 0, 1 => 1, _ => r.below(4) };
    (0..n).map(|_| (string(r), string(r))).collect()
}
pub fn nekvmap(r: &mut Rng) -> HashMap<String, String> {
    let mut m = kvmap(r);
    if m.is_empty() {
        m.insert(nestring(r), string(r));
    }
    m
}
pub fn base_id(r: &mut Rng) -> Option<u32> {
    match r.below(4) { 0 => Some(0), 1 => Some(u32i(r)), _ => None }
}

pub fn data_file(r: &mut Rng) -> DataFile {
    let nf = r.below(4) as usize;
    let fields: Vec<i32> = (0..nf).map(|_| i32i(r)).collect();
    let cols: Vec<i32> = if r.bool() { (0..nf).map(|_| i32i(r)).collect() } else { vec![] };
    let (maj, min) = *r.pick(&[(0u32, 1u32), (0, 3), (2, 0), (2, 1), (2, 2), (u32::MAX, 7), (0, 0)]);
    let size = match r.below(4) { 0 => None, 1 => NonZero::new(1), 2 => NonZero::new(u64::MAX), _ => NonZero::new(r.below(1 << 40) + 1) };
    DataFile::new(string(r), fields, cols, maj, min, size, base_id(r))
}
pub fn ext_file(r: &mut Rng) -> ExternalFile {
    ExternalFile { path: string(r), offset: u64i(r), size: u64i(r) }
}
/// `known`: allow members of the default_conflated class; `consistent`: physical_rows >= num_deleted_rows
pub fn deletion_file(r: &mut Rng, known: bool, max_deleted: Option<usize>) -> DeletionFile {
    let nd = match r.below(6) {
        0 => None,
        1 if known => Some(0),
        _ => Some(match max_deleted { Some(m) => 1 + r.below(m as u64) as usize, None => 1 + r.below(1 << 33) as usize }),
    };
    DeletionFile { read_version: u64i(r), id: u64i(r), file_type: if r.bool() { DeletionFileType::Array } else { DeletionFileType::Bitmap }, num_deleted_rows: nd, base_id: base_id(r) }
}
pub fn fragment(r: &mut Rng, known: bool, consistent: bool) -> Fragment {
    let mut f = Fragment::new(u64i(r));
    for _ in 0..r.below(3) {
        f.files.push(data_file(r));
    }
    f.physical_rows = match r.below(6) {
        0 => None,
        1 if known => Some(0),
        2 => Some(usize::MAX >> 8),
        _ => Some(1 + r.below(100000) as usize),
    };
    if r.chance(1, 2) {
        let cap = if consistent { Some(f.physical_rows.unwrap_or(1).max(1)) } else { None };
        let mut d = deletion_file(r, known, cap.map(|c| c.min(1 << 40)));
        if consistent && f.physical_rows == Some(0) {
            d.num_deleted_rows = if known && r.bool() { Some(0) } else { None };
        }
        f.deletion_file = Some(d);
    }
    f.row_id_meta = match r.below(4) { 0 => None, 1 => Some(RowIdMeta::External(ext_file(r))), _ => Some(RowIdMeta::Inline(bytes(r))) };
    let vm = |r: &mut Rng| match r.below(5) { 0 => Some(RowDatasetVersionMeta::External(ext_file(r))), 1 => Some(RowDatasetVersionMeta::Inline(bytes(r))), _ => None };
    f.last_updated_at_version_meta = vm(r);
    f.created_at_version_meta = vm(r);
    f
}
pub fn fragments(r: &mut Rng, known: bool) -> Vec<Fragment> {
    let n = match r.below(4) { 0 => 0, 1 => 1, _ => r.below(3) };
    (0..n).map(|_| { let kk = known && r.chance(1, 4); fragment(r, kk, false) }).collect()
}
pub fn frag_in_default_class(f: &Fragment) -> bool {
    f.physical_rows == Some(0) || f.deletion_file.as_ref().is_some_and(|d| d.num_deleted_rows == Some(0))
}

pub fn uuid(r: &mut Rng) -> uuid::Uuid {
    let a = r.next().to_le_bytes();
    let b = r.next().to_le_bytes();
    let mut x = [0u8; 16];
    x[..8].copy_from_slice(&a);
    x[8..].copy_from_slice(&b);
    if r.chance(1, 10) {
        x = [0u8; 16];
    }
    uuid::Uuid::from_bytes(x)
}
pub fn any(r: &mut Rng) -> prost_types::Any {
    prost_types::Any { type_url: string(r), value: bytes(r) }
}
pub fn bitmap(r: &mut Rng) -> RoaringBitmap {
    let mut b = RoaringBitmap::new();
    match r.below(4) {
        0 => {}
        1 => {
            b.insert(u32::MAX);
            b.insert(0);
        }
        2 => {
            b.insert_range(5..5 + r.below(20) as u32);
        }
        _ => {
            for _ in 0..r.below(6) {
                b.insert(r.below(70000) as u32);
            }
        }
    }
    b
}
pub fn created_at(r: &mut Rng, known: bool) -> Option<DateTime<Utc>> {
    let secs: i64 = match r.below(6) {
        0 => 0,
        1 => -(r.below(4_000_000_000) as i64),
        2 => 8_210_266_876_799, // last second chrono can represent
        3 => -8_334_601_228_800,
        _ => 1_700_000_000 + r.below(100_000_000) as i64,
    };
    let millis = r.below(1000) as u32;
    let sub = if known { 1 + r.below(999_999) as u32 } else { 0 };
    match r.below(4) {
        0 => None,
        _ => DateTime::<Utc>::from_timestamp(secs, millis * 1_000_000 + sub),
    }
}
pub fn index_meta(r: &mut Rng, known: bool) -> IndexMetadata {
    IndexMetadata {
        uuid: uuid(r),
        fields: (0..r.below(3)).map(|_| i32i(r)).collect(),
        name: string(r),
        dataset_version: u64i(r),
        fragment_bitmap: if r.chance(1, 3) { None } else { Some(bitmap(r)) },
        index_details: if r.chance(1, 3) { None } else { Some(Arc::new(any(r))) },
        index_version: i32i(r),
        created_at: created_at(r, known),
        base_id: base_id(r),
    }
}
pub fn idx_submilli(i: &IndexMetadata) -> bool {
    i.created_at.is_some_and(|d| d.timestamp_subsec_nanos() % 1_000_000 != 0)
}
pub fn mem_wal(r: &mut Rng) -> MemWal {
    MemWal {
        id: MemWalId { region: string(r), generation: u64i(r) },
        mem_table_location: string(r),
        wal_location: string(r),
        wal_entries: bytes(r),
        state: r.pick(&[State::Open, State::Sealed, State::Flushed, State::Merged]).clone(),
        owner_id: string(r),
        last_updated_dataset_version: u64i(r),
    }
}
pub fn base_path(r: &mut Rng) -> BasePath {
    BasePath::new(u32i(r), string(r), ostring(r), r.bool())
}

pub fn schema(r: &mut Rng, with_md: bool) -> Schema {
    use arrow_schema::{DataType, Field, Fields, Schema as A};
    let fields = match r.below(4) {
        0 => vec![],
        1 => vec![Field::new("i", DataType::Int32, true)],
        2 => vec![Field::new("s", DataType::Utf8, false), Field::new("v", DataType::FixedSizeList(Arc::new(Field::new("item", DataType::Float32, true)), 2), true)],
        _ => vec![Field::new("st", DataType::Struct(Fields::from(vec![Field::new("a", DataType::Int64, true)])), true)],
    };
    let mut a = A::new(fields);
    if with_md {
        a = a.with_metadata(nekvmap(r));
    }
    Schema::try_from(&a).unwrap()
}

pub fn update_map(r: &mut Rng) -> UpdateMap {
    UpdateMap { update_entries: (0..r.below(3)).map(|_| UpdateMapEntry { key: string(r), value: ostring(r) }).collect(), replace: r.bool() }
}
pub fn rewritten_index(r: &mut Rng) -> RewrittenIndex {
    RewrittenIndex { old_id: uuid(r), new_id: uuid(r), new_index_details: any(r), new_index_version: u32i(r) }
}

/// `known`: 0 = only well-formed values, otherwise allow the known lossy classes
pub fn operation(r: &mut Rng, kind: u64, known: bool) -> Operation {
    let k = |r: &mut Rng| known && r.chance(1, 3);
    match kind {
        0 => {
            let kk = k(r);
            Operation::Append { fragments: fragments(r, kk) }
        }
        1 => {
            let kk = k(r);
            Operation::Delete { updated_fragments: fragments(r, kk), deleted_fragment_ids: (0..r.below(3)).map(|_| u64i(r)).collect(), predicate: string(r) }
        }
        2 => {
            let md = k(r);
            let kk = k(r);
            Operation::Overwrite {
                fragments: fragments(r, kk),
                schema: schema(r, md),
                // Some({}) is written like None (default_conflated); None and Some(non-empty) round trip (cb06601)
                config_upsert_values: match r.below(3) { 0 => None, 1 if known => Some(HashMap::new()), _ => Some(nekvmap(r)) },
                initial_bases: match r.below(3) { 0 => None, 1 if known => Some(vec![]), _ => Some((0..1 + r.below(2)).map(|_| base_path(r)).collect()) },
            }
        }
        3 => {
            let sm = k(r);
            Operation::CreateIndex { new_indices: (0..r.below(3)).map(|_| { let kk = sm && r.bool(); index_meta(r, kk) }).collect(), removed_indices: (0..r.below(2)).map(|_| index_meta(r, false)).collect() }
        }
        4 => {
            let ng = if k(r) { 0 } else { 1 + r.below(2) };
            let kk = k(r);
            let kf = k(r);
            Operation::Rewrite {
                groups: (0..ng).map(|_| RewriteGroup { old_fragments: fragments(r, kk), new_fragments: fragments(r, false) }).collect(),
                rewritten_indices: (0..r.below(3)).map(|_| rewritten_index(r)).collect(),
                frag_reuse_index: if kf { Some(index_meta(r, false)) } else { None },
            }
        }
        5 => Operation::DataReplacement { replacements: (0..r.below(3)).map(|_| DataReplacementGroup(u64i(r), data_file(r))).collect() },
        6 => {
            let md = k(r);
            let kk = k(r);
            Operation::Merge { fragments: fragments(r, kk), schema: schema(r, md) }
        }
        7 => Operation::Restore { version: u64i(r) },
        8 => Operation::ReserveFragments { num_fragments: u32i(r) },
        9 => {
            let kk = k(r);
            let km = k(r);
            Operation::Update {
            removed_fragment_ids: (0..r.below(3)).map(|_| u64i(r)).collect(),
            updated_fragments: fragments(r, kk),
            new_fragments: fragments(r, false),
            fields_modified: (0..r.below(3)).map(|_| u32i(r)).collect(),
            mem_wal_to_merge: if r.bool() { Some(mem_wal(r)) } else { None },
            fields_for_preserving_frag_bitmap: (0..r.below(3)).map(|_| u32i(r)).collect(),
            update_mode: if km { None } else if r.bool() { Some(UpdateMode::RewriteRows) } else { Some(UpdateMode::RewriteColumns) },
        }}
        10 => {
            let md = k(r);
            Operation::Project { schema: schema(r, md) }
        }
        11 => {
            let om = |r: &mut Rng| if r.bool() { Some(update_map(r)) } else { None };
            Operation::UpdateConfig { config_updates: om(r), table_metadata_updates: om(r), schema_metadata_updates: om(r), field_metadata_updates: (0..r.below(3)).map(|_| (i32i(r), update_map(r))).collect() }
        }
        12 => Operation::UpdateMemWalState { added: (0..r.below(3)).map(|_| mem_wal(r)).collect(), updated: (0..r.below(2)).map(|_| mem_wal(r)).collect(), removed: (0..r.below(2)).map(|_| mem_wal(r)).collect() },
        13 => Operation::Clone { is_shallow: r.bool(), ref_name: ostring(r), ref_version: u64i(r), ref_path: string(r), branch_name: ostring(r) },
        _ => Operation::UpdateBases { new_bases: (0..r.below(3)).map(|_| base_path(r)).collect() },
    }
}
pub fn transaction(r: &mut Rng, kind: u64, known: bool) -> Transaction {
    let op = operation(r, kind, known);
    Transaction {
        read_version: u64i(r),
        uuid: if r.chance(1, 8) { string(r) } else { uuid(r).hyphenated().to_string() },
        operation: op,
        tag: match r.below(4) { 0 => None, 1 if known => Some(String::new()), _ => Some(nestring(r)) },
        transaction_properties: match r.below(4) { 0 | 1 => None, 2 if known => Some(Arc::new(HashMap::new())), _ => Some(Arc::new(nekvmap(r))) },
    }
}
pub fn txn_classes(t: &Transaction) -> u64 {
    let mut c = 0;
    let anyf = |v: &[Fragment]| v.iter().any(frag_in_default_class);
    let mut dflt = t.tag.as_deref() == Some("") || t.transaction_properties.as_ref().is_some_and(|p| p.is_empty());
    match &t.operation {
        Operation::Append { fragments } => dflt |= anyf(fragments),
        Operation::Delete { updated_fragments, .. } => dflt |= anyf(updated_fragments),
        Operation::Overwrite { fragments, schema, config_upsert_values, initial_bases } => {
            dflt |= anyf(fragments) || config_upsert_values.as_ref().is_some_and(|m| m.is_empty()) || initial_bases.as_ref().is_some_and(|b| b.is_empty());
            if !schema.metadata.is_empty() {
                c |= CL_SCHEMA_MD;
            }
        }
        Operation::CreateIndex { new_indices, removed_indices } => {
            if new_indices.iter().chain(removed_indices.iter()).any(idx_submilli) {
                c |= CL_SUBMILLI;
            }
        }
        Operation::Rewrite { groups, frag_reuse_index, .. } => {
            dflt |= groups.is_empty() || groups.iter().any(|g| anyf(&g.old_fragments) || anyf(&g.new_fragments));
            if frag_reuse_index.is_some() {
                c |= CL_FRI;
            }
        }
        Operation::Merge { fragments, schema } => {
            dflt |= anyf(fragments);
            if !schema.metadata.is_empty() {
                c |= CL_SCHEMA_MD;
            }
        }
        Operation::Project { schema } => {
            if !schema.metadata.is_empty() {
                c |= CL_SCHEMA_MD;
            }
        }
        Operation::Update { updated_fragments, new_fragments, update_mode, .. } => dflt |= anyf(updated_fragments) || anyf(new_fragments) || update_mode.is_none(),
        _ => {}
    }
    if dflt {
        c |= CL_DEFAULT;
    }
    c
}

pub fn manifest(r: &mut Rng, known: bool) -> Manifest {
    let n = r.below(4);
    let frags: Vec<Fragment> = (0..n).map(|_| { let kk = known && r.chance(1, 4); fragment(r, kk, true) }).collect();
    let all_rid = frags.iter().all(|f| f.row_id_meta.is_some());
    let mut bps = HashMap::new();
    for _ in 0..r.below(3) {
        let b = base_path(r);
        bps.insert(b.id, b);
    }
    let dsf = match r.below(3) {
        0 => DataStorageFormat::default(),
        1 => DataStorageFormat::new(lance_encoding::version::LanceFileVersion::Legacy),
        _ => DataStorageFormat { file_format: string(r), version: string(r) },
    };
    let smd = r.bool();
    let mut m = Manifest::new(schema(r, smd), Arc::new(frags), dsf, bps);
    m.version = u64i(r);
    m.branch = ostring(r);
    m.writer_version = match r.below(3) { 0 => None, 1 => Some(WriterVersion::default()), _ => Some(WriterVersion { library: string(r), version: string(r), prerelease: ostring(r), build_metadata: ostring(r) }) };
    m.version_aux_data = u64i(r) as usize;
    m.index_section = if r.bool() { Some(u64i(r) as usize) } else { None };
    m.timestamp_nanos = match r.below(5) {
        0 => 0,
        1 => 1,
        2 => 1_700_000_000_123_456_789u128 + r.below(1_000_000_000) as u128,
        3 => (1u128 << 63) * 1_000_000_000 - 1, // largest timestamp whose seconds fit an i64
        _ => r.below(1 << 62) as u128 * 1000 + r.below(1000) as u128,
    };
    m.tag = match r.below(4) { 0 | 1 => None, 2 if known => Some(String::new()), _ => Some(nestring(r)) };
    let mut rf = r.below(64) & !2;
    if all_rid && r.bool() {
        rf |= 2;
    }
    m.reader_feature_flags = if r.chance(1, 8) { rf | (1 << 40) } else { rf };
    m.writer_feature_flags = u64i(r);
    m.max_fragment_id = if r.bool() { Some(u32i(r)) } else { None };
    m.transaction_file = match r.below(4) { 0 | 1 => None, 2 if known => Some(String::new()), _ => Some(nestring(r)) };
    m.transaction_section = if r.bool() { Some(u64i(r) as usize) } else { None };
    m.next_row_id = u64i(r);
    m.config = kvmap(r);
    m.table_metadata = kvmap(r);
    m
}
pub fn manifest_in_default_class(m: &Manifest) -> bool {
    m.fragments.iter().any(frag_in_default_class) || m.tag.as_deref() == Some("") || m.transaction_file.as_deref() == Some("")
}
