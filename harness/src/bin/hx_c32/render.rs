//! Canonical renderers: domain values and prost messages -> Coq terms of Meta/Model_Serde.v.
//! Everything is read through public fields / accessors or (for the two private rowid types) the
//! derived `Debug` text; never through the conversions under test.
use hxlib::util::coq;
use lance::dataset::refs::{BranchContents, TagContents};
use lance::dataset::transaction::{DataReplacementGroup, Operation, RewriteGroup, RewrittenIndex, Transaction, UpdateMap, UpdateMode};
use lance_core::datatypes::Schema;
use lance_file::datatypes::Fields;
use lance_index::mem_wal::{MemWal, State};
use lance_table::format::pb;
use lance_table::format::{BasePath, DataFile, DeletionFile, DeletionFileType, ExternalFile, Fragment, IndexMetadata, Manifest, RowDatasetVersionMeta, RowIdMeta};
use lance_table::rowids::segment::U64Segment;
use lance_table::rowids::version::RowDatasetVersionSequence;
use prost::Message;
use roaring::RoaringBitmap;
use std::collections::HashMap;

pub fn s(x: &str) -> String {
    coq::str_bytes(x)
}
pub fn by(x: &[u8]) -> String {
    coq::bytes(x)
}
pub fn on(x: Option<u64>) -> String {
    coq::opt(x.map(coq::n))
}
pub fn os(x: &Option<String>) -> String {
    coq::opt(x.as_ref().map(|v| s(v)))
}
pub fn zl(x: &[i32]) -> String {
    coq::list(x.iter().map(|v| coq::z(*v as i128)))
}
pub fn nl32(x: &[u32]) -> String {
    coq::list(x.iter().map(|v| coq::n(*v as u64)))
}
pub fn kv(m: &HashMap<String, String>) -> String {
    let mut v: Vec<(&String, &String)> = m.iter().collect();
    v.sort();
    coq::list(v.into_iter().map(|(k, x)| format!("({}, {})", s(k), s(x))))
}
pub fn kvb(m: &HashMap<String, Vec<u8>>) -> String {
    let mut v: Vec<(&String, &Vec<u8>)> = m.iter().collect();
    v.sort();
    coq::list(v.into_iter().map(|(k, x)| format!("({}, {})", s(k), by(x))))
}
fn ctor(name: &str, args: &[String]) -> String {
    format!("({} {})", name, args.join(" "))
}

// ---------------------------------------------------------------- rowids
/// Debug text of an EncodedU64Array -> enc_arr
pub fn arr_dbg(d: &str) -> String {
    let d = d.trim();
    let nums = |x: &str| -> String { format!("[{}]", x.split(", ").filter(|t| !t.is_empty()).collect::<Vec<_>>().join("; ")) };
    if let Some(r) = d.strip_prefix("U16 { base: ") {
        let (b, rest) = r.split_once(", offsets: [").unwrap();
        format!("(EU16 {} {})", b, nums(rest.strip_suffix("] }").unwrap()))
    } else if let Some(r) = d.strip_prefix("U32 { base: ") {
        let (b, rest) = r.split_once(", offsets: [").unwrap();
        format!("(EU32 {} {})", b, nums(rest.strip_suffix("] }").unwrap()))
    } else if let Some(r) = d.strip_prefix("U64([") {
        format!("(EU64 {})", nums(r.strip_suffix("])").unwrap()))
    } else {
        panic!("unexpected EncodedU64Array debug text: {d}")
    }
}
pub fn seg_dom(x: &U64Segment) -> String {
    match x {
        U64Segment::Range(r) => format!("(SRange {} {})", r.start, r.end),
        U64Segment::RangeWithHoles { range, holes } => format!("(SHoles {} {} {})", range.start, range.end, arr_dbg(&format!("{:?}", holes))),
        U64Segment::RangeWithBitmap { range, bitmap } => format!("(SBitmap {} {} {} {})", range.start, range.end, by(&bitmap.data), bitmap.len),
        U64Segment::SortedArray(a) => format!("(SSorted {})", arr_dbg(&format!("{:?}", a))),
        U64Segment::Array(a) => format!("(SArray {})", arr_dbg(&format!("{:?}", a))),
    }
}
fn split_top(x: &str) -> Vec<String> {
    let mut out = vec![];
    let mut depth = 0i32;
    let mut cur = String::new();
    let cs: Vec<char> = x.chars().collect();
    let mut i = 0;
    while i < cs.len() {
        let c = cs[i];
        match c {
            '(' | '[' | '{' => depth += 1,
            ')' | ']' | '}' => depth -= 1,
            _ => {}
        }
        if c == ',' && depth == 0 {
            out.push(cur.trim().to_string());
            cur = String::new();
        } else {
            cur.push(c);
        }
        i += 1;
    }
    if !cur.trim().is_empty() {
        out.push(cur.trim().to_string());
    }
    out
}
fn range_dbg(r: &str) -> (String, String) {
    let (a, b) = r.split_once("..").unwrap();
    (a.trim().to_string(), b.trim().to_string())
}
/// Debug text of a RowIdSequence -> list (segment * list bool): a Bitmap shows only its first `len` bits.
pub fn rowids_view_dbg(d: &str) -> String {
    let inner = d.strip_prefix("RowIdSequence([").unwrap().strip_suffix("])").unwrap();
    let mut items = vec![];
    for seg in split_top(inner) {
        let item = if let Some(r) = seg.strip_prefix("Range(") {
            let (a, b) = range_dbg(r.strip_suffix(')').unwrap());
            format!("((SRange {} {}), [])", a, b)
        } else if let Some(r) = seg.strip_prefix("RangeWithHoles { range: ") {
            let (rg, rest) = r.split_once(", holes: ").unwrap();
            let (a, b) = range_dbg(rg);
            format!("((SHoles {} {} {}), [])", a, b, arr_dbg(rest.strip_suffix(" }").unwrap()))
        } else if let Some(r) = seg.strip_prefix("RangeWithBitmap { range: ") {
            let (rg, rest) = r.split_once(", bitmap: Bitmap { data: ").unwrap();
            let (a, b) = range_dbg(rg);
            let (bits, rest) = rest.split_once(", len: ").unwrap();
            let len = rest.strip_suffix(" } }").unwrap();
            let bl = coq::list(bits.chars().map(|c| coq::b(c == '1')));
            format!("((SBitmap {} {} [] {}), {})", a, b, len, bl)
        } else if let Some(r) = seg.strip_prefix("SortedArray(") {
            format!("((SSorted {}), [])", arr_dbg(r.strip_suffix(')').unwrap()))
        } else if let Some(r) = seg.strip_prefix("Array(") {
            format!("((SArray {}), [])", arr_dbg(r.strip_suffix(')').unwrap()))
        } else {
            panic!("unexpected U64Segment debug text: {seg}")
        };
        items.push(item);
    }
    coq::list(items)
}
pub fn arr_pb(a: &pb::EncodedU64Array) -> String {
    use pb::encoded_u64_array::Array::*;
    coq::opt(a.array.as_ref().map(|k| match k {
        U16Array(x) => format!("(PU16 {} {})", x.base, by(&x.offsets)),
        U32Array(x) => format!("(PU32 {} {})", x.base, by(&x.offsets)),
        U64Array(x) => format!("(PU64 {})", by(&x.values)),
    }))
}
pub fn seg_pb(p: &pb::U64Segment) -> String {
    use pb::u64_segment::Segment::*;
    coq::opt(p.segment.as_ref().map(|k| match k {
        Range(r) => format!("(PRange {} {})", r.start, r.end),
        RangeWithHoles(r) => format!("(PHoles {} {} {})", r.start, r.end, coq::opt(r.holes.as_ref().map(arr_pb))),
        RangeWithBitmap(r) => format!("(PBitmap {} {} {})", r.start, r.end, by(&r.bitmap)),
        SortedArray(a) => format!("(PSorted {})", arr_pb(a)),
        Array(a) => format!("(PArray {})", arr_pb(a)),
    }))
}
pub fn vseq_dom(v: &RowDatasetVersionSequence) -> String {
    coq::list(v.runs.iter().map(|r| format!("({}, {})", seg_dom(&r.span), r.version)))
}
pub fn vseq_pb(v: &pb::RowDatasetVersionSequence) -> String {
    coq::list(v.runs.iter().map(|r| format!("({}, {})", coq::opt(r.span.as_ref().map(seg_pb)), r.version)))
}

// ---------------------------------------------------------------- fragments
pub fn df_dom(d: &DataFile) -> String {
    ctor(
        "mk_df",
        &[s(&d.path), zl(&d.fields), zl(&d.column_indices), coq::n(d.file_major_version as u64), coq::n(d.file_minor_version as u64), coq::n(d.file_size_bytes.get().map_or(0, |v| v.get())), on(d.base_id.map(|v| v as u64))],
    )
}
pub fn df_pb(d: &pb::DataFile) -> String {
    ctor("mk_pdf", &[s(&d.path), zl(&d.fields), zl(&d.column_indices), coq::n(d.file_major_version as u64), coq::n(d.file_minor_version as u64), coq::n(d.file_size_bytes), on(d.base_id.map(|v| v as u64))])
}
pub fn del_dom(d: &DeletionFile) -> String {
    ctor(
        "mk_del",
        &[coq::n(d.read_version), coq::n(d.id), match d.file_type { DeletionFileType::Array => "DtArray".into(), DeletionFileType::Bitmap => "DtBitmap".into() }, on(d.num_deleted_rows.map(|v| v as u64)), on(d.base_id.map(|v| v as u64))],
    )
}
pub fn del_pb(d: &pb::DeletionFile) -> String {
    ctor("mk_pdel", &[coq::z(d.file_type as i128), coq::n(d.read_version), coq::n(d.id), coq::n(d.num_deleted_rows), on(d.base_id.map(|v| v as u64))])
}
fn ext(path: &str, offset: u64, size: u64) -> String {
    format!("(External (mk_ext {} {} {}))", s(path), offset, size)
}
fn ext_dom(f: &ExternalFile) -> String {
    ext(&f.path, f.offset, f.size)
}
pub fn rid_dom(m: &RowIdMeta) -> String {
    match m {
        RowIdMeta::Inline(d) => format!("(Inline {})", by(d)),
        RowIdMeta::External(f) => ext_dom(f),
    }
}
pub fn vmeta_dom(m: &RowDatasetVersionMeta) -> String {
    match m {
        RowDatasetVersionMeta::Inline(d) => format!("(Inline {})", by(d)),
        RowDatasetVersionMeta::External(f) => ext_dom(f),
    }
}
pub fn frag_dom(f: &Fragment) -> String {
    ctor(
        "mk_frag",
        &[
            coq::n(f.id),
            coq::list(f.files.iter().map(df_dom)),
            coq::opt(f.deletion_file.as_ref().map(del_dom)),
            coq::opt(f.row_id_meta.as_ref().map(rid_dom)),
            on(f.physical_rows.map(|v| v as u64)),
            coq::opt(f.last_updated_at_version_meta.as_ref().map(vmeta_dom)),
            coq::opt(f.created_at_version_meta.as_ref().map(vmeta_dom)),
        ],
    )
}
pub fn frag_pb(f: &pb::DataFragment) -> String {
    use pb::data_fragment::{CreatedAtVersionSequence as C, LastUpdatedAtVersionSequence as L, RowIdSequence as R};
    ctor(
        "mk_pfrag",
        &[
            coq::n(f.id),
            coq::list(f.files.iter().map(df_pb)),
            coq::opt(f.deletion_file.as_ref().map(del_pb)),
            coq::opt(f.row_id_sequence.as_ref().map(|m| match m {
                R::InlineRowIds(d) => format!("(Inline {})", by(d)),
                R::ExternalRowIds(e) => ext(&e.path, e.offset, e.size),
            })),
            coq::n(f.physical_rows),
            coq::opt(f.last_updated_at_version_sequence.as_ref().map(|m| match m {
                L::InlineLastUpdatedAtVersions(d) => format!("(Inline {})", by(d)),
                L::ExternalLastUpdatedAtVersions(e) => ext(&e.path, e.offset, e.size),
            })),
            coq::opt(f.created_at_version_sequence.as_ref().map(|m| match m {
                C::InlineCreatedAtVersions(d) => format!("(Inline {})", by(d)),
                C::ExternalCreatedAtVersions(e) => ext(&e.path, e.offset, e.size),
            })),
        ],
    )
}
pub fn frags_dom(v: &[Fragment]) -> String {
    coq::list(v.iter().map(frag_dom))
}
pub fn frags_pb(v: &[pb::DataFragment]) -> String {
    coq::list(v.iter().map(frag_pb))
}

// ---------------------------------------------------------------- index metadata
pub fn any(a: &prost_types::Any) -> String {
    format!("({}, {})", s(&a.type_url), by(&a.value))
}
pub fn bitmap_elems(b: &RoaringBitmap) -> String {
    coq::list(b.iter().map(|v| coq::n(v as u64)))
}
/// the stand-in encoding of the roaring bytes found in a pb message (see toy_ser/toy_de in the model)
pub fn bitmap_toy(b: &[u8]) -> String {
    if b.is_empty() {
        "[]".into()
    } else {
        match RoaringBitmap::deserialize_from(b) {
            Ok(bm) => {
                let mut v = vec!["0".to_string()];
                v.extend(bm.iter().map(|x| coq::n(x as u64)));
                coq::list(v)
            }
            Err(_) => "[1]".into(),
        }
    }
}
pub fn idx_dom(i: &IndexMetadata) -> String {
    ctor(
        "mk_idx",
        &[
            by(i.uuid.as_bytes()),
            zl(&i.fields),
            s(&i.name),
            coq::n(i.dataset_version),
            coq::opt(i.fragment_bitmap.as_ref().map(bitmap_elems)),
            coq::opt(i.index_details.as_ref().map(|a| any(a))),
            coq::z(i.index_version as i128),
            coq::opt(i.created_at.map(|dt| coq::z(dt.timestamp() as i128 * 1_000_000_000 + dt.timestamp_subsec_nanos() as i128))),
            on(i.base_id.map(|v| v as u64)),
        ],
    )
}
pub fn idx_pb(i: &pb::IndexMetadata) -> String {
    ctor(
        "mk_pidx",
        &[
            coq::opt(i.uuid.as_ref().map(|u| by(&u.uuid))),
            zl(&i.fields),
            s(&i.name),
            coq::n(i.dataset_version),
            bitmap_toy(&i.fragment_bitmap),
            coq::opt(i.index_details.as_ref().map(any)),
            coq::opt(i.index_version.map(|v| coq::z(v as i128))),
            on(i.created_at),
            on(i.base_id.map(|v| v as u64)),
        ],
    )
}

// ---------------------------------------------------------------- mem wal
pub fn mw_dom(m: &MemWal) -> String {
    ctor(
        "mk_mw",
        &[
            s(&m.id.region),
            coq::n(m.id.generation),
            s(&m.mem_table_location),
            s(&m.wal_location),
            by(&m.wal_entries),
            match m.state { State::Open => "MwOpen", State::Sealed => "MwSealed", State::Flushed => "MwFlushed", State::Merged => "MwMerged" }.into(),
            s(&m.owner_id),
            coq::n(m.last_updated_dataset_version),
        ],
    )
}
pub fn mw_pb(m: &pb::mem_wal_index_details::MemWal) -> String {
    ctor(
        "mk_pmw",
        &[
            coq::opt(m.id.as_ref().map(|i| format!("({}, {})", s(&i.region), i.generation))),
            s(&m.mem_table_location),
            s(&m.wal_location),
            by(&m.wal_entries),
            coq::z(m.state as i128),
            s(&m.owner_id),
            coq::n(m.last_updated_dataset_version),
        ],
    )
}

// ---------------------------------------------------------------- manifest
pub fn bp_dom(b: &BasePath) -> String {
    ctor("mk_bp", &[coq::n(b.id as u64), os(&b.name), coq::b(b.is_dataset_root), s(&b.path)])
}
pub fn bp_pb(b: &pb::BasePath) -> String {
    ctor("mk_bp", &[coq::n(b.id as u64), os(&b.name), coq::b(b.is_dataset_root), s(&b.path)])
}
pub fn fields_pb(f: &[lance_file::format::pb::Field]) -> String {
    coq::list(f.iter().map(|x| by(&x.encode_to_vec())))
}
pub fn schema_dom(sc: &Schema) -> String {
    format!("(mk_schema {} {})", fields_pb(&Fields::from(sc).0), kv(&sc.metadata))
}
fn wv(l: &str, v: &str, p: &Option<String>, b: &Option<String>) -> String {
    ctor("mk_wv", &[s(l), s(v), os(p), os(b)])
}
/// fragment_offsets is private: read it from the derived Debug text
pub fn offsets_dbg(m: &Manifest) -> String {
    let d = format!("{:?}", m);
    let i = d.find("fragment_offsets: [").expect("fragment_offsets in Debug") + "fragment_offsets: [".len();
    let j = d[i..].find(']').unwrap();
    format!("[{}]", d[i..i + j].split(", ").filter(|t| !t.is_empty()).collect::<Vec<_>>().join("; "))
}
pub fn mf_dom(m: &Manifest) -> String {
    let mut bps: Vec<(&u32, &BasePath)> = m.base_paths.iter().collect();
    bps.sort_by_key(|x| *x.0);
    ctor(
        "mk_mf",
        &[
            schema_dom(&m.schema),
            coq::n(m.version),
            os(&m.branch),
            coq::opt(m.writer_version.as_ref().map(|w| wv(&w.library, &w.version, &w.prerelease, &w.build_metadata))),
            frags_dom(&m.fragments),
            coq::n(m.version_aux_data as u64),
            on(m.index_section.map(|v| v as u64)),
            coq::n128(m.timestamp_nanos),
            os(&m.tag),
            coq::n(m.reader_feature_flags),
            coq::n(m.writer_feature_flags),
            on(m.max_fragment_id.map(|v| v as u64)),
            os(&m.transaction_file),
            on(m.transaction_section.map(|v| v as u64)),
            offsets_dbg(m),
            coq::n(m.next_row_id),
            format!("({}, {})", s(&m.data_storage_format.file_format), s(&m.data_storage_format.version)),
            kv(&m.config),
            kv(&m.table_metadata),
            coq::list(bps.into_iter().map(|(k, b)| format!("({}, {})", k, bp_dom(b)))),
        ],
    )
}
pub fn mf_pb(m: &pb::Manifest) -> String {
    let mut bps: Vec<&pb::BasePath> = m.base_paths.iter().collect();
    bps.sort_by_key(|x| x.id);
    ctor(
        "mk_pmf",
        &[
            fields_pb(&m.fields),
            kvb(&m.schema_metadata),
            frags_pb(&m.fragments),
            coq::n(m.version),
            coq::n(m.version_aux_data),
            coq::opt(m.writer_version.as_ref().map(|w| wv(&w.library, &w.version, &w.prerelease, &w.build_metadata))),
            on(m.index_section),
            coq::opt(m.timestamp.as_ref().map(|t| format!("({}, {})", coq::z(t.seconds as i128), coq::z(t.nanos as i128)))),
            s(&m.tag),
            coq::n(m.reader_feature_flags),
            coq::n(m.writer_feature_flags),
            on(m.max_fragment_id.map(|v| v as u64)),
            s(&m.transaction_file),
            on(m.transaction_section),
            coq::n(m.next_row_id),
            coq::opt(m.data_format.as_ref().map(|d| format!("({}, {})", s(&d.file_format), s(&d.version)))),
            kv(&m.config),
            kv(&m.table_metadata),
            coq::list(bps.into_iter().map(bp_pb)),
            os(&m.branch),
        ],
    )
}

// ---------------------------------------------------------------- transaction
pub fn um_dom(u: &UpdateMap) -> String {
    format!("(mk_um {} {})", coq::list(u.update_entries.iter().map(|e| format!("({}, {})", s(&e.key), os(&e.value)))), coq::b(u.replace))
}
pub fn um_pb(u: &pb::transaction::UpdateMap) -> String {
    format!("(mk_um {} {})", coq::list(u.update_entries.iter().map(|e| format!("({}, {})", s(&e.key), os(&e.value)))), coq::b(u.replace))
}
fn ri_dom(r: &RewrittenIndex) -> String {
    ctor("mk_ri", &[by(r.old_id.as_bytes()), by(r.new_id.as_bytes()), any(&r.new_index_details), coq::n(r.new_index_version as u64)])
}
fn ri_pb(r: &pb::transaction::rewrite::RewrittenIndex) -> String {
    ctor("mk_pri", &[coq::opt(r.old_id.as_ref().map(|u| by(&u.uuid))), coq::opt(r.new_id.as_ref().map(|u| by(&u.uuid))), coq::opt(r.new_index_details.as_ref().map(any)), coq::n(r.new_index_version as u64)])
}
fn rg_dom(g: &RewriteGroup) -> String {
    format!("({}, {})", frags_dom(&g.old_fragments), frags_dom(&g.new_fragments))
}
fn rg_pb(g: &pb::transaction::rewrite::RewriteGroup) -> String {
    format!("({}, {})", frags_pb(&g.old_fragments), frags_pb(&g.new_fragments))
}
fn oum_dom(u: &Option<UpdateMap>) -> String {
    coq::opt(u.as_ref().map(um_dom))
}
fn oum_pb(u: &Option<pb::transaction::UpdateMap>) -> String {
    coq::opt(u.as_ref().map(um_pb))
}
pub fn op_dom(o: &Operation) -> String {
    match o {
        Operation::Append { fragments } => ctor("OpAppend", &[frags_dom(fragments)]),
        Operation::Delete { updated_fragments, deleted_fragment_ids, predicate } => ctor("OpDelete", &[frags_dom(updated_fragments), coq::nlist(deleted_fragment_ids), s(predicate)]),
        Operation::Overwrite { fragments, schema, config_upsert_values, initial_bases } => ctor(
            "OpOverwrite",
            &[frags_dom(fragments), schema_dom(schema), coq::opt(config_upsert_values.as_ref().map(kv)), coq::opt(initial_bases.as_ref().map(|l| coq::list(l.iter().map(bp_dom))))],
        ),
        Operation::CreateIndex { new_indices, removed_indices } => ctor("OpCreateIndex", &[coq::list(new_indices.iter().map(idx_dom)), coq::list(removed_indices.iter().map(idx_dom))]),
        Operation::Rewrite { groups, rewritten_indices, frag_reuse_index } => ctor("OpRewrite", &[coq::list(groups.iter().map(rg_dom)), coq::list(rewritten_indices.iter().map(ri_dom)), coq::opt(frag_reuse_index.as_ref().map(idx_dom))]),
        Operation::DataReplacement { replacements } => ctor("OpDataReplacement", &[coq::list(replacements.iter().map(|DataReplacementGroup(id, f)| format!("({}, {})", id, df_dom(f))))]),
        Operation::Merge { fragments, schema } => ctor("OpMerge", &[frags_dom(fragments), schema_dom(schema)]),
        Operation::Restore { version } => ctor("OpRestore", &[coq::n(*version)]),
        Operation::ReserveFragments { num_fragments } => ctor("OpReserveFragments", &[coq::n(*num_fragments as u64)]),
        Operation::Update { removed_fragment_ids, updated_fragments, new_fragments, fields_modified, mem_wal_to_merge, fields_for_preserving_frag_bitmap, update_mode } => ctor(
            "OpUpdate",
            &[
                coq::nlist(removed_fragment_ids),
                frags_dom(updated_fragments),
                frags_dom(new_fragments),
                nl32(fields_modified),
                coq::opt(mem_wal_to_merge.as_ref().map(mw_dom)),
                nl32(fields_for_preserving_frag_bitmap),
                coq::opt(update_mode.as_ref().map(|m| match m { UpdateMode::RewriteRows => "RewriteRows".to_string(), UpdateMode::RewriteColumns => "RewriteColumns".to_string() })),
            ],
        ),
        Operation::Project { schema } => ctor("OpProject", &[schema_dom(schema)]),
        Operation::UpdateConfig { config_updates, table_metadata_updates, schema_metadata_updates, field_metadata_updates } => {
            let mut f: Vec<(&i32, &UpdateMap)> = field_metadata_updates.iter().collect();
            f.sort_by_key(|x| *x.0);
            ctor("OpUpdateConfig", &[oum_dom(config_updates), oum_dom(table_metadata_updates), oum_dom(schema_metadata_updates), coq::list(f.into_iter().map(|(k, u)| format!("({}, {})", coq::z(*k as i128), um_dom(u))))])
        }
        Operation::UpdateMemWalState { added, updated, removed } => ctor("OpUpdateMemWalState", &[coq::list(added.iter().map(mw_dom)), coq::list(updated.iter().map(mw_dom)), coq::list(removed.iter().map(mw_dom))]),
        Operation::Clone { is_shallow, ref_name, ref_version, ref_path, branch_name } => ctor("OpClone", &[coq::b(*is_shallow), os(ref_name), coq::n(*ref_version), s(ref_path), os(branch_name)]),
        Operation::UpdateBases { new_bases } => ctor("OpUpdateBases", &[coq::list(new_bases.iter().map(bp_dom))]),
    }
}
pub fn txn_dom(t: &Transaction) -> String {
    ctor("mk_txn", &[coq::n(t.read_version), s(&t.uuid), op_dom(&t.operation), os(&t.tag), coq::opt(t.transaction_properties.as_ref().map(|p| kv(p)))])
}
pub fn op_pb(o: &pb::transaction::Operation) -> String {
    use pb::transaction::Operation as O;
    match o {
        O::Append(a) => ctor("POAppend", &[frags_pb(&a.fragments)]),
        O::Delete(d) => ctor("PODelete", &[frags_pb(&d.updated_fragments), coq::nlist(&d.deleted_fragment_ids), s(&d.predicate)]),
        O::Overwrite(w) => ctor("POOverwrite", &[frags_pb(&w.fragments), fields_pb(&w.schema), kvb(&w.schema_metadata), kv(&w.config_upsert_values), coq::list(w.initial_bases.iter().map(bp_pb))]),
        O::CreateIndex(c) => ctor("POCreateIndex", &[coq::list(c.new_indices.iter().map(idx_pb)), coq::list(c.removed_indices.iter().map(idx_pb))]),
        O::Rewrite(r) => ctor("PORewrite", &[frags_pb(&r.old_fragments), frags_pb(&r.new_fragments), coq::list(r.groups.iter().map(rg_pb)), coq::list(r.rewritten_indices.iter().map(ri_pb))]),
        O::Merge(m) => ctor("POMerge", &[frags_pb(&m.fragments), fields_pb(&m.schema), kvb(&m.schema_metadata)]),
        O::Restore(r) => ctor("PORestore", &[coq::n(r.version)]),
        O::ReserveFragments(r) => ctor("POReserveFragments", &[coq::n(r.num_fragments as u64)]),
        O::Update(u) => ctor(
            "POUpdate",
            &[coq::nlist(&u.removed_fragment_ids), frags_pb(&u.updated_fragments), frags_pb(&u.new_fragments), nl32(&u.fields_modified), coq::opt(u.mem_wal_to_merge.as_ref().map(mw_pb)), nl32(&u.fields_for_preserving_frag_bitmap), coq::z(u.update_mode as i128)],
        ),
        O::Project(p) => ctor("POProject", &[fields_pb(&p.schema)]),
        O::UpdateConfig(c) => {
            let mut f: Vec<(&i32, &pb::transaction::UpdateMap)> = c.field_metadata_updates.iter().collect();
            f.sort_by_key(|x| *x.0);
            let mut of: Vec<(&u32, &pb::transaction::update_config::FieldMetadataUpdate)> = c.field_metadata.iter().collect();
            of.sort_by_key(|x| *x.0);
            ctor(
                "POUpdateConfig",
                &[
                    oum_pb(&c.config_updates),
                    oum_pb(&c.table_metadata_updates),
                    oum_pb(&c.schema_metadata_updates),
                    coq::list(f.into_iter().map(|(k, u)| format!("({}, {})", coq::z(*k as i128), um_pb(u)))),
                    kv(&c.upsert_values),
                    coq::list(c.delete_keys.iter().map(|k| s(k))),
                    kv(&c.schema_metadata),
                    coq::list(of.into_iter().map(|(k, u)| format!("({}, {})", k, kv(&u.metadata)))),
                ],
            )
        }
        O::DataReplacement(d) => ctor("PODataReplacement", &[coq::list(d.replacements.iter().map(|g| format!("({}, {})", g.fragment_id, coq::opt(g.new_file.as_ref().map(df_pb)))))]),
        O::UpdateMemWalState(u) => ctor("POUpdateMemWalState", &[coq::list(u.added.iter().map(mw_pb)), coq::list(u.updated.iter().map(mw_pb)), coq::list(u.removed.iter().map(mw_pb))]),
        O::Clone(c) => ctor("POClone", &[coq::b(c.is_shallow), os(&c.ref_name), coq::n(c.ref_version), s(&c.ref_path), os(&c.branch_name)]),
        O::UpdateBases(u) => ctor("POUpdateBases", &[coq::list(u.new_bases.iter().map(bp_pb))]),
    }
}
pub fn txn_pb(t: &pb::Transaction) -> String {
    ctor("mk_ptxn", &[coq::n(t.read_version), s(&t.uuid), coq::opt(t.operation.as_ref().map(op_pb)), s(&t.tag), kv(&t.transaction_properties)])
}

// ---------------------------------------------------------------- refs
pub fn tag_dom(t: &TagContents) -> String {
    ctor("mk_tag", &[os(&t.branch), coq::n(t.version), coq::n(t.manifest_size as u64)])
}
pub fn branch_dom(b: &BranchContents) -> String {
    ctor("mk_branch", &[os(&b.parent_branch), coq::n(b.parent_version), coq::n(b.create_at), coq::n(b.manifest_size as u64)])
}
/// a parsed JSON object -> jobj (keys in sorted order)
pub fn jobj(v: &serde_json::Value) -> String {
    let o = v.as_object().expect("object");
    let mut items: Vec<(&String, &serde_json::Value)> = o.iter().collect();
    items.sort_by(|a, b| a.0.cmp(b.0));
    coq::list(items.into_iter().map(|(k, x)| {
        let jv = match x {
            serde_json::Value::Null => "JNull".to_string(),
            serde_json::Value::String(t) => format!("(JStr {})", s(t)),
            serde_json::Value::Number(n) if n.is_u64() => format!("(JNum {})", n.as_u64().unwrap()),
            _ => "JOther".to_string(),
        };
        format!("({}, {})", s(k), jv)
    }))
}
