//! hx_c24: index coverage is never claimed for unseen data (C24).  Shares the verdict matrix and the world with hx_c03.
#[path = "../hx_c03/mt.rs"]
mod mt;
#[path = "../hx_c03/unit.rs"]
mod unit;
#[path = "../hx_c03/world.rs"]
mod world;
use hxlib::util::{Args, Rng, Sink};
use world::Op;

fn run(args: &Args) -> i32 {
    let rt = tokio::runtime::Builder::new_multi_thread().worker_threads(4).enable_all().build().unwrap();
    let mut sink = Sink::new("C24", &args.out);
    let mut rng = Rng::new(args.seed);
    rt.block_on(async {
        unit::verdict_matrix(&mut sink, "C24").await;
        // create_index racing with column-rewriting merge_insert, row updates, deletes, appends and compaction
        let kinds = ["create_index", "create_index", "merge_insert_partial", "update", "compact", "delete", "append", "merge_insert_full"];
        let forced = vec![
            // F12: the index is built from version 1, the column rewrite commits first
            vec![(Op::MergePartial(vec![1, 2]), true), (Op::CreateIndex, true)],
            // the other order prunes the bitmap
            vec![(Op::CreateIndex, true), (Op::MergePartial(vec![1, 2]), true)],
            vec![(Op::CreateIndex, true), (Op::Update(vec![1, 5]), true), (Op::Compact, false)],
        ];
        world::histories(&mut sink, &mut rng, &kinds, args.vol(50, 500), "C24", forced).await;
    });
    sink.notes.push("e2e: create_index races from stale handles; indexed query == unindexed query after every commit".into());
    sink.finish();
    0
}

fn main() {
    let (sub, args) = Args::parse();
    let code = match sub.as_str() {
        "c24" => run(&args),
        _ => {
            eprintln!("unknown subcommand {sub}");
            2
        }
    };
    std::process::exit(code);
}
