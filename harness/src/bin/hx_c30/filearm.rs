//! End-to-end arm: a real Lance file written to the in-memory store is read back through
//! FileReader -> LanceEncodingsIo -> FileScheduler -> ScanScheduler with this worker's (small)
//! LANCE_MAX_IOP_SIZE, a small read_chunk_size, small byte budgets and few io threads.  The
//! decoder's own request lists (sorted, adjacent, empty for empty values...) are what reaches the
//! scheduler here.  Oracle: the rows read equal the rows written (brute force), within a timeout.
use crate::store::RecStore;
use crate::worker::Out;
use arrow_array::{Array, Int32Array, Int64Array, RecordBatch, StringArray, UInt32Array};
use arrow_schema::{DataType, Field, Schema};
use futures::TryStreamExt;
use hxlib::util::Rng;
use lance_core::cache::LanceCache;
use lance_encoding::decoder::{DecoderPlugins, FilterExpression};
use lance_encoding::version::LanceFileVersion;
use lance_file::reader::{FileReader, FileReaderOptions};
use lance_file::writer::{FileWriter, FileWriterOptions};
use lance_io::object_store::ObjectStore;
use lance_io::scheduler::{ScanScheduler, SchedulerConfig};
use lance_io::utils::CachedFileSize;
use lance_io::ReadBatchParams;
use object_store::memory::InMemory;
use object_store::path::Path;
use serde_json::json;
use std::sync::Arc;
use std::time::Duration;

fn make_batch(rng: &mut Rng, rows: usize) -> RecordBatch {
    let ids: Vec<i64> = (0..rows as i64).map(|i| i * 3 + 1).collect();
    let strs: Vec<Option<String>> = (0..rows)
        .map(|_| match rng.below(6) {
            0 => None,
            1 => Some(String::new()),
            _ => Some((0..rng.below(12)).map(|_| (b'a' + rng.below(26) as u8) as char).collect()),
        })
        .collect();
    let ints: Vec<Option<i32>> = (0..rows).map(|_| if rng.chance(1, 5) { None } else { Some(rng.below(1000) as i32 - 500) }).collect();
    let schema = Arc::new(Schema::new(vec![
        Field::new("id", DataType::Int64, false),
        Field::new("s", DataType::Utf8, true),
        Field::new("v", DataType::Int32, true),
    ]));
    RecordBatch::try_new(schema, vec![Arc::new(Int64Array::from(ids)), Arc::new(StringArray::from(strs)), Arc::new(Int32Array::from(ints))]).unwrap()
}

fn rows_of(b: &RecordBatch) -> Vec<(i64, Option<String>, Option<i32>)> {
    let id = b.column(0).as_any().downcast_ref::<Int64Array>().unwrap();
    let s = b.column(1).as_any().downcast_ref::<StringArray>().unwrap();
    let v = b.column(2).as_any().downcast_ref::<Int32Array>().unwrap();
    (0..b.num_rows())
        .map(|i| (id.value(i), if s.is_null(i) { None } else { Some(s.value(i).to_string()) }, if v.is_null(i) { None } else { Some(v.value(i)) }))
        .collect()
}

pub async fn run(out: &mut Out, rng: &mut Rng, mx: u64, n: usize) {
    for _ in 0..n {
        let rows = *rng.pick(&[1usize, 7, 60, 250]);
        let nbatches = rng.range(1, 3) as usize;
        let version = *rng.pick(&[LanceFileVersion::V2_0, LanceFileVersion::V2_1]);
        // block sizes below the footer size make FileReader::read_tail itself fail (with 0 it asks for an
        // empty range and hits finding F8 through submit_single): not generated
        let bs = *rng.pick(&[64u64, 512, 4096, 65536]);
        let io_par = *rng.pick(&[1usize, 2, 8]);
        let buf = *rng.pick(&[1u64, 100, 1 << 26]);
        let chunk = *rng.pick(&[16u64, 100, 1000, 8 << 20]);
        let batches: Vec<RecordBatch> = (0..nbatches).map(|_| make_batch(rng, rows)).collect();
        let total: usize = batches.iter().map(|b| b.num_rows()).sum();
        let all_rows: Vec<_> = batches.iter().flat_map(rows_of).collect();
        // what to read: everything, a range, or scattered (sorted) indices
        let (params, expect, what): (ReadBatchParams, Vec<_>, String) = match rng.below(3) {
            0 => (ReadBatchParams::RangeFull, all_rows.clone(), "full".into()),
            1 => {
                let a = rng.below(total as u64) as usize;
                let b = a + 1 + rng.below((total - a) as u64) as usize;
                (ReadBatchParams::Range(a..b), all_rows[a..b].to_vec(), format!("range {a}..{b}"))
            }
            _ => {
                let mut idx: Vec<u32> = (0..rng.range(1, 12)).map(|_| rng.below(total as u64) as u32).collect();
                idx.sort();
                idx.dedup();
                (ReadBatchParams::Indices(UInt32Array::from(idx.clone())), idx.iter().map(|i| all_rows[*i as usize].clone()).collect(), format!("indices {:?}", idx))
            }
        };
        let human = json!({"rows_per_batch": rows, "batches": nbatches, "version": format!("{:?}", version), "block_size": bs, "io_parallelism": io_par,
            "buffer": buf, "read_chunk_size": chunk, "max_iop": mx, "read": what});
        let work = async move {
            let inner = Arc::new(InMemory::new());
            let rec = Arc::new(RecStore::new(inner, None, None));
            let store = Arc::new(ObjectStore::new(
                rec as Arc<dyn object_store::ObjectStore>,
                url::Url::parse("memory:///").unwrap(),
                Some(bs as usize),
                None,
                false,
                true,
                io_par,
                lance_io::object_store::DEFAULT_DOWNLOAD_RETRY_COUNT,
                None,
            ));
            let path = Path::from("t.lance");
            let writer = store.create(&path).await.map_err(|e| format!("create: {e}"))?;
            let lschema = lance_core::datatypes::Schema::try_from(batches[0].schema().as_ref()).unwrap();
            let mut fw = FileWriter::try_new(writer, lschema, FileWriterOptions { format_version: Some(version), ..Default::default() }).map_err(|e| format!("writer: {e}"))?;
            for b in &batches {
                fw.write_batch(b).await.map_err(|e| format!("write: {e}"))?;
            }
            fw.finish().await.map_err(|e| format!("finish: {e}"))?;
            let sched = ScanScheduler::new(store, SchedulerConfig { io_buffer_size_bytes: buf });
            let fs = sched.open_file(&path, &CachedFileSize::unknown()).await.map_err(|e| format!("open: {e}"))?;
            let reader = FileReader::try_open(fs, None, Arc::<DecoderPlugins>::default(), &LanceCache::no_cache(), FileReaderOptions { read_chunk_size: chunk, ..Default::default() })
                .await
                .map_err(|e| format!("try_open: {e}"))?;
            let stream = reader.read_stream(params, 64, 4, FilterExpression::no_filter()).map_err(|e| format!("read_stream: {e}"))?;
            let got: Vec<RecordBatch> = stream.try_collect().await.map_err(|e| format!("read: {e}"))?;
            Ok::<_, String>(got.iter().flat_map(rows_of).collect::<Vec<_>>())
        };
        let h = tokio::spawn(work);
        out.count("file:reads");
        match tokio::time::timeout(Duration::from_secs(60), h).await {
            Err(_) => out.fail(None, "reading a Lance file through the scheduler did not complete within 60 s", human),
            Ok(Err(_)) => out.fail(None, "reading a Lance file through the scheduler panicked", human),
            Ok(Ok(Err(e))) => out.fail(None, &format!("reading a Lance file through the scheduler failed: {e}"), human),
            Ok(Ok(Ok(got))) => {
                if got == expect {
                    out.ok()
                } else {
                    out.fail(None, "rows read through the scheduler differ from the rows written", human)
                }
            }
        }
    }
}
