//! Harness-side evaluation of the known-finding class predicate `Known_C30_request_shape`
//! (= not `Dom_C30`, see coq/theories/Io/Model_Sched.v) and the structured generators.
//! The stream `class` checks that this Rust predicate and the Coq one agree on every case.
use hxlib::util::Rng;

pub type R = (u64, u64);

/// issued ranges as the coalesce + split steps produce them; None where a debug build panics
pub fn updated_ref(bs: u64, mx: u64, rs: &[R]) -> Option<Vec<R>> {
    let mut merged: Vec<R> = vec![];
    if let Some(first) = rs.first() {
        let mut cur = *first;
        for r in &rs[1..] {
            let lim = cur.1.checked_add(bs)?;
            if r.0 <= lim {
                cur.1 = cur.1.max(r.1);
            } else {
                merged.push(cur);
                cur = *r;
            }
        }
        merged.push(cur);
    }
    let mut upd = vec![];
    for m in merged {
        if !(m.0 < m.1) {
            upd.push(m);
        } else {
            if mx == 0 {
                return None;
            }
            let size = m.1 - m.0;
            let n = size / mx + if size % mx == 0 { 0 } else { 1 };
            let bpr = size / n;
            for i in 0..n {
                let s = m.0 + i * bpr;
                upd.push((s, if i == n - 1 { m.1 } else { s + bpr }));
            }
        }
    }
    if upd.iter().any(|u| u.1 < u.0) {
        return None;
    }
    Some(upd)
}

fn single_piece(us: &[R], o: R) -> bool {
    for u in us {
        if u.0 <= o.0 && o.0 < u.1 {
            return o.1 <= u.1;
        }
        if !(u.1 <= o.0) {
            return false;
        }
    }
    false
}

pub fn dom_c30(bs: u64, mx: u64, rs: &[R]) -> bool {
    if mx == 0 {
        return false;
    }
    for i in 0..rs.len() {
        for j in i + 1..rs.len() {
            if rs[i].0 > rs[j].0 {
                return false;
            }
        }
    }
    if rs.iter().any(|r| !(r.0 < r.1)) {
        return false;
    }
    if rs.iter().any(|r| r.1.checked_add(bs).is_none()) {
        return false;
    }
    let us = match updated_ref(bs, mx, rs) {
        Some(u) => u,
        None => return false,
    };
    for i in 0..rs.len() {
        if !single_piece(&us, rs[i]) && rs[i + 1..].iter().any(|r| rs[i].1 > r.0) {
            return false;
        }
    }
    true
}

pub fn known_request_shape(bs: u64, mx: u64, rs: &[R]) -> bool {
    !dom_c30(bs, mx, rs)
}

fn pick_len(rng: &mut Rng, mx: u64) -> u64 {
    let m = mx.min(60);
    let l = match rng.below(12) {
        0 => 1,
        1 => 2,
        2 => m,
        3 => m + 1,
        4 => m.saturating_sub(1).max(1),
        5 => 2 * m,
        6 => 2 * m + 1,
        7 => (3 * m).saturating_sub(1).max(1),
        8 => rng.range(1, 3 * m + 2),
        _ => rng.range(1, 40),
    };
    l.clamp(1, 150)
}
fn pick_gap(rng: &mut Rng, bs: u64, flen: u64) -> u64 {
    match rng.below(9) {
        0 => 0,
        1 => 1,
        2 => bs,
        3 => bs + 1,
        4 => bs.saturating_sub(1),
        5 => rng.below(2 * bs + 3),
        6 => rng.below(flen / 4 + 1),
        _ => rng.below(8),
    }
}

fn gen_disjoint(rng: &mut Rng, flen: u64, bs: u64, mx: u64, k: usize) -> Vec<R> {
    let mut out = vec![];
    let mut pos = rng.below(flen / 4 + 1);
    for _ in 0..k {
        let s = pos + pick_gap(rng, bs, flen);
        let e = s + pick_len(rng, mx);
        if e > flen {
            break;
        }
        out.push((s, e));
        pos = e;
    }
    out
}
fn gen_overlap(rng: &mut Rng, flen: u64, bs: u64, mx: u64, k: usize) -> Vec<R> {
    let mut out: Vec<R> = vec![];
    let mut s = rng.below(flen / 4 + 1);
    for _ in 0..k {
        let e = s + pick_len(rng, mx);
        if e > flen {
            break;
        }
        out.push((s, e));
        // next start: same start, inside, at the end, just past the end, or beyond the block size
        s += match rng.below(7) {
            0 => 0,
            1 => rng.below(e - s),
            2 => e - s,
            3 => e - s + rng.below(bs + 2),
            4 => (e - s).saturating_sub(1),
            _ => rng.below(e - s + bs + 3),
        };
    }
    out
}

/// (ranges, kind); every range end is <= flen
pub fn gen_ranges(rng: &mut Rng, flen: u64, bs: u64, mx: u64) -> (Vec<R>, &'static str) {
    let k = *rng.pick(&[1usize, 1, 2, 2, 3, 3, 4, 5, 6, 8]);
    let kind = rng.below(100);
    let (mut v, name): (Vec<R>, &'static str) = if kind < 45 {
        (gen_disjoint(rng, flen, bs, mx, k), "disjoint")
    } else if kind < 75 {
        (gen_overlap(rng, flen, bs, mx, k), "overlap")
    } else if kind < 83 {
        let mut v = if rng.bool() { gen_disjoint(rng, flen, bs, mx, k) } else { gen_overlap(rng, flen, bs, mx, k) };
        for _ in 0..rng.range(1, 2) {
            let p = if v.is_empty() {
                rng.below(flen + 1)
            } else {
                let r = *rng.pick(&v);
                match rng.below(5) {
                    0 => r.0,
                    1 => r.1,
                    2 => r.0 + rng.below(r.1 - r.0),
                    3 => (r.1 + rng.below(bs + 2)).min(flen),
                    _ => rng.below(flen + 1),
                }
            };
            let at = rng.below(v.len() as u64 + 1) as usize;
            v.insert(at, (p, p));
        }
        if rng.bool() {
            v.sort();
        }
        (v, "with_empty")
    } else if kind < 92 {
        let mut v = if rng.bool() { gen_disjoint(rng, flen, bs, mx, k.max(2)) } else { gen_overlap(rng, flen, bs, mx, k.max(2)) };
        if v.len() >= 2 {
            let i = rng.below(v.len() as u64) as usize;
            let j = rng.below(v.len() as u64) as usize;
            v.swap(i, j);
            if rng.chance(1, 3) {
                v.reverse();
            }
        }
        (v, "unsorted")
    } else if kind < 96 {
        let mut v = gen_disjoint(rng, flen, bs, mx, k);
        let s = rng.range(1, flen);
        let e = rng.below(s);
        let at = rng.below(v.len() as u64 + 1) as usize;
        v.insert(at, (s, e));
        (v, "reversed")
    } else if kind < 98 {
        (vec![], "empty_list")
    } else {
        let v = gen_disjoint(rng, flen, bs, mx, 1);
        let n = rng.range(2, 4) as usize;
        (v.iter().cycle().take(v.len() * n).cloned().collect(), "dups")
    };
    if v.is_empty() && name != "empty_list" {
        v.push((0, flen.min(5)));
    }
    (v, name)
}
