//! hx_c30: C30 — the I/O scheduler returns exactly the requested bytes and always completes.
//! `c30` is the driver; it re-executes itself as `worker` once per LANCE_MAX_IOP_SIZE value
//! (lance-io reads that variable once per process) and merges the observations.
mod filearm;
mod queue;
mod refimpl;
mod store;
mod worker;

use hxlib::util::{Args, Sink, Stream};
use serde_json::Value;

const REQ: &str = "Common.Base Io.Model_Sched";

fn parent(args: &Args) -> i32 {
    let mut sink = Sink::new("C30", &args.out);
    let mxs: Vec<u64> = if args.thorough() { vec![1, 2, 3, 4, 5, 7, 8, 13, 16, 64, 100, 1000, 16 * 1024 * 1024] } else { vec![1, 2, 3, 5, 8, 16, 64, 16 * 1024 * 1024] };
    let exe = std::env::current_exe().unwrap();
    let mut kids = vec![];
    for (i, mx) in mxs.iter().enumerate() {
        let _ = std::fs::remove_file(args.out.join(format!("worker_{i}.json")));
        let child = std::process::Command::new(&exe)
            .args(["worker", "--tier", &args.tier, "--seed", &args.seed.to_string(), "--out", args.out.to_str().unwrap(), "--widx", &i.to_string()])
            .env("LANCE_MAX_IOP_SIZE", mx.to_string())
            .env_remove("LANCE_IO_THREADS")
            .env_remove("LANCE_PROCESS_IO_THREADS_LIMIT")
            .spawn()
            .unwrap();
        kids.push(child);
    }
    let mut bad = false;
    for (i, mut k) in kids.into_iter().enumerate() {
        let st = k.wait().unwrap();
        if !st.success() {
            eprintln!("worker {i} (max_iop_size={}) failed: {st}", mxs[i]);
            bad = true;
        }
    }
    if bad {
        return 1;
    }
    let mut streams = vec![
        Stream::new("submit", REQ, "chk_submit", "(N * N * N) * (N * N * option N) * list range", "outcome (list bytes)"),
        Stream::new("issued", REQ, "chk_issued", "(N * N) * list range", "list range * (N * N)"),
        Stream::new("class", REQ, "chk_class", "(N * N) * list range", "bool"),
        Stream::new("encio", REQ, "chk_encio", "(N * N * N) * (N * N * N) * list range", "outcome (list bytes)"),
        Stream::new("queue", REQ, "chk_queue", "(N * N) * (N * N) * list qev", "list qobs"),
    ];
    // coqc start-up (~10 s) dominates a shard; keep shards few and large
    streams[0].shard = 500;
    streams[1].shard = 1500;
    streams[2].shard = 2000;
    streams[3].shard = 500;
    streams[4].shard = 300;
    for (i, mx) in mxs.iter().enumerate() {
        let txt = std::fs::read_to_string(args.out.join(format!("worker_{i}.json"))).unwrap();
        let v: Value = serde_json::from_str(&txt).unwrap();
        assert_eq!(v["mx"].as_u64().unwrap(), *mx, "worker did not see LANCE_MAX_IOP_SIZE");
        for c in v["cases"].as_array().unwrap() {
            let name = c["stream"].as_str().unwrap();
            let s = streams.iter_mut().find(|s| s.name == name).unwrap();
            s.push(c["in"].as_str().unwrap().to_string(), c["out"].as_str().unwrap().to_string(), c["human"].clone());
        }
        for o in v["oracle"].as_array().unwrap() {
            if o["ok"].as_bool().unwrap() {
                sink.oracle_ok();
            } else {
                sink.oracle_fail(o["class"].as_str(), o["what"].as_str().unwrap(), o["case"].clone());
            }
        }
        for c in v["counts"].as_array().unwrap() {
            sink.count(c.as_str().unwrap());
        }
        for c in v["nontrivial"].as_array().unwrap() {
            sink.nontrivial(c.as_str().unwrap());
        }
        let _ = std::fs::remove_file(args.out.join(format!("worker_{i}.json")));
    }
    sink.notes.push(format!("one worker process per LANCE_MAX_IOP_SIZE in {:?}; files of 64..4096 bytes, block sizes 0..5000, structured range lists (disjoint / overlapping / with empty / unsorted / reversed / duplicates), F8 corpus first", mxs));
    for s in streams {
        if !s.is_empty() {
            sink.add(s);
        }
    }
    sink.finish();
    0
}

fn main() {
    let (sub, args) = Args::parse();
    let code = match sub.as_str() {
        "c30" => parent(&args),
        "worker" => worker::run(&args),
        _ => {
            eprintln!("unknown subcommand {sub}");
            2
        }
    };
    std::process::exit(code);
}
