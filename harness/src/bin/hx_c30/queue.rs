//! Queue arm: scripted request / completion / consumption sequences against the real
//! ScanScheduler with a gated store (filled in below).
use crate::worker::Out;
use hxlib::util::{Args, Rng};

pub fn run(_out: &mut Out, _rng: &mut Rng, _mx: u64, _args: &Args) {}
