//! Queue arm: scripted submit / complete / consume / close sequences against the real
//! ScanScheduler over a gated store, on a current-thread runtime (no wall-clock dependence:
//! after every action the other tasks run to quiescence by yielding).  The observations are
//! compared with the model's IoQueueState transitions (stream `queue`, checker `chk_queue`).
use crate::refimpl::R;
use crate::store::Gate;
use crate::worker::{coq_ranges, open, Out};
use bytes::Bytes;
use futures::future::BoxFuture;
use futures::FutureExt;
use hxlib::util::{Args, Rng};
use serde_json::json;
use std::sync::Arc;

type Fut = BoxFuture<'static, lance_core::Result<Vec<Bytes>>>;

async fn settle() {
    for _ in 0..150 {
        tokio::task::yield_now().await;
    }
}

fn batch_of(start: u64) -> u64 {
    (start - 10) / 300
}

fn held_obs(gate: &Gate) -> Vec<(u64, u64)> {
    let mut v: Vec<(u64, u64)> = gate.held.lock().unwrap().iter().map(|h| (batch_of(h.1), h.2 - h.1)).collect();
    v.sort();
    v
}

fn obs_coq(held: &[(u64, u64)], code: u64) -> String {
    format!("({}, {})", coq_ranges(held), code)
}

async fn script(out: &mut Out, rng: &mut Rng, mx: u64) {
    let cap = *rng.pick(&[1usize, 1, 2, 2, 3, 4]);
    let buf = *rng.pick(&[0u64, 1, 2, 3, 5, 8, 12, 1000]);
    let bs = *rng.pick(&[0u64, 1, 3]);
    let flen = 4096u64;
    let (a, b) = (7u64, rng.below(256));
    let gate = Arc::new(Gate::default());
    let o = open(flen, a, b, bs, cap, buf, None, Some(gate.clone())).await;
    let data = o.data.clone();
    let mut file = Some(o.file);
    let mut sched = Some(o.sched);
    let mut futs: Vec<Option<Fut>> = vec![];
    let mut reqs: Vec<Vec<R>> = vec![];
    let mut evs: Vec<String> = vec![];
    let mut obs: Vec<String> = vec![];
    let mut human_evs = vec![];
    let mut prios: Vec<u64> = (0..12).collect();
    for i in (1..prios.len()).rev() {
        let j = rng.below(i as u64 + 1) as usize;
        prios.swap(i, j);
    }
    let mut max_held = 0usize;
    let mut closed = false;
    let mut bad: Vec<String> = vec![];
    let steps = rng.range(6, 18);
    for step in 0..steps {
        let can_submit = !closed && futs.len() < 8;
        let n_held = gate.held.lock().unwrap().len();
        let unconsumed: Vec<usize> = (0..futs.len()).filter(|j| futs[*j].is_some()).collect();
        let choice = rng.below(100);
        let mut code = 3u64;
        if (choice < 40 || futs.is_empty()) && can_submit {
            let j = futs.len() as u64;
            let k = rng.range(1, 3);
            let sz = rng.range(1, mx.min(6));
            let lo = 300 * j + 10;
            let rs: Vec<R> = (0..k).map(|i| (lo + i * (sz + bs + 5), lo + i * (sz + bs + 5) + sz)).collect();
            let prio = if rng.chance(1, 6) { u64::MAX - prios[j as usize] } else { prios[j as usize] };
            let f = file.as_ref().unwrap().submit_request(rs.iter().map(|r| r.0..r.1).collect(), prio).boxed();
            futs.push(Some(f));
            reqs.push(rs.clone());
            evs.push(format!("QSubmit {} {}", prio, coq_ranges(&rs)));
            human_evs.push(json!({"submit": {"prio": prio, "ranges": rs}}));
        } else if choice < 70 && n_held > 0 {
            let (id, s, e) = {
                let g = gate.held.lock().unwrap();
                let h = &g[rng.below(g.len() as u64) as usize];
                (h.0, h.1, h.2)
            };
            gate.release_id(id);
            evs.push(format!("QComplete {} {}", batch_of(s), e - s));
            human_evs.push(json!({"complete": {"batch": batch_of(s), "range": [s, e]}}));
        } else if choice < 93 && !unconsumed.is_empty() {
            let j = *rng.pick(&unconsumed);
            let polled = futures::poll!(futs[j].as_mut().unwrap().as_mut());
            match polled {
                std::task::Poll::Pending => code = 0,
                std::task::Poll::Ready(Ok(bufs)) => {
                    code = 1;
                    futs[j] = None;
                    let ok = bufs.len() == reqs[j].len() && bufs.iter().zip(reqs[j].iter()).all(|(b, r)| b.as_ref() == &data[r.0 as usize..r.1 as usize]);
                    if !ok {
                        bad.push(format!("batch {j}: wrong bytes"));
                    }
                }
                std::task::Poll::Ready(Err(_)) => {
                    code = 2;
                    futs[j] = None;
                    if !closed {
                        bad.push(format!("batch {j}: error although the scheduler is alive and no read failed"));
                    }
                }
            }
            evs.push(format!("QConsume {}", j));
            human_evs.push(json!({"consume": j, "result": code}));
        } else if !closed && step >= 2 && !futs.is_empty() && rng.chance(1, 3) {
            file = None;
            sched = None;
            closed = true;
            evs.push("QClose".into());
            human_evs.push(json!("close"));
        } else {
            continue;
        }
        settle().await;
        let held = held_obs(&gate);
        max_held = max_held.max(held.len());
        obs.push(obs_coq(&held, code));
    }
    // liveness: let everything finish; every future must resolve
    let mut rounds = 0;
    while futs.iter().any(|f| f.is_some()) && rounds < 400 {
        gate.release_all();
        settle().await;
        for j in 0..futs.len() {
            if let Some(f) = futs[j].as_mut() {
                match futures::poll!(f.as_mut()) {
                    std::task::Poll::Pending => {}
                    std::task::Poll::Ready(Ok(bufs)) => {
                        futs[j] = None;
                        let ok = bufs.len() == reqs[j].len() && bufs.iter().zip(reqs[j].iter()).all(|(b, r)| b.as_ref() == &data[r.0 as usize..r.1 as usize]);
                        if !ok {
                            bad.push(format!("batch {j}: wrong bytes"));
                        }
                    }
                    std::task::Poll::Ready(Err(_)) => {
                        futs[j] = None;
                        if !closed {
                            bad.push(format!("batch {j}: error although the scheduler is alive and no read failed"));
                        }
                    }
                }
            }
        }
        rounds += 1;
    }
    let stuck: Vec<usize> = (0..futs.len()).filter(|j| futs[*j].is_some()).collect();
    drop(file);
    drop(sched);
    let human = json!({"io_capacity": cap, "io_buffer_size": buf, "block_size": bs, "max_iop": mx, "script": human_evs,
        "max_reads_in_flight": max_held, "stuck": stuck});
    out.count("queue:scripts");
    out.count(if closed { "queue:with_close" } else { "queue:no_close" });
    if !stuck.is_empty() {
        out.fail(None, "a submitted request never completed although every read was released (deadlock / lost wake-up)", human.clone());
    } else if max_held > cap {
        out.fail(None, "more reads in flight than io_parallelism allows", human.clone());
    } else if !bad.is_empty() {
        out.fail(None, &format!("queued request returned a wrong result: {}", bad.join("; ")), human.clone());
    } else {
        out.ok();
    }
    out.nontrivial.push(format!("q{cap},{buf},{bs},{mx},{:?}", evs));
    out.case(
        "queue",
        format!("(({}, {}), ({}, {}), [{}])", cap, buf, bs, mx, evs.join("; ")),
        format!("[{}]", obs.join("; ")),
        human,
    );
}

pub fn run(out: &mut Out, rng: &mut Rng, mx: u64, args: &Args) {
    let n = args.vol(30, 120);
    let rt = tokio::runtime::Builder::new_current_thread().enable_all().build().unwrap();
    for _ in 0..n {
        rt.block_on(script(out, rng, mx));
    }
}
