//! An `object_store::ObjectStore` wrapper around `InMemory` that records every ranged read,
//! can fail reads covering a poisoned offset, and can hold reads at a gate until the script
//! releases them (imposed completion order).
use async_trait::async_trait;
use futures::stream::BoxStream;
use object_store::memory::InMemory;
use object_store::path::Path;
use object_store::{
    GetOptions, GetRange, GetResult, ListResult, MultipartUpload, ObjectMeta, ObjectStore, PutMultipartOptions, PutOptions, PutPayload,
    PutResult, Result as OSResult,
};
use std::sync::{Arc, Mutex};
use tokio::sync::oneshot;

#[derive(Default)]
pub struct Gate {
    /// reads that arrived at the store and are being held: (arrival number, start, end, release handle)
    pub held: Mutex<Vec<(u64, u64, u64, oneshot::Sender<()>)>>,
    pub arrivals: Mutex<u64>,
}
impl Gate {
    /// release the held read with this arrival number
    pub fn release_id(&self, id: u64) -> bool {
        let mut g = self.held.lock().unwrap();
        match g.iter().position(|h| h.0 == id) {
            Some(i) => {
                let h = g.remove(i);
                let _ = h.3.send(());
                true
            }
            None => false,
        }
    }
    pub fn release_all(&self) -> usize {
        let mut g = self.held.lock().unwrap();
        let n = g.len();
        for h in g.drain(..) {
            let _ = h.3.send(());
        }
        n
    }
}

pub struct RecStore {
    pub inner: Arc<InMemory>,
    pub log: Mutex<Vec<(u64, u64)>>,
    pub poison: Option<u64>,
    pub gate: Option<Arc<Gate>>,
}
impl RecStore {
    pub fn new(inner: Arc<InMemory>, poison: Option<u64>, gate: Option<Arc<Gate>>) -> Self {
        RecStore { inner, log: Mutex::new(vec![]), poison, gate }
    }
    pub fn reads_sorted(&self) -> Vec<(u64, u64)> {
        let mut v = self.log.lock().unwrap().clone();
        v.sort();
        v
    }
}
impl std::fmt::Debug for RecStore {
    fn fmt(&self, f: &mut std::fmt::Formatter<'_>) -> std::fmt::Result {
        write!(f, "RecStore")
    }
}
impl std::fmt::Display for RecStore {
    fn fmt(&self, f: &mut std::fmt::Formatter<'_>) -> std::fmt::Result {
        write!(f, "RecStore")
    }
}

#[async_trait]
impl ObjectStore for RecStore {
    async fn put_opts(&self, location: &Path, payload: PutPayload, opts: PutOptions) -> OSResult<PutResult> {
        self.inner.put_opts(location, payload, opts).await
    }
    async fn put_multipart_opts(&self, location: &Path, opts: PutMultipartOptions) -> OSResult<Box<dyn MultipartUpload>> {
        self.inner.put_multipart_opts(location, opts).await
    }
    async fn get_opts(&self, location: &Path, options: GetOptions) -> OSResult<GetResult> {
        if let Some(GetRange::Bounded(r)) = &options.range {
            let (s, e) = (r.start, r.end);
            self.log.lock().unwrap().push((s, e));
            if let Some(p) = self.poison {
                if s <= p && p < e {
                    return Err(object_store::Error::Generic { store: "rec", source: "poisoned offset".into() });
                }
            }
            if let Some(g) = &self.gate {
                let (tx, rx) = oneshot::channel();
                {
                    let mut n = g.arrivals.lock().unwrap();
                    *n += 1;
                    g.held.lock().unwrap().push((*n, s, e, tx));
                }
                let _ = rx.await;
            }
        }
        self.inner.get_opts(location, options).await
    }
    async fn delete(&self, location: &Path) -> OSResult<()> {
        self.inner.delete(location).await
    }
    fn list(&self, prefix: Option<&Path>) -> BoxStream<'static, OSResult<ObjectMeta>> {
        self.inner.list(prefix)
    }
    async fn list_with_delimiter(&self, prefix: Option<&Path>) -> OSResult<ListResult> {
        self.inner.list_with_delimiter(prefix).await
    }
    async fn copy(&self, from: &Path, to: &Path) -> OSResult<()> {
        self.inner.copy(from, to).await
    }
    async fn copy_if_not_exists(&self, from: &Path, to: &Path) -> OSResult<()> {
        self.inner.copy_if_not_exists(from, to).await
    }
}

pub fn gen_file(len: u64, a: u64, b: u64) -> Vec<u8> {
    (0..len).map(|i| ((i * a + b) % 256) as u8).collect()
}
