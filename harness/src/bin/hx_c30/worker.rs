//! One worker process = one value of LANCE_MAX_IOP_SIZE (read once per process by lance-io).
//! Runs the real FileScheduler / LanceEncodingsIo / ScanScheduler and writes the observations
//! as JSON for the parent to merge into the correspondence streams.
use crate::queue;
use crate::refimpl::{gen_ranges, known_request_shape, R};
use crate::store::{gen_file, RecStore};
use bytes::Bytes;
use hxlib::util::{coq, Args, Rng};
use lance_encoding::EncodingsIo;
use lance_file::LanceEncodingsIo;
use lance_io::object_store::ObjectStore;
use lance_io::scheduler::{FileScheduler, ScanScheduler, SchedulerConfig};
use lance_io::utils::CachedFileSize;
use object_store::memory::InMemory;
use object_store::path::Path;
use object_store::ObjectStore as _;
use serde_json::{json, Value};
use std::sync::Arc;
use std::time::Duration;

#[derive(Default)]
pub struct Out {
    pub cases: Vec<Value>,   // {stream, in, out, human}
    pub oracle: Vec<Value>,  // {ok, class, what, case}
    pub counts: Vec<String>, // one entry per count() call
    pub nontrivial: Vec<String>,
}
impl Out {
    pub fn case(&mut self, stream: &str, i: String, o: String, human: Value) {
        self.cases.push(json!({"stream": stream, "in": i, "out": o, "human": human}));
    }
    pub fn ok(&mut self) {
        self.oracle.push(json!({"ok": true}));
    }
    pub fn fail(&mut self, class: Option<&str>, what: &str, case: Value) {
        self.oracle.push(json!({"ok": false, "class": class, "what": what, "case": case}));
    }
    pub fn count(&mut self, k: &str) {
        self.counts.push(k.to_string());
    }
}

pub fn coq_ranges(rs: &[R]) -> String {
    coq::list(rs.iter().map(|r| format!("({}, {})", r.0, r.1)))
}
pub fn coq_bufs(bufs: &[Bytes]) -> String {
    coq::list(bufs.iter().map(|b| coq::bytes(b)))
}

pub enum Res {
    Ok(Vec<Bytes>),
    Err,
    Panic,
    Hang,
}
impl Res {
    pub fn coq(&self) -> String {
        match self {
            Res::Ok(b) => format!("(Ok {})", coq_bufs(b)),
            Res::Err => "Err".into(),
            Res::Panic | Res::Hang => "Panic".into(),
        }
    }
    pub fn brief(&self) -> String {
        match self {
            Res::Ok(b) => format!("Ok lens={:?}", b.iter().map(|x| x.len()).collect::<Vec<_>>()),
            Res::Err => "Err".into(),
            Res::Panic => "Panic".into(),
            Res::Hang => "Hang".into(),
        }
    }
}

pub struct Opened {
    pub rec: Arc<RecStore>,
    pub sched: Arc<ScanScheduler>,
    pub file: FileScheduler,
    pub data: Vec<u8>,
}

pub async fn open(flen: u64, a: u64, b: u64, bs: u64, io_par: usize, buf: u64, poison: Option<u64>, gate: Option<Arc<crate::store::Gate>>) -> Opened {
    let data = gen_file(flen, a, b);
    let inner = Arc::new(InMemory::new());
    let path = Path::from("f.bin");
    inner.put(&path, data.clone().into()).await.unwrap();
    let rec = Arc::new(RecStore::new(inner, poison, gate));
    let store = Arc::new(ObjectStore::new(
        rec.clone() as Arc<dyn object_store::ObjectStore>,
        url::Url::parse("memory:///").unwrap(),
        Some(bs as usize),
        None,
        false,
        true,
        io_par,
        lance_io::object_store::DEFAULT_DOWNLOAD_RETRY_COUNT,
        None,
    ));
    let sched = ScanScheduler::new(store, SchedulerConfig { io_buffer_size_bytes: buf });
    let file = sched.open_file(&path, &CachedFileSize::unknown()).await.unwrap();
    Opened { rec, sched, file, data }
}

pub async fn await_res<F>(fut: F) -> Res
where
    F: std::future::Future<Output = lance_core::Result<Vec<Bytes>>> + Send + 'static,
{
    let h = tokio::spawn(fut);
    match tokio::time::timeout(Duration::from_secs(30), h).await {
        Err(_) => Res::Hang,
        Ok(Err(_join)) => Res::Panic,
        Ok(Ok(Ok(b))) => Res::Ok(b),
        Ok(Ok(Err(_))) => Res::Err,
    }
}

fn to_range(rs: &[R]) -> Vec<std::ops::Range<u64>> {
    rs.iter().map(|r| std::ops::Range { start: r.0, end: r.1 }).collect()
}

/// model-independent statement of the property on one result
pub fn exact(data: &[u8], rs: &[R], res: &Res) -> bool {
    match res {
        Res::Ok(bufs) => {
            bufs.len() == rs.len()
                && bufs.iter().zip(rs.iter()).all(|(b, r)| r.0 <= r.1 && (r.1 as usize) <= data.len() && b.as_ref() == &data[r.0 as usize..r.1 as usize])
        }
        _ => false,
    }
}

fn pick_params(rng: &mut Rng) -> (u64, u64, u64, u64, usize, u64) {
    let flen = *rng.pick(&[64u64, 200, 256, 700, 1500, 4096]);
    let a = *rng.pick(&[1u64, 1, 3, 7, 131]);
    let b = rng.below(256);
    let bs = *rng.pick(&[0u64, 0, 1, 2, 4, 7, 16, 33, 64, 300, 5000]);
    let io_par = *rng.pick(&[1usize, 1, 2, 4, 16]);
    let buf = *rng.pick(&[0u64, 1, 5, 50, 1 << 20, 1 << 28]);
    (flen, a, b, bs, io_par, buf)
}

async fn submit_arm(out: &mut Out, rng: &mut Rng, mx: u64, n: usize, corpus: &[(u64, u64, Vec<R>)]) {
    let mut hangs = 0;
    for ci in 0..n + corpus.len() {
        if hangs >= 3 {
            break; // each hang costs the 30 s timeout; three are reported, the rest of the arm is skipped
        }
        let (mut flen, a, b, mut bs, io_par, buf) = pick_params(rng);
        let (rs, kind) = if ci < corpus.len() {
            flen = corpus[ci].0;
            bs = corpus[ci].1;
            (corpus[ci].2.clone(), "corpus")
        } else {
            gen_ranges(rng, flen, bs, mx)
        };
        let cloud_reader = flen > bs; // otherwise lance-io uses SmallReader (one whole-file read)
        let poison = if cloud_reader && ci >= corpus.len() && rng.chance(1, 8) { Some(rng.below(flen)) } else { None };
        let prio = if rng.bool() { 0 } else { rng.next() };
        let o = open(flen, a, b, bs, io_par, buf, poison, None).await;
        let file = o.file.clone();
        let req = to_range(&rs);
        let res = await_res(async move { file.submit_request(req, prio).await }).await;
        let stats = o.sched.stats();
        let human = json!({"file": {"len": flen, "a": a, "b": b}, "block_size": bs, "max_iop": mx, "io_parallelism": io_par, "buffer": buf,
            "poison": poison, "ranges": rs, "kind": kind, "result": res.brief()});
        let in_class = known_request_shape(bs, mx, &rs);
        out.count(&format!("submit:{kind}"));
        out.count(if in_class { "submit:in_class" } else { "submit:in_domain" });
        match &res {
            Res::Hang => {
                hangs += 1;
                out.fail(None, "submit_request did not complete within 30 s", human.clone())
            }
            _ if poison.is_some() => {
                // with a failing read: an error, or the exact bytes (the read was not needed); never wrong bytes
                if matches!(res, Res::Err) || exact(&o.data, &rs, &res) {
                    out.ok()
                } else {
                    out.fail(if in_class { Some("request_shape") } else { None }, "wrong bytes or panic although a read failed", human.clone())
                }
            }
            _ => {
                if exact(&o.data, &rs, &res) {
                    out.ok()
                } else {
                    out.fail(if in_class { Some("request_shape") } else { None }, "response is not one buffer per requested range holding the file's bytes", human.clone())
                }
            }
        }
        let key = format!("{flen},{a},{b},{bs},{mx},{:?},{:?}", poison, rs);
        out.nontrivial.push(key);
        if !matches!(res, Res::Hang) {
            out.case(
                "submit",
                format!("(({}, {}, {}), ({}, {}, {}), {})", flen, a, b, bs, mx, coq::opt(poison.map(coq::n)), coq_ranges(&rs)),
                res.coq(),
                human.clone(),
            );
        }
        out.case("class", format!("(({}, {}), {})", bs, mx, coq_ranges(&rs)), coq::b(in_class), human.clone());
        if cloud_reader && poison.is_none() && !matches!(res, Res::Panic | Res::Hang) {
            let reads = o.rec.reads_sorted();
            out.case(
                "issued",
                format!("(({}, {}), {})", bs, mx, coq_ranges(&rs)),
                format!("({}, ({}, {}))", coq_ranges(&reads), stats.iops, stats.bytes_read),
                json!({"case": human, "reads": reads, "iops": stats.iops, "bytes_read": stats.bytes_read}),
            );
        }
    }
}

async fn encio_arm(out: &mut Out, rng: &mut Rng, mx: u64, n: usize) {
    let mut hangs = 0;
    for _ in 0..n {
        if hangs >= 3 {
            break;
        }
        let (flen, a, b, bs, io_par, buf) = pick_params(rng);
        let chunk = *rng.pick(&[1u64, 2, 3, 5, 8, 13, 40, 100, 1 << 23]);
        // LanceEncodingsIo is fed decoder requests: sorted, mostly disjoint, possibly long
        let (rs, kind) = loop {
            let (rs, kind) = gen_ranges(rng, flen, bs, chunk.min(40));
            if kind == "disjoint" || kind == "overlap" || kind == "with_empty" || rng.chance(1, 6) {
                break (rs, kind);
            }
        };
        let prio = rng.below(1000);
        let o = open(flen, a, b, bs, io_par, buf, None, None).await;
        let io = LanceEncodingsIo::new(o.file.clone()).with_read_chunk_size(chunk);
        let req = to_range(&rs);
        // what reaches FileScheduler::submit_request decides the class
        let mut split: Vec<R> = vec![];
        for r in &rs {
            let size = r.1.saturating_sub(r.0);
            if size > chunk {
                let nchunks = size / chunk + if size % chunk == 0 { 0 } else { 1 };
                let cs = size / nchunks;
                for i in 0..nchunks {
                    let s = r.0 + i * cs;
                    split.push((s, if i == nchunks - 1 { r.1 } else { s + cs }));
                }
            } else {
                split.push(*r);
            }
        }
        let in_class = known_request_shape(bs, mx, &split);
        let res = await_res(async move { io.submit_request(req, prio).await }).await;
        let human = json!({"file": {"len": flen, "a": a, "b": b}, "block_size": bs, "max_iop": mx, "read_chunk_size": chunk,
            "ranges": rs, "kind": kind, "result": res.brief()});
        out.count(&format!("encio:{kind}"));
        out.count(if in_class { "encio:in_class" } else { "encio:in_domain" });
        match &res {
            Res::Hang => {
                hangs += 1;
                out.fail(None, "LanceEncodingsIo::submit_request did not complete within 30 s", human.clone())
            }
            _ => {
                if exact(&o.data, &rs, &res) {
                    out.ok()
                } else {
                    out.fail(if in_class { Some("request_shape") } else { None }, "LanceEncodingsIo response is not one buffer per requested range holding the file's bytes", human.clone())
                }
            }
        }
        out.nontrivial.push(format!("e{flen},{a},{b},{bs},{mx},{chunk},{:?}", rs));
        if !matches!(res, Res::Hang) {
            out.case("encio", format!("(({}, {}, {}), ({}, {}, {}), {})", flen, a, b, bs, mx, chunk, coq_ranges(&rs)), res.coq(), human);
        }
    }
}

/// many concurrent in-domain requests on a multi-thread runtime with small budgets and mixed
/// priorities; every future is driven by its own task (fair consumption); all must complete
async fn stress_arm(out: &mut Out, rng: &mut Rng, mx: u64, n: usize) {
    for _ in 0..n {
        let flen = 4096u64;
        let (a, b) = (*rng.pick(&[1u64, 7, 131]), rng.below(256));
        let bs = *rng.pick(&[0u64, 2, 16, 64]);
        let io_par = *rng.pick(&[1usize, 2, 4]);
        let buf = *rng.pick(&[0u64, 1, 10, 100, 4000]);
        let o = open(flen, a, b, bs, io_par, buf, None, None).await;
        let m = rng.range(5, 40) as usize;
        let mut handles = vec![];
        let mut reqs = vec![];
        for _ in 0..m {
            let rs = loop {
                let (rs, _) = gen_ranges(rng, flen, bs, mx);
                if !known_request_shape(bs, mx, &rs) {
                    break rs;
                }
            };
            let prio = match rng.below(3) {
                0 => 0,
                1 => rng.below(4),
                _ => rng.next(),
            };
            let file = if rng.bool() { o.file.clone() } else { o.file.with_priority(rng.below(3)) };
            let req = to_range(&rs);
            handles.push(tokio::spawn(async move { file.submit_request(req, prio).await }));
            reqs.push(rs);
        }
        let deadline = tokio::time::Instant::now() + Duration::from_secs(60);
        let mut problems = vec![];
        for (j, h) in handles.into_iter().enumerate() {
            match tokio::time::timeout_at(deadline, h).await {
                Err(_) => problems.push(format!("request {j} did not complete within 60 s")),
                Ok(Err(_)) => problems.push(format!("request {j} panicked")),
                Ok(Ok(Err(_))) => problems.push(format!("request {j} failed")),
                Ok(Ok(Ok(bufs))) => {
                    if !exact(&o.data, &reqs[j], &Res::Ok(bufs)) {
                        problems.push(format!("request {j} returned wrong bytes"));
                    }
                }
            }
        }
        out.count("stress:runs");
        let human = json!({"file": {"len": flen, "a": a, "b": b}, "block_size": bs, "max_iop": mx, "io_parallelism": io_par, "buffer": buf,
            "requests": m, "problems": problems.iter().take(5).collect::<Vec<_>>(), "first_requests": reqs.iter().take(3).collect::<Vec<_>>()});
        if problems.is_empty() {
            out.ok()
        } else {
            out.fail(None, "concurrent in-domain requests: not all completed with the exact bytes", human)
        }
    }
}

/// inputs of finding F8 (DESIGN.md §6) and boundary cases; run first in every worker
fn corpus() -> Vec<(u64, u64, Vec<R>)> {
    vec![
        (4096, 4, vec![(5, 5)]),
        (4096, 4, vec![(100, 200), (0, 50)]),
        (4096, 4, vec![(3000, 3100), (10, 20), (3050, 3060)]),
        (4096, 0, vec![(0, 3), (0, 4)]),
        (4096, 4, vec![(10, 20), (15, 18)]),
        (4096, 4, vec![(0, 50), (20, 30), (40, 60)]),
        (4096, 4, vec![(0, 10), (10, 10), (10, 20)]),
        (4096, 0, vec![(0, 10), (5, 5)]),
        (256, 0, vec![(0, 256)]),
        (256, 300, vec![(0, 256)]),
        (256, 1, vec![(0, 7), (8, 15), (17, 30)]),
        (256, 0, vec![]),
    ]
}

pub fn run(args: &Args) -> i32 {
    if std::env::var("VERIF_C30_DEBUG").is_err() {
        std::panic::set_hook(Box::new(|_| {}));
    }
    let mx = *lance_io::object_store::DEFAULT_MAX_IOP_SIZE;
    let widx: u64 = args.rest.iter().position(|x| x == "--widx").and_then(|i| args.rest.get(i + 1)).and_then(|x| x.parse().ok()).unwrap_or(0);
    let mut rng = Rng::new(args.seed.wrapping_mul(1_000_003).wrapping_add(widx));
    let rt = tokio::runtime::Builder::new_multi_thread().worker_threads(3).enable_all().build().unwrap();
    let mut out = Out::default();
    let n_submit = args.vol(170, 600);
    let n_encio = args.vol(50, 200);
    let n_stress = args.vol(4, 12);
    let n_file = args.vol(6, 24);
    let only_file = std::env::var("VERIF_C30_DEBUG").map(|v| v == "file").unwrap_or(false);
    rt.block_on(async {
        if only_file {
            crate::filearm::run(&mut out, &mut rng, mx, 40).await;
            return;
        }
        submit_arm(&mut out, &mut rng, mx, n_submit, &corpus()).await;
        encio_arm(&mut out, &mut rng, mx, n_encio).await;
        stress_arm(&mut out, &mut rng, mx, n_stress).await;
        crate::filearm::run(&mut out, &mut rng, mx, n_file).await;
    });
    drop(rt);
    queue::run(&mut out, &mut rng, mx, args);
    let v = json!({"mx": mx, "cases": out.cases, "oracle": out.oracle, "counts": out.counts, "nontrivial": out.nontrivial});
    std::fs::write(args.out.join(format!("worker_{widx}.json")), serde_json::to_string(&v).unwrap()).unwrap();
    0
}
