//! Whole scans through the public FilteredReadExec with a SYNTHETIC index result (kind, row-address
//! mask, applicable fragments chosen by the harness): the rows delivered by the real stream are
//! compared with the model's `run_scan` (stream `run_scan`), with a brute-force reference (oracle), and
//! the Rust copy of the finding-class predicate with the Coq one (stream `class`).
use crate::unit::coq_ranges;
use crate::{CLASS_PUSHDOWN, REQ};
use arrow_array::{Int32Array, RecordBatch, RecordBatchIterator};
use arrow_schema::{DataType, Field, Schema};
use futures::TryStreamExt;
use hxlib::util::{coq, Args, Rng, Sink, Stream};
use lance::dataset::{WriteMode, WriteParams};
use lance::deps::datafusion::execution::TaskContext;
use lance::deps::datafusion::physical_plan::stream::RecordBatchStreamAdapter;
use lance::deps::datafusion::physical_plan::ExecutionPlan;
use lance::io::exec::filtered_read::{FilteredReadExec, FilteredReadOptions};
use lance::Dataset;
use lance_core::datatypes::OnMissing;
use lance_core::utils::mask::{RowIdMask, RowIdTreeMap};
use lance_datafusion::exec::OneShotExec;
use lance_datafusion::planner::Planner;
use lance_index::scalar::expression::{IndexExprResult, INDEX_EXPR_RESULT_SCHEMA};
use roaring::RoaringBitmap;
use serde_json::json;
use std::ops::Range;
use std::sync::Arc;

#[derive(Clone, Copy, Debug, PartialEq)]
pub enum Kind {
    Exact,
    AtMost,
    AtLeast,
}

/// the table as the harness knows it
pub struct Tbl {
    pub ds: Arc<Dataset>,
    pub rows_per_frag: u64,
    /// per fragment in dataset order: (fragment id, sorted deleted offsets or None when no deletion file)
    pub frags: Vec<(u64, Option<Vec<u64>>)>,
    _dir: tempfile::TempDir,
}

async fn make_table(nfrag: u64, rpf: u64, delete_ids: &[i32]) -> Tbl {
    let schema = Arc::new(Schema::new(vec![Field::new("id", DataType::Int32, false)]));
    let ids = Int32Array::from((0..(nfrag * rpf) as i32).collect::<Vec<_>>());
    let batch = RecordBatch::try_new(schema.clone(), vec![Arc::new(ids)]).unwrap();
    let dir = tempfile::tempdir().unwrap();
    let uri = dir.path().join("t").to_string_lossy().to_string();
    let params = WriteParams { max_rows_per_file: rpf as usize, max_rows_per_group: 4, mode: WriteMode::Create, ..Default::default() };
    let mut ds = Dataset::write(RecordBatchIterator::new(vec![Ok(batch)], schema.clone()), &uri, Some(params)).await.unwrap();
    if !delete_ids.is_empty() {
        let l: Vec<String> = delete_ids.iter().map(|x| x.to_string()).collect();
        ds.delete(&format!("id IN ({})", l.join(","))).await.unwrap();
    }
    let mut frags = vec![];
    for f in ds.get_fragments() {
        let dv = f.get_deletion_vector().await.unwrap();
        let dels = dv.map(|d| {
            let mut v: Vec<u64> = d.to_sorted_iter().map(|x| x as u64).collect();
            v.sort();
            v
        });
        frags.push((f.id() as u64, dels));
    }
    Tbl { ds: Arc::new(ds), rows_per_frag: rpf, frags, _dir: dir }
}

pub struct Case {
    pub before: Option<Range<u64>>,
    pub after: Option<Range<u64>>,
    pub with_deleted: bool,
    pub index: Option<Kind>,
    /// per fragment position: Some(sorted offsets in the mask) when the fragment is applicable
    pub matched: Vec<Option<Vec<u64>>>,
    /// per fragment position: offsets on which the predicate is TRUE
    pub refine: Option<Vec<Vec<u64>>>,
    pub full: Option<Vec<Vec<u64>>>,
    pub batch_size: Option<u32>,
    pub frag_readahead: Option<usize>,
}

fn to_ranges(offs: &[u64]) -> Vec<Range<u64>> {
    let mut out: Vec<Range<u64>> = vec![];
    for &o in offs {
        match out.last_mut() {
            Some(r) if r.end == o => r.end = o + 1,
            _ => out.push(o..o + 1),
        }
    }
    out
}
fn id_filter(t: &Tbl, tbl: &[Vec<u64>]) -> String {
    let mut ids: Vec<String> = vec![];
    for (pos, offs) in tbl.iter().enumerate() {
        for o in offs {
            ids.push(format!("{}", t.frags[pos].0 * t.rows_per_frag + o));
        }
    }
    if ids.is_empty() {
        "id < 0".to_string()
    } else {
        format!("id IN ({})", ids.join(","))
    }
}

fn live(t: &Tbl, pos: usize, with_deleted: bool) -> Vec<u64> {
    let dels: &[u64] = if with_deleted { &[] } else { t.frags[pos].1.as_deref().unwrap_or(&[]) };
    (0..t.rows_per_frag).filter(|o| !dels.contains(o)).collect()
}

/// brute force: the reference result and the finding-class predicate
fn reference(t: &Tbl, c: &Case) -> (Vec<(u64, u64)>, bool) {
    let nf = t.frags.len();
    // without a full filter (take-style read) the answer is the Exact mask on covered fragments, every row elsewhere
    let is_full = |pos: usize, off: u64| match &c.full {
        Some(f) => f[pos].contains(&off),
        None => c.matched[pos].as_ref().filter(|_| c.index.is_some()).map(|m| m.contains(&off)).unwrap_or(true),
    };
    // rows inside the before-filter range, per fragment
    let mut per_frag: Vec<Vec<u64>> = vec![];
    let mut g = 0u64;
    for pos in 0..nf {
        let mut v = vec![];
        for off in live(t, pos, c.with_deleted) {
            if c.before.as_ref().map(|b| g >= b.start && g < b.end).unwrap_or(true) {
                v.push(off);
            }
            g += 1;
        }
        per_frag.push(v);
    }
    let matching: Vec<(u64, u64)> = per_frag.iter().enumerate().flat_map(|(pos, v)| v.iter().filter(move |o| is_full(pos, **o)).map(move |o| (pos as u64, *o))).collect();
    let (s, e) = c.after.as_ref().map(|r| (r.start, r.end)).unwrap_or((0, u64::MAX));
    let reference: Vec<(u64, u64)> = matching.iter().skip(s.min(1 << 20) as usize).take(e.saturating_sub(s).min(1 << 20) as usize).cloned().collect();
    // class: the limit is pushed into index-vouched rows while an earlier matching row is not vouched for
    let mut known = false;
    if c.refine.is_none() && e > s {
        let vouches = matches!(c.index, Some(Kind::Exact) | Some(Kind::AtLeast));
        let need = (s as u128) + (e - s) as u128;
        let mut have: u128 = 0;
        let mut unacc = false;
        for pos in 0..nf {
            // fragments after the end of the before-filter range are never visited
            let acc: Vec<u64> = match (&c.matched[pos], vouches) {
                (Some(m), true) => per_frag[pos].iter().filter(|o| m.contains(o)).cloned().collect(),
                _ => vec![],
            };
            if per_frag[pos].iter().any(|o| is_full(pos, *o) && !acc.contains(o)) {
                unacc = true;
            }
            have += acc.len() as u128;
            if c.before.is_some() && per_frag[pos].is_empty() {
                continue; // skipped by `continue` (or past the range): to_take is not examined
            }
            if have >= need {
                known = unacc;
                break;
            }
        }
    }
    (reference, known)
}

async fn run_real(t: &Tbl, c: &Case) -> Result<Vec<(u64, u64)>, String> {
    let ds = t.ds.clone();
    let proj = ds.empty_projection().union_column("id", OnMissing::Error).map_err(|e| e.to_string())?;
    let mut opts = FilteredReadOptions::new(proj);
    let planner = Planner::new(Arc::new(Schema::from(ds.schema())));
    let mk = |s: String| -> Result<_, String> {
        let e = planner.parse_filter(&s).map_err(|e| e.to_string())?;
        planner.optimize_expr(e).map_err(|e| e.to_string())
    };
    let refine = match &c.refine {
        Some(r) => Some(mk(id_filter(t, r))?),
        None => None,
    };
    let full = match &c.full {
        Some(r) => Some(mk(id_filter(t, r))?),
        None => None,
    };
    opts = opts.with_filter(refine, full).map_err(|e| e.to_string())?;
    if c.with_deleted {
        opts = opts.with_deleted_rows().map_err(|e| e.to_string())?;
    }
    if let Some(b) = &c.before {
        opts = opts.with_scan_range_before_filter(b.clone()).map_err(|e| e.to_string())?;
    }
    if let Some(a) = &c.after {
        opts = opts.with_scan_range_after_filter(a.clone()).map_err(|e| e.to_string())?;
    }
    if let Some(b) = c.batch_size {
        opts = opts.with_batch_size(b);
    }
    if let Some(f) = c.frag_readahead {
        opts = opts.with_fragment_readahead(f);
    }
    let index_input: Option<Arc<dyn ExecutionPlan>> = match c.index {
        None => None,
        Some(k) => {
            let mut tm = RowIdTreeMap::new();
            let mut cover = RoaringBitmap::new();
            for (pos, m) in c.matched.iter().enumerate() {
                if let Some(offs) = m {
                    cover.insert(t.frags[pos].0 as u32);
                    for o in offs {
                        tm.insert((t.frags[pos].0 << 32) | o);
                    }
                }
            }
            let mask = RowIdMask::from_allowed(tm);
            let res = match k {
                Kind::Exact => IndexExprResult::Exact(mask),
                Kind::AtMost => IndexExprResult::AtMost(mask),
                Kind::AtLeast => IndexExprResult::AtLeast(mask),
            };
            let batch = res.serialize_to_arrow(&cover).map_err(|e| e.to_string())?;
            let stream = futures::stream::once(async move { Ok(batch) });
            let stream = Box::pin(RecordBatchStreamAdapter::new(INDEX_EXPR_RESULT_SCHEMA.clone(), stream));
            Some(Arc::new(OneShotExec::new(stream)))
        }
    };
    let plan = FilteredReadExec::try_new(ds.clone(), opts, index_input).map_err(|e| e.to_string())?;
    let stream = plan.execute(0, Arc::new(TaskContext::default())).map_err(|e| e.to_string())?;
    let batches: Vec<RecordBatch> = stream.try_collect().await.map_err(|e| e.to_string())?;
    let mut out = vec![];
    for b in batches {
        let a = b.column_by_name("id").unwrap().as_any().downcast_ref::<Int32Array>().unwrap().clone();
        for v in a.values().iter() {
            let fid = (*v as u64) / t.rows_per_frag;
            let pos = t.frags.iter().position(|f| f.0 == fid).ok_or_else(|| format!("row of unknown fragment {fid}"))?;
            out.push((pos as u64, (*v as u64) % t.rows_per_frag));
        }
    }
    Ok(out)
}

fn subset(rng: &mut Rng, of: &[u64], num: u64, den: u64) -> Vec<u64> {
    of.iter().filter(|_| rng.chance(num, den)).cloned().collect()
}

fn gen_case(rng: &mut Rng, t: &Tbl, corpus: Option<&str>) -> (Case, bool) {
    let nf = t.frags.len();
    let all: Vec<u64> = (0..t.rows_per_frag).collect();
    let total: u64 = (0..nf).map(|p| live(t, p, false).len() as u64).sum();
    let index = match rng.below(8) {
        0 | 1 => None,
        2 | 3 | 4 => Some(Kind::Exact),
        5 => Some(Kind::AtMost),
        _ => Some(Kind::AtLeast),
    };
    let has_refine = rng.chance(1, 3);
    let guaranteed = !rng.chance(1, 10);
    let with_deleted = rng.chance(1, 20);
    // indexed part I, refine part R, full = I and R
    let dens = rng.range(1, 4);
    let idx_t: Vec<Vec<u64>> = (0..nf).map(|_| subset(rng, &all, dens, 4)).collect();
    let ref_t: Vec<Vec<u64>> = (0..nf).map(|_| if has_refine { subset(rng, &all, 3, 4) } else { all.clone() }).collect();
    let full_t: Vec<Vec<u64>> = (0..nf).map(|p| idx_t[p].iter().filter(|o| ref_t[p].contains(o)).cloned().collect()).collect();
    let mut matched: Vec<Option<Vec<u64>>> = vec![None; nf];
    if let Some(k) = index {
        let pattern = rng.below(5);
        for p in 0..nf {
            let applicable = match pattern {
                0 => true,
                1 => p + 1 != nf,          // last fragment not covered (appended after index creation)
                2 => p != 0,               // FIRST fragment not covered
                _ => rng.chance(3, 4),
            };
            if !applicable {
                continue;
            }
            let m: Vec<u64> = if !guaranteed {
                subset(rng, &all, 1, 2)
            } else {
                match k {
                    Kind::Exact => {
                        // truth on live rows; anything on deleted rows
                        let dels = if with_deleted { vec![] } else { t.frags[p].1.clone().unwrap_or_default() };
                        all.iter().filter(|o| if dels.contains(o) { rng.bool() } else { idx_t[p].contains(o) }).cloned().collect()
                    }
                    Kind::AtMost => all.iter().filter(|o| idx_t[p].contains(o) || rng.chance(1, 3)).cloned().collect(),
                    Kind::AtLeast => {
                        let num = if rng.bool() { 4 } else { 2 };
                        idx_t[p].iter().filter(|_| rng.chance(num, 4)).cloned().collect()
                    }
                }
            };
            matched[p] = Some(m);
        }
    }
    let range = |rng: &mut Rng, hi: u64| -> Range<u64> {
        let s = match rng.below(5) {
            0 => 0,
            _ => rng.below(hi + 2),
        };
        let e = match rng.below(6) {
            0 => s,
            1 => s + 1,
            2 => hi + 3,
            _ => s + rng.below(hi + 2),
        };
        s..e
    };
    let has_full = !(index == Some(Kind::Exact) && !has_refine && guaranteed && rng.chance(1, 8));
    let mut c = Case {
        before: if !with_deleted && rng.chance(1, 3) { Some(range(rng, total)) } else { None },
        after: if !with_deleted && rng.chance(2, 3) { Some(if rng.chance(1, 2) { 0..rng.below(total + 2) } else { range(rng, total) }) } else { None },
        with_deleted,
        index,
        matched,
        refine: if has_refine { Some(ref_t.clone()) } else { None },
        full: Some(full_t.clone()),
        batch_size: if rng.chance(2, 3) { Some(rng.range(1, 4) as u32) } else { None },
        frag_readahead: if rng.bool() { Some(rng.range(1, 3) as usize) } else { None },
    };
    if !has_full {
        // take-style read: no filters at all, the Exact mask is the answer on covered fragments
        c.full = None;
        c.refine = None;
    }
    if let Some(name) = corpus {
        // DESIGN section 6 inputs (F11, F20a) on whatever table this is
        c.before = None;
        c.with_deleted = false;
        c.batch_size = None;
        let lo = t.rows_per_frag * 3 / 4;
        match name {
            "F11-limit2" | "F11-limit2-offset1" => {
                // index Exact on `x >= 0` (every row), refine `y = 1` true on the last quarter of each fragment
                c.index = Some(Kind::Exact);
                c.matched = (0..nf).map(|_| Some(all.clone())).collect();
                let r: Vec<Vec<u64>> = (0..nf).map(|_| (lo..t.rows_per_frag).collect()).collect();
                c.refine = Some(r.clone());
                c.full = Some(r);
                c.after = Some(if name == "F11-limit2" { 0..2 } else { 1..3 });
            }
            _ => {
                // F20a: AtLeast(empty): the index knows nothing
                c.index = Some(Kind::AtLeast);
                c.matched = (0..nf).map(|_| Some(vec![])).collect();
                c.refine = None;
                c.full = Some((0..nf).map(|_| all.iter().filter(|o| *o % 3 == 0).cloned().collect()).collect());
                c.after = None;
            }
        }
        return (c, true);
    }
    if c.full.is_none() {
        c.after = if c.index.is_some() { c.after } else { None };
    }
    (c, guaranteed)
}

fn coq_offs(v: &[u64]) -> String {
    coq::list(v.iter().map(|x| coq::n(*x)))
}
fn coq_orange(r: &Option<Range<u64>>) -> String {
    coq::opt(r.as_ref().map(|r| coq::pair(&coq::n(r.start), &coq::n(r.end))))
}
fn coq_case(t: &Tbl, c: &Case) -> (String, String, String, String) {
    let kind = coq::opt(c.index.map(|k| format!("{k:?}")));
    let opts = format!(
        "{{| o_before := {}; o_after := {}; o_with_deleted := {}; o_has_refine := {}; o_index := {} |}}",
        coq_orange(&c.before),
        coq_orange(&c.after),
        coq::b(c.with_deleted),
        coq::b(c.refine.is_some()),
        kind
    );
    let frs = coq::list(t.frags.iter().enumerate().map(|(p, (_, dels))| {
        let dv = if c.with_deleted { None } else { dels.clone() };
        let logical = t.rows_per_frag - dels.as_ref().map(|d| d.len() as u64).unwrap_or(0);
        format!(
            "{{| f_phys := {}; f_logical := {}; f_dv := {}; f_matched := {} |}}",
            t.rows_per_frag,
            logical,
            coq::opt(dv.map(|d| coq_offs(&d))),
            coq::opt(c.matched[p].as_ref().filter(|_| c.index.is_some()).map(|m| coq_ranges(&to_ranges(m))))
        )
    }));
    let all: Vec<u64> = (0..t.rows_per_frag).collect();
    let tbl = |x: &Option<Vec<Vec<u64>>>| -> String {
        match x {
            Some(v) => coq::list(v.iter().map(|o| coq_offs(o))),
            None => coq::list(t.frags.iter().map(|_| coq_offs(&all))),
        }
    };
    // without a full filter the model's full predicate is: in the mask on covered fragments, everything elsewhere
    let full = match &c.full {
        Some(_) => tbl(&c.full),
        None => coq::list((0..t.frags.len()).map(|p| coq_offs(c.matched[p].as_ref().filter(|_| c.index.is_some()).unwrap_or(&all)))),
    };
    (opts, frs, tbl(&c.refine), full)
}

pub async fn run(args: &Args, sink: &mut Sink) {
    let mut rng = Rng::new(args.seed ^ 0x16A);
    let mut s_run = Stream::new("run_scan", REQ, "chk_run_scan", "opts * list frag * list (list N) * list (list N)", "outcome (list (N * N))");
    s_run.shard = 400;
    let mut s_cls = Stream::new("class", REQ, "chk_class", "opts * list frag * list (list N)", "bool");
    s_cls.shard = 400;
    // tables: (fragments, rows per fragment, deleted ids)
    let mut shapes: Vec<(u64, u64, Vec<i32>)> = vec![(1, 20, vec![]), (2, 6, vec![1, 2, 7]), (3, 5, vec![0, 4, 5, 6, 7, 8, 9, 12]), (4, 4, vec![5, 15])];
    for _ in 0..args.vol(2, 12) {
        let nf = rng.range(1, 4);
        let rpf = rng.range(2, 9);
        let dels: Vec<i32> = (0..(nf * rpf) as i32).filter(|_| rng.chance(1, 4)).collect();
        shapes.push((nf, rpf, dels));
    }
    let per_table = args.vol(60, 400);
    let mut known_seen = 0u64;
    for (ti, (nf, rpf, dels)) in shapes.iter().enumerate() {
        let t = make_table(*nf, *rpf, dels).await;
        if t.frags.is_empty() {
            continue;
        }
        sink.count(&format!("plan/table/{}frags", t.frags.len()));
        for k in 0..per_table {
            let corpus = if ti == 0 { ["F11-limit2", "F11-limit2-offset1", "F20a-atleast-empty"].get(k).copied() } else { None };
            let (mut c, guaranteed) = gen_case(&mut rng, &t, corpus);
            if c.full.is_none() && c.index.is_none() {
                c.after = None;
            }
            let (want, known) = reference(&t, &c);
            let got = run_real(&t, &c).await;
            let (o, frs, rt, ft) = coq_case(&t, &c);
            let human = json!({
                "table": {"fragments": t.frags.iter().map(|f| json!({"id": f.0, "deleted": f.1})).collect::<Vec<_>>(), "rows_per_fragment": t.rows_per_frag},
                "before": c.before.as_ref().map(|r| [r.start, r.end]), "after": c.after.as_ref().map(|r| [r.start, r.end]),
                "with_deleted": c.with_deleted, "index": c.index.map(|k| format!("{k:?}")), "mask_offsets_per_covered_fragment": c.matched,
                "refine_true_on": c.refine, "full_true_on": c.full, "batch_size": c.batch_size, "corpus": corpus,
                "got": got.as_ref().map(|v| v.iter().map(|r| [r.0, r.1]).collect::<Vec<_>>()).map_err(|e| e.clone()),
                "reference": want.iter().map(|r| [r.0, r.1]).collect::<Vec<_>>(),
            });
            sink.count(&format!("plan/index/{}", c.index.map(|k| format!("{k:?}")).unwrap_or("none".into())));
            if c.refine.is_some() {
                sink.count("plan/with_refine");
            }
            if c.after.is_some() {
                sink.count("plan/after_range");
            }
            if c.before.is_some() {
                sink.count("plan/before_range");
            }
            if known {
                sink.count("plan/in_class");
            }
            sink.nontrivial(&format!("plan{o}{frs}{rt}{ft}"));
            // oracle: brute force (only where the index result keeps its promise)
            if guaranteed {
                match &got {
                    Ok(g) if *g == want => sink.oracle_ok(),
                    _ => {
                        if known {
                            known_seen += 1;
                            sink.oracle_fail(Some(CLASS_PUSHDOWN), "FilteredReadExec rows differ from OFFSET/LIMIT of the rows satisfying the filter (limit pushed into index-vouched rows)", human.clone());
                        } else {
                            sink.oracle_fail(None, "FilteredReadExec rows differ from OFFSET/LIMIT of the rows satisfying the filter", human.clone());
                        }
                    }
                }
            }
            let out = coq::outcome(&got.as_ref().map(|v| coq::list(v.iter().map(|r| coq::pair(&coq::n(r.0), &coq::n(r.1))))).map_err(|_| false));
            s_run.push(coq::tuple(&[o.clone(), frs.clone(), rt, ft.clone()]), out, human.clone());
            if c.full.is_some() {
                s_cls.push(coq::tuple(&[o, frs, ft]), coq::b(known), human);
            }
        }
    }
    sink.notes.push(format!("plan arm: {} synthetic-index scans failed the brute-force oracle inside class {}", known_seen, CLASS_PUSHDOWN));
    sink.add(s_run);
    sink.add(s_cls);
}
