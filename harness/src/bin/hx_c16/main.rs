//! hx_c16: C16 — scanner results equal a reference query and do not depend on execution knobs.
//! Arms: `unit` (range helpers through the verif hooks + safe_coerce_scalar + the reference evaluator
//! vs the Gallina model), `plan` (whole FilteredReadExec scans with a synthetic index result vs the
//! model's run_scan, plus the brute-force oracle), `e2e` (Scanner differential: every knob setting vs a
//! brute-force reference evaluator).
mod e2e;
mod expr;
mod planarm;
mod unit;

use hxlib::util::{Args, Sink};

pub const REQ: &str = "Common.Base Index.Model_ScanPlan";
pub const CLASS_PUSHDOWN: &str = "limit_pushdown_skips_unguaranteed_rows";
pub const CLASS_BITMAP_RANGE: &str = "bitmap_index_inverted_range_panic";
pub const CLASS_LIMIT0: &str = "limit_zero_ignored";
pub const CLASS_ORDER_UNPROJ: &str = "order_by_unprojected_column";

fn run(args: &Args) -> i32 {
    let mut sink = Sink::new("C16", &args.out);
    let only: Option<String> = args.rest.iter().position(|a| a == "--only").and_then(|i| args.rest.get(i + 1).cloned());
    let want = |n: &str| only.as_deref().map(|o| o == n).unwrap_or(true);
    if want("unit") {
        unit::run(args, &mut sink);
    }
    let rt = tokio::runtime::Builder::new_multi_thread().worker_threads(4).enable_all().build().unwrap();
    if want("plan") {
        rt.block_on(planarm::run(args, &mut sink));
    }
    if want("e2e") {
        rt.block_on(e2e::run(args, &mut sink));
    }
    // mandatory sanity test of the check itself (CONTRIB): HX_C16_PLANT=1 records one wrong implementation
    // output (as if intersect_ranges had returned [5..11) for [0..10) x [5..15)) - `check` must report a DIFF
    if std::env::var("HX_C16_PLANT").is_ok() {
        let mut s = hxlib::util::Stream::new("planted", REQ, "chk_intersect", "ranges * ranges", "outcome ranges");
        s.push("([(0, 10)], [(5, 15)])".into(), "(Ok [(5, 11)])".into(), serde_json::json!({"planted": "wrong intersect_ranges output"}));
        sink.add(s);
    }
    sink.finish();
    0
}

fn main() {
    let (sub, args) = Args::parse();
    let code = match sub.as_str() {
        "c16" => run(&args),
        _ => {
            eprintln!("unknown subcommand {sub}");
            2
        }
    };
    std::process::exit(code);
}
