//! The small filter language of the end-to-end arm: AST, SQL text, brute-force three-valued
//! evaluation (written against SQL semantics, not against Lance or the Coq model), Coq rendering of
//! the integer sub-language.
use hxlib::util::{coq, Rng};

#[derive(Clone, Debug, PartialEq)]
pub enum Cell {
    Null,
    I(i128),
    F(f64),
    S(String),
    B(bool),
}
#[derive(Clone, Copy, Debug, PartialEq)]
pub enum Cmp {
    Eq,
    Ne,
    Lt,
    Le,
    Gt,
    Ge,
}
#[derive(Clone, Debug)]
pub enum E {
    Cmp(Cmp, usize, Cell),
    And(Box<E>, Box<E>),
    Or(Box<E>, Box<E>),
    Not(Box<E>),
    IsNull(usize),
    In(usize, Vec<Cell>),
    Between(usize, Cell, Cell),
}
pub type Tv = Option<bool>;

pub fn tv_and(a: Tv, b: Tv) -> Tv {
    match (a, b) {
        (Some(false), _) | (_, Some(false)) => Some(false),
        (Some(true), Some(true)) => Some(true),
        _ => None,
    }
}
pub fn tv_or(a: Tv, b: Tv) -> Tv {
    match (a, b) {
        (Some(true), _) | (_, Some(true)) => Some(true),
        (Some(false), Some(false)) => Some(false),
        _ => None,
    }
}
/// SQL comparison of two non-null values of the same family; floats compare numerically
/// (the generator never lets a NaN meet `>`/`>=`, and never uses a zero literal, see e2e.rs)
fn cmp_cells(c: Cmp, x: &Cell, y: &Cell) -> Tv {
    use std::cmp::Ordering::*;
    let ord = match (x, y) {
        (Cell::Null, _) | (_, Cell::Null) => return None,
        (Cell::I(a), Cell::I(b)) => a.cmp(b),
        (Cell::F(a), Cell::F(b)) => match a.partial_cmp(b) {
            Some(o) => o,
            None => {
                // a NaN operand: `=`,`<`,`<=` are false and `<>` is true under IEEE and under a total order alike
                return Some(matches!(c, Cmp::Ne));
            }
        },
        (Cell::I(a), Cell::F(b)) => (*a as f64).partial_cmp(b).unwrap_or(Less),
        (Cell::F(a), Cell::I(b)) => match a.partial_cmp(&(*b as f64)) {
            Some(o) => o,
            None => return Some(matches!(c, Cmp::Ne)),
        },
        (Cell::S(a), Cell::S(b)) => a.as_bytes().cmp(b.as_bytes()),
        (Cell::B(a), Cell::B(b)) => a.cmp(b),
        _ => panic!("type mismatch in reference evaluator: {x:?} vs {y:?}"),
    };
    Some(match c {
        Cmp::Eq => ord == Equal,
        Cmp::Ne => ord != Equal,
        Cmp::Lt => ord == Less,
        Cmp::Le => ord != Greater,
        Cmp::Gt => ord == Greater,
        Cmp::Ge => ord != Less,
    })
}
pub fn eval(e: &E, row: &[Cell]) -> Tv {
    match e {
        E::Cmp(c, col, lit) => cmp_cells(*c, &row[*col], lit),
        E::And(a, b) => tv_and(eval(a, row), eval(b, row)),
        E::Or(a, b) => tv_or(eval(a, row), eval(b, row)),
        E::Not(a) => eval(a, row).map(|x| !x),
        E::IsNull(col) => Some(row[*col] == Cell::Null),
        E::In(col, lits) => lits.iter().fold(Some(false), |acc, l| tv_or(cmp_cells(Cmp::Eq, &row[*col], l), acc)),
        E::Between(col, lo, hi) => tv_and(cmp_cells(Cmp::Ge, &row[*col], lo), cmp_cells(Cmp::Le, &row[*col], hi)),
    }
}

pub fn sql_lit(l: &Cell) -> String {
    match l {
        Cell::Null => "NULL".into(),
        Cell::I(v) => format!("{v}"),
        Cell::F(v) => {
            if v.fract() == 0.0 && v.abs() < 1e15 {
                format!("{:.1}", v)
            } else {
                format!("{}", v)
            }
        }
        Cell::S(s) => format!("'{}'", s.replace('\'', "''")),
        Cell::B(b) => format!("{b}"),
    }
}
pub fn sql(e: &E, cols: &[&str]) -> String {
    match e {
        E::Cmp(c, col, lit) => {
            let op = match c {
                Cmp::Eq => "=",
                Cmp::Ne => "<>",
                Cmp::Lt => "<",
                Cmp::Le => "<=",
                Cmp::Gt => ">",
                Cmp::Ge => ">=",
            };
            format!("{} {} {}", cols[*col], op, sql_lit(lit))
        }
        E::And(a, b) => format!("({}) AND ({})", sql(a, cols), sql(b, cols)),
        E::Or(a, b) => format!("({}) OR ({})", sql(a, cols), sql(b, cols)),
        E::Not(a) => format!("NOT ({})", sql(a, cols)),
        E::IsNull(col) => format!("{} IS NULL", cols[*col]),
        E::In(col, lits) => format!("{} IN ({})", cols[*col], lits.iter().map(sql_lit).collect::<Vec<_>>().join(", ")),
        E::Between(col, lo, hi) => format!("{} BETWEEN {} AND {}", cols[*col], sql_lit(lo), sql_lit(hi)),
    }
}

fn coq_nat(n: usize) -> String {
    format!("{n}%nat")
}
fn coq_lit(l: &Cell) -> String {
    match l {
        Cell::I(v) => coq::opt(Some(coq::z(*v))),
        Cell::Null => "None".into(),
        _ => panic!("only integer literals travel to Coq"),
    }
}
pub fn coq_expr(e: &E) -> String {
    match e {
        E::Cmp(c, col, lit) => {
            let cn = match c {
                Cmp::Eq => "Ceq",
                Cmp::Ne => "Cne",
                Cmp::Lt => "Clt",
                Cmp::Le => "Cle",
                Cmp::Gt => "Cgt",
                Cmp::Ge => "Cge",
            };
            format!("(ECmp {} {} {})", cn, coq_nat(*col), coq_lit(lit))
        }
        E::And(a, b) => format!("(EAnd {} {})", coq_expr(a), coq_expr(b)),
        E::Or(a, b) => format!("(EOr {} {})", coq_expr(a), coq_expr(b)),
        E::Not(a) => format!("(ENot {})", coq_expr(a)),
        E::IsNull(col) => format!("(EIsNull {})", coq_nat(*col)),
        E::In(col, lits) => format!("(EIn {} {})", coq_nat(*col), coq::list(lits.iter().map(coq_lit))),
        E::Between(col, lo, hi) => format!("(EBetween {} {} {})", coq_nat(*col), coq_lit(lo), coq_lit(hi)),
    }
}

fn small_int_lit(rng: &mut Rng) -> Cell {
    if rng.chance(1, 8) {
        Cell::Null
    } else {
        Cell::I(rng.below(7) as i128 - 3)
    }
}
pub fn gen_int_expr(rng: &mut Rng, ncol: usize, depth: u32) -> E {
    let col = rng.below(ncol as u64) as usize;
    if depth == 0 || rng.chance(2, 5) {
        return match rng.below(8) {
            0 => E::IsNull(col),
            1 => E::In(col, (0..rng.below(4)).map(|_| small_int_lit(rng)).collect()),
            2 => E::Between(col, small_int_lit(rng), small_int_lit(rng)),
            _ => E::Cmp(*rng.pick(&[Cmp::Eq, Cmp::Ne, Cmp::Lt, Cmp::Le, Cmp::Gt, Cmp::Ge]), col, small_int_lit(rng)),
        };
    }
    match rng.below(3) {
        0 => E::And(Box::new(gen_int_expr(rng, ncol, depth - 1)), Box::new(gen_int_expr(rng, ncol, depth - 1))),
        1 => E::Or(Box::new(gen_int_expr(rng, ncol, depth - 1)), Box::new(gen_int_expr(rng, ncol, depth - 1))),
        _ => E::Not(Box::new(gen_int_expr(rng, ncol, depth - 1))),
    }
}
