//! Unit correspondence: the private range helpers of FilteredReadStream (through verif_hooks),
//! safe_coerce_scalar on the integer lattice (exhaustive over type pairs x boundary literals) and the
//! harness' three-valued evaluator vs the model's eval3.
use crate::expr::{self, Cell};
use crate::REQ;
use hxlib::util::{catch, coq, Args, Rng, Sink, Stream};
use lance::deps::datafusion::scalar::ScalarValue;
use lance::io::exec::filtered_read::verif_hooks as hk;
use lance_core::utils::deletion::DeletionVector;
use serde_json::json;
use std::ops::Range;
use std::sync::Arc;

pub fn coq_ranges(rs: &[Range<u64>]) -> String {
    coq::list(rs.iter().map(|r| coq::pair(&coq::n(r.start), &coq::n(r.end))))
}
fn out_ranges(r: &Result<Vec<Range<u64>>, bool>) -> String {
    coq::outcome(&r.as_ref().map(|v| coq_ranges(v)).map_err(|e| *e))
}
fn jr(rs: &[Range<u64>]) -> serde_json::Value {
    json!(rs.iter().map(|r| [r.start, r.end]).collect::<Vec<_>>())
}

/// sorted disjoint range lists with the shapes the proofs care about: empty list, empty ranges,
/// adjacent ranges, one huge range, ranges touching u64::MAX; `wild` adds unsorted / inverted ones
pub fn gen_ranges(rng: &mut Rng, wild: bool) -> Vec<Range<u64>> {
    let n = match rng.below(10) {
        0 => 0,
        1 => 1,
        _ => rng.range(1, 6),
    } as usize;
    let huge = rng.chance(1, 8);
    let mut pos: u64 = if huge && rng.bool() { u64::MAX - rng.below(200) - 50 } else { rng.below(20) };
    let mut out = vec![];
    for _ in 0..n {
        let gap = if rng.chance(1, 3) { 0 } else { rng.below(6) };
        let len = match rng.below(12) {
            0 => 0,
            1 if huge => 1u64 << rng.range(33, 62),
            _ => rng.range(1, 9),
        };
        let s = pos.saturating_add(gap);
        let e = s.saturating_add(len);
        out.push(s..e);
        pos = e;
    }
    if wild && !out.is_empty() {
        match rng.below(3) {
            0 => {
                let i = rng.below(out.len() as u64) as usize;
                let r = out[i].clone();
                if r.start != r.end {
                    out[i] = r.end..r.start; // inverted: `end - start` overflows
                }
            }
            1 => out.reverse(),
            _ => {
                let i = rng.below(out.len() as u64) as usize;
                out[i] = out[i].start..u64::MAX; // overlaps what follows; sums overflow
            }
        }
    }
    out
}
fn small(rs: &[Range<u64>]) -> bool {
    rs.iter().all(|r| r.start <= r.end) && rs.iter().map(|r| (r.end - r.start) as u128).sum::<u128>() <= 4000
}
fn sorted_disjoint(rs: &[Range<u64>]) -> bool {
    rs.iter().all(|r| r.start <= r.end) && rs.windows(2).all(|w| w[0].end <= w[1].start)
}
fn flat(rs: &[Range<u64>]) -> Vec<u64> {
    rs.iter().flat_map(|r| r.clone()).collect()
}
fn pick_count(rng: &mut Rng, total: u64) -> u64 {
    match rng.below(8) {
        0 => 0,
        1 => total,
        2 => total.saturating_add(1),
        3 => u64::MAX,
        4 => total.saturating_sub(1),
        _ => rng.below(total.min(60) + 3),
    }
}

pub fn run(args: &Args, sink: &mut Sink) {
    let mut rng = Rng::new(args.seed ^ 0xC16);
    let n = args.vol(500, 6000);

    // ---- trim_ranges_by_offset
    let mut s = Stream::new("trim_by_offset", REQ, "chk_trim_by_offset", "ranges * N * N", "outcome ranges");
    s.shard = 3000;
    let mut corpus: Vec<(Vec<Range<u64>>, u64, u64)> = vec![
        (vec![0..10, 20..30, 40..50], 0, 100),
        (vec![0..10, 20..30, 40..50], 5, 10),
        (vec![0..10, 20..30, 40..50], 15, 100),
        (vec![0..10, 20..30, 40..50], 100, 10),
        (vec![0..10, 20..30, 40..50], 0, 0),
        (vec![], 3, 3),
        (vec![5..5], 0, 1),
        (vec![0..u64::MAX], u64::MAX - 1, u64::MAX),
        (vec![10..5], 0, 1),
    ];
    for _ in 0..n {
        let wild = rng.chance(1, 10);
        let rs = gen_ranges(&mut rng, wild);
        let total = rs.iter().map(|r| r.end.wrapping_sub(r.start)).fold(0u64, |a, b| a.wrapping_add(b));
        corpus.push((rs, pick_count(&mut rng, total), pick_count(&mut rng, total)));
    }
    for (rs, sk, tk) in corpus {
        let out = catch(|| hk::trim_ranges_by_offset(rs.clone(), sk, tk));
        sink.count(if out.is_ok() { "trim_by_offset/ok" } else { "trim_by_offset/panic" });
        let inp = coq::tuple(&[coq_ranges(&rs), coq::n(sk), coq::n(tk)]);
        sink.nontrivial(&format!("tbo{inp}"));
        if let Ok(o) = &out {
            if sorted_disjoint(&rs) && small(&rs) {
                let want: Vec<u64> = flat(&rs).into_iter().skip(sk.min(5000) as usize).take(tk.min(5000) as usize).collect();
                if flat(o) == want && sorted_disjoint(o) {
                    sink.oracle_ok();
                } else {
                    sink.oracle_fail(None, "trim_ranges_by_offset does not select rows skip..skip+take of the flattened ranges", json!({"ranges": jr(&rs), "skip": sk, "take": tk, "got": jr(o)}));
                }
            }
        }
        s.push(inp, out_ranges(&out), json!({"ranges": jr(&rs), "skip": sk, "take": tk}));
    }
    sink.add(s);

    // ---- intersect_ranges
    let mut s = Stream::new("intersect", REQ, "chk_intersect", "ranges * ranges", "outcome ranges");
    s.shard = 3000;
    for k in 0..n {
        let a = gen_ranges(&mut rng, k % 15 == 0);
        let mut b = gen_ranges(&mut rng, k % 17 == 0);
        if rng.chance(1, 4) && !a.is_empty() {
            // overlap structure on purpose: b derived from a
            b = a.iter().map(|r| r.start.saturating_add(rng.below(3))..r.end.saturating_sub(rng.below(3)).max(r.start)).collect();
        }
        let out = catch(|| hk::intersect_ranges(&a, &b));
        sink.count("intersect");
        let inp = coq::pair(&coq_ranges(&a), &coq_ranges(&b));
        sink.nontrivial(&format!("int{inp}"));
        if let Ok(o) = &out {
            if sorted_disjoint(&a) && sorted_disjoint(&b) && small(&a) && small(&b) {
                let fb: std::collections::HashSet<u64> = flat(&b).into_iter().collect();
                let want: Vec<u64> = flat(&a).into_iter().filter(|x| fb.contains(x)).collect();
                if flat(o) == want && sorted_disjoint(o) {
                    sink.oracle_ok();
                } else {
                    sink.oracle_fail(None, "intersect_ranges is not the set intersection", json!({"a": jr(&a), "b": jr(&b), "got": jr(o)}));
                }
            }
        }
        s.push(inp, out_ranges(&out), json!({"a": jr(&a), "b": jr(&b)}));
    }
    sink.add(s);

    // ---- apply_skip_take_to_ranges
    let mut s = Stream::new("apply_skip_take", REQ, "chk_apply_skip_take", "ranges * N * N", "outcome (ranges * N * N)");
    s.shard = 3000;
    for k in 0..n {
        let rs = gen_ranges(&mut rng, k % 9 == 0);
        let total = rs.iter().map(|r| r.end.wrapping_sub(r.start)).fold(0u64, |a, b| a.wrapping_add(b));
        let (sk, tk) = (pick_count(&mut rng, total), pick_count(&mut rng, total));
        let out = catch(|| hk::apply_skip_take_to_ranges(rs.clone(), sk, tk));
        sink.count(if out.is_ok() { "apply_skip_take/ok" } else { "apply_skip_take/panic" });
        let inp = coq::tuple(&[coq_ranges(&rs), coq::n(sk), coq::n(tk)]);
        sink.nontrivial(&format!("ast{inp}"));
        let o = coq::outcome(&out.as_ref().map(|(r, a, b)| coq::tuple(&[coq_ranges(r), coq::n(*a), coq::n(*b)])).map_err(|e| *e));
        s.push(inp, o, json!({"ranges": jr(&rs), "skip": sk, "take": tk}));
    }
    sink.add(s);

    // ---- full_frag_range
    let mut s = Stream::new("full_frag_range", REQ, "chk_full_frag_range", "N * option (list N)", "outcome ranges");
    s.shard = 3000;
    let mut cases: Vec<(u64, Option<Vec<u32>>)> = vec![(53, Some(vec![13, 52, 51, 17])), (2, Some(vec![1])), (0, None), (0, Some(vec![])), (5, Some(vec![0, 1, 2, 3, 4])), (3, Some(vec![5]))];
    for _ in 0..n {
        let phys = match rng.below(6) {
            0 => 0,
            1 => rng.below(4),
            _ => rng.range(1, 40),
        };
        let dv = if rng.chance(1, 6) {
            None
        } else {
            let dens = rng.range(0, 4);
            let hi = if rng.chance(1, 12) { phys + 3 } else { phys };
            let mut v: Vec<u32> = (0..hi).filter(|_| rng.below(4) < dens).map(|x| x as u32).collect();
            if rng.chance(1, 5) && phys > 0 {
                v.push((phys - 1) as u32);
            }
            v.sort();
            v.dedup();
            Some(v)
        };
        cases.push((phys, dv));
    }
    for (k, (phys, dv)) in cases.into_iter().enumerate() {
        let dvv: Option<Arc<DeletionVector>> = dv.as_ref().map(|v| {
            Arc::new(match k % 3 {
                0 => DeletionVector::Set(v.iter().copied().collect()),
                1 => DeletionVector::Bitmap(v.iter().copied().collect()),
                _ => {
                    if v.is_empty() {
                        DeletionVector::NoDeletions
                    } else {
                        DeletionVector::from_iter(v.iter().copied())
                    }
                }
            })
        });
        let out = catch(|| hk::full_frag_range(phys, &dvv));
        sink.count("full_frag_range");
        let mut sorted = dv.clone();
        if let Some(v) = sorted.as_mut() {
            v.sort();
            v.dedup();
        }
        let inp = coq::pair(&coq::n(phys), &coq::opt(sorted.as_ref().map(|v| coq::list(v.iter().map(|x| coq::n(*x as u64))))));
        sink.nontrivial(&format!("ffr{inp}"));
        if let (Ok(o), true) = (&out, sorted.as_ref().map(|v| v.iter().all(|x| (*x as u64) < phys)).unwrap_or(true)) {
            let del: std::collections::HashSet<u64> = sorted.iter().flatten().map(|x| *x as u64).collect();
            let want: Vec<u64> = (0..phys).filter(|x| !del.contains(x)).collect();
            if flat(o) == want {
                sink.oracle_ok();
            } else {
                sink.oracle_fail(None, "full_frag_range is not the complement of the deletion vector", json!({"phys": phys, "dv": sorted, "got": jr(o)}));
            }
        }
        s.push(inp, out_ranges(&out), json!({"phys": phys, "dv": sorted}));
    }
    sink.add(s);

    // ---- calculate_fetch / trim_ranges
    let mut s1 = Stream::new("calculate_fetch", REQ, "chk_calculate_fetch", "range * range", "outcome (N * N)");
    s1.shard = 3000;
    let mut s2 = Stream::new("trim_ranges", REQ, "chk_trim_ranges", "ranges * range * range", "outcome ranges");
    s2.shard = 3000;
    let pt = |rng: &mut Rng| match rng.below(10) {
        0 => u64::MAX,
        1 => u64::MAX - rng.below(5),
        2 => 0,
        _ => rng.below(60),
    };
    for _ in 0..n {
        let (a, b, c, d) = (pt(&mut rng), pt(&mut rng), pt(&mut rng), pt(&mut rng));
        let out = catch(|| hk::calculate_fetch(a..b, &(c..d)));
        sink.count("calculate_fetch");
        s1.push(
            coq::pair(&coq::pair(&coq::n(a), &coq::n(b)), &coq::pair(&coq::n(c), &coq::n(d))),
            coq::outcome(&out.map(|(x, y)| coq::pair(&coq::n(x), &coq::n(y)))),
            json!({"position": [a, b], "bounds": [c, d]}),
        );
    }
    let mut tr_cases: Vec<(Vec<Range<u64>>, Range<u64>, Range<u64>)> = vec![
        (vec![0..10, 15..25, 30..40], 0..25, 0..10),
        (vec![0..10, 15..25, 30..40], 0..25, 10..15),
        (vec![0..10, 15..25, 30..40], 0..25, 15..20),
        (vec![0..10, 15..25, 30..40], 0..25, 15..25),
    ];
    for k in 0..n {
        let rs = gen_ranges(&mut rng, k % 11 == 0);
        let total = rs.iter().map(|r| r.end.wrapping_sub(r.start)).fold(0u64, |a, b| a.wrapping_add(b));
        let ps = if rng.chance(1, 10) { pt(&mut rng) } else { rng.below(40) };
        // mostly consistent: the logical position has as many rows as the ranges
        let pe = if rng.chance(1, 8) { pt(&mut rng) } else { ps.saturating_add(total) };
        let bs = if rng.chance(1, 4) { ps.saturating_sub(rng.below(5)) } else { ps.saturating_add(rng.below(total.min(50) + 2)) };
        let be = match rng.below(5) {
            0 => bs,
            1 => u64::MAX,
            2 => pe,
            _ => bs.saturating_add(rng.below(total.min(50) + 3)),
        };
        tr_cases.push((rs, ps..pe, bs..be));
    }
    for (rs, pos, bnd) in tr_cases {
        let out = catch(|| hk::trim_ranges(rs.clone(), pos.clone(), &bnd));
        sink.count(if out.is_ok() { "trim_ranges/ok" } else { "trim_ranges/panic" });
        let inp = coq::tuple(&[coq_ranges(&rs), coq::pair(&coq::n(pos.start), &coq::n(pos.end)), coq::pair(&coq::n(bnd.start), &coq::n(bnd.end))]);
        sink.nontrivial(&format!("tr{inp}"));
        if let Ok(o) = &out {
            let total: u128 = rs.iter().map(|r| r.end.wrapping_sub(r.start) as u128).sum();
            if sorted_disjoint(&rs) && small(&rs) && pos.start <= pos.end && (pos.end - pos.start) as u128 == total {
                // rows of the fragment whose global position lies inside the bounds
                let want: Vec<u64> = flat(&rs).into_iter().enumerate().filter(|(i, _)| {
                    let g = pos.start as u128 + *i as u128;
                    g >= bnd.start as u128 && g < bnd.end as u128
                }).map(|(_, x)| x).collect();
                if flat(o) == want {
                    sink.oracle_ok();
                } else {
                    sink.oracle_fail(None, "trim_ranges does not keep exactly the rows inside the bounds", json!({"ranges": jr(&rs), "position": [pos.start, pos.end], "bounds": [bnd.start, bnd.end], "got": jr(o)}));
                }
            }
        }
        s2.push(inp, out_ranges(&out), json!({"ranges": jr(&rs), "position": [pos.start, pos.end], "bounds": [bnd.start, bnd.end]}));
    }
    sink.add(s1);
    sink.add(s2);

    // ---- safe_coerce_scalar: exhaustive over integer type pairs x boundary literals (incl. typed NULL)
    let mut s = Stream::new("coerce_int", REQ, "chk_coerce_int", "ity * option Z * ity", "option (option Z)");
    s.shard = 3000;
    let tys = ["I8", "I16", "I32", "I64", "U8", "U16", "U32", "U64"];
    let bounds: [(i128, i128); 8] = [
        (i8::MIN as i128, i8::MAX as i128),
        (i16::MIN as i128, i16::MAX as i128),
        (i32::MIN as i128, i32::MAX as i128),
        (i64::MIN as i128, i64::MAX as i128),
        (0, u8::MAX as i128),
        (0, u16::MAX as i128),
        (0, u32::MAX as i128),
        (0, u64::MAX as i128),
    ];
    let mk = |t: usize, v: Option<i128>| -> ScalarValue {
        match t {
            0 => ScalarValue::Int8(v.map(|x| x as i8)),
            1 => ScalarValue::Int16(v.map(|x| x as i16)),
            2 => ScalarValue::Int32(v.map(|x| x as i32)),
            3 => ScalarValue::Int64(v.map(|x| x as i64)),
            4 => ScalarValue::UInt8(v.map(|x| x as u8)),
            5 => ScalarValue::UInt16(v.map(|x| x as u16)),
            6 => ScalarValue::UInt32(v.map(|x| x as u32)),
            _ => ScalarValue::UInt64(v.map(|x| x as u64)),
        }
    };
    let dts = [
        arrow_schema::DataType::Int8,
        arrow_schema::DataType::Int16,
        arrow_schema::DataType::Int32,
        arrow_schema::DataType::Int64,
        arrow_schema::DataType::UInt8,
        arrow_schema::DataType::UInt16,
        arrow_schema::DataType::UInt32,
        arrow_schema::DataType::UInt64,
    ];
    let unpack = |sv: &ScalarValue| -> Option<Option<i128>> {
        Some(match sv {
            ScalarValue::Int8(v) => v.map(|x| x as i128),
            ScalarValue::Int16(v) => v.map(|x| x as i128),
            ScalarValue::Int32(v) => v.map(|x| x as i128),
            ScalarValue::Int64(v) => v.map(|x| x as i128),
            ScalarValue::UInt8(v) => v.map(|x| x as i128),
            ScalarValue::UInt16(v) => v.map(|x| x as i128),
            ScalarValue::UInt32(v) => v.map(|x| x as i128),
            ScalarValue::UInt64(v) => v.map(|x| x as i128),
            _ => return None,
        })
    };
    for src in 0..8 {
        // every bound of every type, +-1 around it, 0, +-1, clipped to what src can hold
        let mut lits: Vec<i128> = vec![0, 1, -1, 2, 100];
        for (lo, hi) in bounds.iter() {
            for d in [-1i128, 0, 1] {
                lits.push(lo + d);
                lits.push(hi + d);
            }
        }
        lits.retain(|v| *v >= bounds[src].0 && *v <= bounds[src].1);
        lits.sort();
        lits.dedup();
        let mut vals: Vec<Option<i128>> = lits.into_iter().map(Some).collect();
        vals.push(None);
        for dst in 0..8 {
            for v in &vals {
                let got = lance_datafusion::expr::safe_coerce_scalar(&mk(src, *v), &dts[dst]);
                let got_c: Option<Option<i128>> = match &got {
                    None => None,
                    Some(sv) => {
                        // the result must be a scalar of the destination type
                        if sv.data_type() != dts[dst] {
                            sink.oracle_fail(None, "safe_coerce_scalar returned a scalar of another type", json!({"src": tys[src], "dst": tys[dst], "v": v.map(|x| x.to_string())}));
                        }
                        unpack(sv)
                    }
                };
                // direct oracle: value preserved iff representable
                let want: Option<Option<i128>> = match v {
                    None => if src == dst { Some(None) } else { None },
                    Some(x) => if *x >= bounds[dst].0 && *x <= bounds[dst].1 { Some(Some(*x)) } else { None },
                };
                if got_c == want {
                    sink.oracle_ok();
                } else {
                    sink.oracle_fail(None, "safe_coerce_scalar changed the value or accepted an out-of-range literal", json!({"src": tys[src], "dst": tys[dst], "v": v.map(|x| x.to_string()), "got": format!("{got:?}")}));
                }
                sink.count("coerce_int");
                let inp = coq::tuple(&[tys[src].to_string(), coq::opt(v.map(coq::z)), tys[dst].to_string()]);
                sink.nontrivial(&format!("co{inp}"));
                s.push(inp, coq::opt(got_c.map(|o| coq::opt(o.map(coq::z)))), json!({"src": tys[src], "dst": tys[dst], "v": v.map(|x| x.to_string())}));
            }
        }
    }
    sink.add(s);

    // ---- the harness' reference evaluator vs eval3 (integer sub-language)
    let mut s = Stream::new("eval3", REQ, "chk_eval3", "expr * list (option Z)", "tv");
    s.shard = 3000;
    for _ in 0..args.vol(600, 5000) {
        let ncol = 3usize;
        let e = expr::gen_int_expr(&mut rng, ncol, 3);
        let row: Vec<Cell> = (0..ncol).map(|_| if rng.chance(1, 4) { Cell::Null } else { Cell::I(rng.below(7) as i128 - 3) }).collect();
        let tv = expr::eval(&e, &row);
        sink.count("eval3");
        let inp = coq::pair(&expr::coq_expr(&e), &coq::list(row.iter().map(|c| match c { Cell::I(v) => coq::opt(Some(coq::z(*v))), _ => "None".to_string() })));
        sink.nontrivial(&format!("ev{inp}"));
        s.push(inp, coq::opt(tv.map(coq::b)), json!({"sql": expr::sql(&e, &["c0", "c1", "c2"]), "row": format!("{row:?}")}));
    }
    sink.add(s);
}
