//! End-to-end differential arm: random typed tables x random filter trees x projections x
//! limit/offset/order_by x random knob settings through `Dataset::scan()`.  Every knob setting must
//! return exactly the reference rows (brute-force three-valued evaluation in expr.rs), and
//! `count_rows` must equal the number of reference rows.
use crate::expr::{self, Cell, Cmp, E};
use crate::{CLASS_BITMAP_RANGE, CLASS_LIMIT0, CLASS_ORDER_UNPROJ, CLASS_PUSHDOWN};
use arrow_array::*;
use arrow_schema::{DataType, Field, Schema};
use futures::TryStreamExt;
use hxlib::util::{coq, Args, Rng, Sink, Stream};
use lance::dataset::scanner::{ColumnOrdering, MaterializationStyle};
use lance::dataset::{WriteMode, WriteParams};
use lance::Dataset;
use lance_file::version::LanceFileVersion;
use lance_index::scalar::{BuiltinIndexType, ScalarIndexParams};
use lance_index::{DatasetIndexExt, IndexType};
use serde_json::{json, Value};
use std::sync::Arc;

#[derive(Clone, Copy, Debug, PartialEq)]
pub enum Ty {
    I8,
    I16,
    I32,
    I64,
    U8,
    U16,
    U32,
    U64,
    F32,
    F64,
    Str,
    Bool,
}
impl Ty {
    pub fn bounds(self) -> Option<(i128, i128)> {
        Some(match self {
            Ty::I8 => (i8::MIN as i128, i8::MAX as i128),
            Ty::I16 => (i16::MIN as i128, i16::MAX as i128),
            Ty::I32 => (i32::MIN as i128, i32::MAX as i128),
            Ty::I64 => (i64::MIN as i128, i64::MAX as i128),
            Ty::U8 => (0, u8::MAX as i128),
            Ty::U16 => (0, u16::MAX as i128),
            Ty::U32 => (0, u32::MAX as i128),
            Ty::U64 => (0, u64::MAX as i128),
            _ => return None,
        })
    }
    pub fn arrow(self) -> DataType {
        match self {
            Ty::I8 => DataType::Int8,
            Ty::I16 => DataType::Int16,
            Ty::I32 => DataType::Int32,
            Ty::I64 => DataType::Int64,
            Ty::U8 => DataType::UInt8,
            Ty::U16 => DataType::UInt16,
            Ty::U32 => DataType::UInt32,
            Ty::U64 => DataType::UInt64,
            Ty::F32 => DataType::Float32,
            Ty::F64 => DataType::Float64,
            Ty::Str => DataType::Utf8,
            Ty::Bool => DataType::Boolean,
        }
    }
}

#[derive(Clone, Debug)]
pub struct Col {
    pub name: String,
    pub ty: Ty,
    pub nullable: bool,
    pub has_nan: bool,
    pub index: Option<&'static str>,
}

pub fn build_array(ty: Ty, cells: &[Cell]) -> ArrayRef {
    macro_rules! ints {
        ($arr:ty, $t:ty) => {
            Arc::new(<$arr>::from(cells.iter().map(|c| match c { Cell::I(v) => Some(*v as $t), _ => None }).collect::<Vec<Option<$t>>>())) as ArrayRef
        };
    }
    match ty {
        Ty::I8 => ints!(Int8Array, i8),
        Ty::I16 => ints!(Int16Array, i16),
        Ty::I32 => ints!(Int32Array, i32),
        Ty::I64 => ints!(Int64Array, i64),
        Ty::U8 => ints!(UInt8Array, u8),
        Ty::U16 => ints!(UInt16Array, u16),
        Ty::U32 => ints!(UInt32Array, u32),
        Ty::U64 => ints!(UInt64Array, u64),
        Ty::F32 => Arc::new(Float32Array::from(cells.iter().map(|c| match c { Cell::F(v) => Some(*v as f32), _ => None }).collect::<Vec<_>>())),
        Ty::F64 => Arc::new(Float64Array::from(cells.iter().map(|c| match c { Cell::F(v) => Some(*v), _ => None }).collect::<Vec<_>>())),
        Ty::Str => Arc::new(StringArray::from(cells.iter().map(|c| match c { Cell::S(v) => Some(v.clone()), _ => None }).collect::<Vec<_>>())),
        Ty::Bool => Arc::new(BooleanArray::from(cells.iter().map(|c| match c { Cell::B(v) => Some(*v), _ => None }).collect::<Vec<_>>())),
    }
}

/// canonical text of one cell of a result batch (floats by value with the sign of zero, NaN as NaN)
pub fn canon(arr: &ArrayRef, i: usize) -> String {
    if arr.is_null(i) {
        return "NULL".into();
    }
    macro_rules! prim {
        ($t:ty) => {
            if let Some(a) = arr.as_any().downcast_ref::<$t>() {
                return format!("{:?}", a.value(i));
            }
        };
    }
    prim!(Int8Array);
    prim!(Int16Array);
    prim!(Int32Array);
    prim!(Int64Array);
    prim!(UInt8Array);
    prim!(UInt16Array);
    prim!(UInt32Array);
    prim!(UInt64Array);
    prim!(BooleanArray);
    if let Some(a) = arr.as_any().downcast_ref::<Float32Array>() {
        let v = a.value(i);
        return if v.is_nan() { "NaN".into() } else { format!("{:?}", v as f64) };
    }
    if let Some(a) = arr.as_any().downcast_ref::<Float64Array>() {
        let v = a.value(i);
        return if v.is_nan() { "NaN".into() } else { format!("{:?}", v) };
    }
    if let Some(a) = arr.as_any().downcast_ref::<StringArray>() {
        return format!("{:?}", a.value(i));
    }
    format!("?{:?}", arr.data_type())
}
pub fn canon_cell(c: &Cell) -> String {
    match c {
        Cell::Null => "NULL".into(),
        Cell::I(v) => format!("{v}"),
        Cell::F(v) => if v.is_nan() { "NaN".into() } else { format!("{:?}", v) },
        Cell::S(s) => format!("{:?}", s),
        Cell::B(b) => format!("{b}"),
    }
}

const STRS: [&str; 9] = ["", "apple", "apple pie", "banana", "app", "Ünïcode", "pineapple", "ppl", "applx pple"];

fn pool(rng: &mut Rng, c: &Col) -> Cell {
    if c.nullable && rng.chance(1, 5) {
        return Cell::Null;
    }
    match c.ty {
        Ty::F32 | Ty::F64 => {
            let vs: [f64; 12] = [0.0, -0.0, 1.5, -1.5, 2.0, 0.25, f64::INFINITY, f64::NEG_INFINITY, 1e30f32 as f64, -1e30f32 as f64, 100.0, 0.5];
            if c.has_nan && rng.chance(1, 6) {
                Cell::F(f64::NAN)
            } else {
                Cell::F(*rng.pick(&vs))
            }
        }
        Ty::Str => Cell::S(rng.pick(&STRS).to_string()),
        Ty::Bool => Cell::B(rng.bool()),
        t => {
            let (lo, hi) = t.bounds().unwrap();
            let v = match rng.below(10) {
                0 => lo,
                1 => hi,
                2 => lo + 1,
                3 => hi - 1,
                _ => (rng.below(9) as i128 - if lo < 0 { 4 } else { 0 }).clamp(lo, hi),
            };
            Cell::I(v)
        }
    }
}
/// a literal for a comparison with column c; `oob` allows an integer literal outside the column type
fn lit(rng: &mut Rng, c: &Col, oob: bool) -> Cell {
    match c.ty {
        Ty::F32 | Ty::F64 => Cell::F(*rng.pick(&[1.5, -1.5, 2.0, 0.25, 100.0, -100.0, 65536.0, 0.5, 1.0])),
        Ty::Str => Cell::S(rng.pick(&["", "apple", "apple p", "banana", "b", "app", "Ünïcode", "zzz"]).to_string()),
        Ty::Bool => Cell::B(rng.bool()),
        t => {
            let (lo, hi) = t.bounds().unwrap();
            let (llo, lhi) = (i64::MIN as i128 + 1, i64::MAX as i128);
            let v = match rng.below(12) {
                0 => lo,
                1 => hi,
                2 if oob => hi + 1,
                3 if oob => lo - 1,
                4 => hi - 1,
                _ => rng.below(9) as i128 - if lo < 0 { 4 } else { 0 },
            };
            Cell::I(v.clamp(llo, lhi))
        }
    }
}

/// `neg`: we are under an odd number of NOTs or building a `<>`; F1 (C19, class not_over_nullable): a
/// negation over an INDEXED NULLABLE column returns the NULL rows - kept out of this property.
fn gen_expr(rng: &mut Rng, cols: &[Col], depth: u32, under_not: bool, oob: &mut bool) -> E {
    if depth == 0 || rng.chance(2, 5) {
        // leaf
        for _ in 0..20 {
            let ci = 1 + rng.below(cols.len() as u64 - 1) as usize; // any column but `id` ...
            let ci = if rng.chance(1, 8) { 0 } else { ci }; // ... sometimes id
            let c = &cols[ci];
            let fragile = c.index.is_some() && c.nullable;
            if fragile && under_not {
                continue;
            }
            let allow_oob = rng.chance(1, 25);
            let e = match rng.below(9) {
                0 => E::IsNull(ci),
                1 if c.ty != Ty::Bool => {
                    let n = rng.range(1, 4);
                    let mut ls: Vec<Cell> = (0..n).map(|_| lit(rng, c, false)).collect();
                    if rng.chance(1, 6) {
                        ls.push(Cell::Null);
                    }
                    E::In(ci, ls)
                }
                2 if c.ty != Ty::Bool => {
                    let (a, b) = (lit(rng, c, allow_oob), lit(rng, c, false));
                    E::Between(ci, a, b)
                }
                _ => {
                    let mut ops = vec![Cmp::Eq, Cmp::Lt, Cmp::Le];
                    if !c.has_nan {
                        // a NaN meeting > / >= is ambiguous between IEEE and total order: left out
                        ops.push(Cmp::Gt);
                        ops.push(Cmp::Ge);
                    }
                    if !fragile {
                        ops.push(Cmp::Ne);
                    }
                    if c.ty == Ty::Bool {
                        ops = vec![Cmp::Eq];
                        if fragile || under_not {
                            // `b = false` is rewritten to NOT b
                        }
                    }
                    let l = if c.ty == Ty::Bool { Cell::B(true) } else { lit(rng, c, allow_oob) };
                    E::Cmp(*rng.pick(&ops), ci, l)
                }
            };
            // record whether an out-of-range integer literal is present
            let mut chk = |l: &Cell| {
                if let (Cell::I(v), Some((lo, hi))) = (l, c.ty.bounds()) {
                    if *v < lo || *v > hi {
                        *oob = true;
                    }
                }
            };
            match &e {
                E::Cmp(_, _, l) => chk(l),
                E::Between(_, a, b) => {
                    chk(a);
                    chk(b)
                }
                E::In(_, ls) => ls.iter().for_each(|l| chk(l)),
                _ => {}
            }
            return e;
        }
        return E::IsNull(0);
    }
    match rng.below(5) {
        0 | 1 => E::And(Box::new(gen_expr(rng, cols, depth - 1, under_not, oob)), Box::new(gen_expr(rng, cols, depth - 1, under_not, oob))),
        2 | 3 => E::Or(Box::new(gen_expr(rng, cols, depth - 1, under_not, oob)), Box::new(gen_expr(rng, cols, depth - 1, under_not, oob))),
        _ => E::Not(Box::new(gen_expr(rng, cols, depth - 1, true, oob))),
    }
}

/// BETWEEN lo AND hi with lo > hi on a Bitmap-indexed column (finding bitmap_index_inverted_range_panic)
fn inverted_between_on_bitmap(e: &E, cols: &[Col]) -> bool {
    match e {
        E::Between(c, Cell::I(lo), Cell::I(hi)) => cols[*c].index == Some("Bitmap") && lo > hi,
        E::Between(c, Cell::S(lo), Cell::S(hi)) => cols[*c].index == Some("Bitmap") && lo > hi,
        E::And(a, b) | E::Or(a, b) => inverted_between_on_bitmap(a, cols) || inverted_between_on_bitmap(b, cols),
        E::Not(a) => inverted_between_on_bitmap(a, cols),
        _ => false,
    }
}
const BITMAP_PANIC: &str = "range start is greater than range end in BTreeMap";

pub struct Table {
    pub ds: Dataset,
    pub cols: Vec<Col>,
    pub rows: Vec<Vec<Cell>>, // every row ever written, by id
    pub deleted: Vec<bool>,
    pub desc: Value,
    _dir: tempfile::TempDir,
}

fn batch_of(cols: &[Col], rows: &[Vec<Cell>]) -> (Arc<Schema>, RecordBatch) {
    let schema = Arc::new(Schema::new(cols.iter().map(|c| Field::new(&c.name, c.ty.arrow(), c.nullable)).collect::<Vec<_>>()));
    let arrays: Vec<ArrayRef> = cols.iter().enumerate().map(|(j, c)| build_array(c.ty, &rows.iter().map(|r| r[j].clone()).collect::<Vec<_>>())).collect();
    let b = RecordBatch::try_new(schema.clone(), arrays).unwrap();
    (schema, b)
}

async fn make_table(rng: &mut Rng) -> Table {
    let mut cols = vec![Col { name: "id".into(), ty: Ty::I32, nullable: false, has_nan: false, index: None }];
    let int_tys = [Ty::I8, Ty::I16, Ty::I32, Ty::I64, Ty::U8, Ty::U16, Ty::U32, Ty::U64];
    for k in 0..rng.range(2, 3) {
        let ty = *rng.pick(&int_tys);
        let nullable = rng.chance(2, 3);
        let index = match rng.below(4) {
            0 => Some("BTree"),
            1 => Some("Bitmap"),
            _ => None,
        };
        cols.push(Col { name: format!("n{k}"), ty, nullable, has_nan: false, index });
    }
    let fty = if rng.bool() { Ty::F32 } else { Ty::F64 };
    cols.push(Col { name: "f".into(), ty: fty, nullable: true, has_nan: rng.bool(), index: None });
    cols.push(Col { name: "s".into(), ty: Ty::Str, nullable: rng.bool(), has_nan: false, index: if rng.chance(1, 3) { Some("BTree") } else { None } });
    cols.push(Col { name: "b".into(), ty: Ty::Bool, nullable: true, has_nan: false, index: None });
    let n0 = rng.range(12, 40) as usize;
    let n1 = if rng.chance(1, 2) { rng.range(3, 12) as usize } else { 0 }; // appended after the indices exist
    let mut rows: Vec<Vec<Cell>> = vec![];
    for i in 0..(n0 + n1) {
        let mut r = vec![Cell::I(i as i128)];
        for c in &cols[1..] {
            r.push(pool(rng, c));
        }
        rows.push(r);
    }
    let dir = tempfile::tempdir().unwrap();
    let uri = dir.path().join("t").to_string_lossy().to_string();
    let per_file = *rng.pick(&[5usize, 8, 13, 100]);
    let version = if rng.chance(1, 3) { LanceFileVersion::V2_1 } else { LanceFileVersion::Stable };
    let params = WriteParams { max_rows_per_file: per_file, max_rows_per_group: 4, mode: WriteMode::Create, data_storage_version: Some(version), ..Default::default() };
    let (schema, b0) = batch_of(&cols, &rows[..n0]);
    let mut ds = Dataset::write(RecordBatchIterator::new(vec![Ok(b0)], schema.clone()), &uri, Some(params.clone())).await.unwrap();
    for c in cols.iter() {
        if let Some(k) = c.index {
            let (it, p) = match k {
                "Bitmap" => (IndexType::Bitmap, ScalarIndexParams::for_builtin(BuiltinIndexType::Bitmap)),
                _ => (IndexType::BTree, ScalarIndexParams::default()),
            };
            ds.create_index(&[c.name.as_str()], it, None, &p, true).await.unwrap();
        }
    }
    if n1 > 0 {
        let (schema, b1) = batch_of(&cols, &rows[n0..]);
        let p = WriteParams { mode: WriteMode::Append, ..params.clone() };
        ds = Dataset::write(RecordBatchIterator::new(vec![Ok(b1)], schema), &uri, Some(p)).await.unwrap();
    }
    let mut deleted = vec![false; rows.len()];
    if rng.chance(2, 3) {
        let dels: Vec<usize> = (0..rows.len()).filter(|_| rng.chance(1, 5)).collect();
        if !dels.is_empty() {
            ds.delete(&format!("id IN ({})", dels.iter().map(|x| x.to_string()).collect::<Vec<_>>().join(","))).await.unwrap();
            for d in dels {
                deleted[d] = true;
            }
        }
    }
    let desc = json!({
        "columns": cols.iter().map(|c| json!({"name": c.name, "type": format!("{:?}", c.ty), "nullable": c.nullable, "index": c.index, "has_nan": c.has_nan})).collect::<Vec<_>>(),
        "rows_indexed": n0, "rows_appended_after_index": n1, "max_rows_per_file": per_file, "version": format!("{version:?}"),
        "deleted_ids": deleted.iter().enumerate().filter(|(_, d)| **d).map(|(i, _)| i).collect::<Vec<_>>(),
    });
    Table { ds, cols, rows, deleted, desc, _dir: dir }
}

#[derive(Clone, Debug)]
pub struct Knobs {
    pub batch_size: Option<usize>,
    pub batch_readahead: Option<usize>,
    pub fragment_readahead: Option<usize>,
    pub mat: u8,
    pub use_stats: bool,
    pub use_index: bool,
    pub prefilter: bool,
    pub strict: bool,
    pub in_order: bool,
}
fn gen_knobs(rng: &mut Rng) -> Knobs {
    Knobs {
        batch_size: if rng.chance(3, 4) { Some(*rng.pick(&[1usize, 2, 3, 7, 16, 1024])) } else { None },
        batch_readahead: if rng.bool() { Some(rng.range(1, 4) as usize) } else { None },
        fragment_readahead: if rng.bool() { Some(rng.range(1, 4) as usize) } else { None },
        mat: rng.below(3) as u8,
        use_stats: rng.bool(),
        use_index: rng.chance(2, 3),
        prefilter: rng.bool(),
        strict: rng.chance(1, 4),
        in_order: !rng.chance(1, 6),
    }
}

#[derive(Clone)]
pub struct Query {
    pub filter: Option<E>,
    pub filter_sql: Option<String>,
    pub proj: Vec<usize>,
    pub limit: Option<i64>,
    pub offset: Option<i64>,
    pub order: Option<(usize, bool, bool)>, // (column, ascending, nulls_first); ties broken by id ascending
}

/// runs a future on its own task so that a panic inside lance becomes an `Err("panic ...")`
pub async fn guard<T: Send + 'static>(f: impl std::future::Future<Output = Result<T, String>> + Send + 'static) -> Result<T, String> {
    let prev = std::panic::take_hook();
    std::panic::set_hook(Box::new(|_| {}));
    let r = tokio::spawn(f).await;
    std::panic::set_hook(prev);
    match r {
        Ok(x) => x,
        Err(e) if e.is_panic() => {
            let p = e.into_panic();
            let msg = p.downcast_ref::<String>().cloned().or_else(|| p.downcast_ref::<&str>().map(|s| s.to_string())).unwrap_or_default();
            Err(format!("panic: {msg}"))
        }
        Err(e) => Err(format!("join: {e}")),
    }
}
/// runs the scan on its own task so that a panic inside lance becomes an `Err("panic ...")`
pub async fn run_query(ds: &Dataset, cols: &[Col], q: &Query, k: &Knobs) -> Result<Vec<Vec<String>>, String> {
    let (ds, cols, q, k) = (ds.clone(), cols.to_vec(), q.clone(), k.clone());
    let prev = std::panic::take_hook();
    std::panic::set_hook(Box::new(|_| {}));
    let r = tokio::spawn(async move { run_query_inner(&ds, &cols, &q, &k).await }).await;
    std::panic::set_hook(prev);
    match r {
        Ok(x) => x,
        Err(e) if e.is_panic() => {
            let p = e.into_panic();
            let msg = p.downcast_ref::<String>().cloned().or_else(|| p.downcast_ref::<&str>().map(|s| s.to_string())).unwrap_or_default();
            Err(format!("panic: {msg}"))
        }
        Err(e) => Err(format!("join: {e}")),
    }
}
async fn run_query_inner(ds: &Dataset, cols: &[Col], q: &Query, k: &Knobs) -> Result<Vec<Vec<String>>, String> {
    let mut sc = ds.scan();
    if let Some(f) = &q.filter_sql {
        sc.filter(f).map_err(|e| format!("filter: {e}"))?;
    }
    let names: Vec<&str> = q.proj.iter().map(|j| cols[*j].name.as_str()).collect();
    sc.project(&names).map_err(|e| format!("project: {e}"))?;
    if q.limit.is_some() || q.offset.is_some() {
        sc.limit(q.limit, q.offset).map_err(|e| format!("limit: {e}"))?;
    }
    if let Some((c, asc, nf)) = q.order {
        let mut ord = vec![ColumnOrdering { ascending: asc, nulls_first: nf, column_name: cols[c].name.clone() }];
        if c != 0 {
            ord.push(ColumnOrdering::asc_nulls_first("id".into()));
        }
        sc.order_by(Some(ord)).map_err(|e| format!("order_by: {e}"))?;
    }
    if let Some(b) = k.batch_size {
        sc.batch_size(b);
    }
    if let Some(b) = k.batch_readahead {
        sc.batch_readahead(b);
    }
    if let Some(b) = k.fragment_readahead {
        sc.fragment_readahead(b);
    }
    sc.materialization_style(match k.mat {
        0 => MaterializationStyle::Heuristic,
        1 => MaterializationStyle::AllLate,
        _ => MaterializationStyle::AllEarly,
    });
    sc.use_stats(k.use_stats);
    sc.use_scalar_index(k.use_index);
    sc.prefilter(k.prefilter);
    sc.strict_batch_size(k.strict);
    sc.scan_in_order(k.in_order);
    let batches: Vec<RecordBatch> = sc.try_into_stream().await.map_err(|e| format!("plan: {e}"))?.try_collect().await.map_err(|e| format!("exec: {e}"))?;
    let mut out = vec![];
    for b in batches {
        if let (Some(bs), true) = (k.batch_size, k.strict) {
            if b.num_rows() > bs {
                return Err(format!("batch of {} rows with batch_size {}", b.num_rows(), bs));
            }
        }
        for i in 0..b.num_rows() {
            let mut r = vec![];
            for name in &names {
                let a = b.column_by_name(name).ok_or_else(|| format!("column {name} missing from the result"))?;
                r.push(canon(a, i));
            }
            out.push(r);
        }
    }
    Ok(out)
}

pub fn reference(t: &Table, q: &Query) -> (Vec<Vec<String>>, usize) {
    let mut sel: Vec<usize> = (0..t.rows.len()).filter(|i| !t.deleted[*i]).filter(|i| q.filter.as_ref().map(|f| expr::eval(f, &t.rows[*i]) == Some(true)).unwrap_or(true)).collect();
    let count = sel.len();
    if let Some((c, asc, nf)) = q.order {
        sel.sort_by(|a, b| {
            use std::cmp::Ordering::*;
            let (x, y) = (&t.rows[*a][c], &t.rows[*b][c]);
            let o = match (x, y) {
                (Cell::Null, Cell::Null) => Equal,
                (Cell::Null, _) => if nf { Less } else { Greater },
                (_, Cell::Null) => if nf { Greater } else { Less },
                (Cell::I(p), Cell::I(r)) => if asc { p.cmp(r) } else { r.cmp(p) },
                _ => Equal,
            };
            o.then(a.cmp(b))
        });
    }
    let off = q.offset.unwrap_or(0) as usize;
    let sel: Vec<usize> = sel.into_iter().skip(off).take(q.limit.map(|l| l as usize).unwrap_or(usize::MAX)).collect();
    (sel.iter().map(|i| q.proj.iter().map(|j| canon_cell(&t.rows[*i][*j])).collect()).collect(), count)
}

fn gen_query(rng: &mut Rng, t: &Table) -> (Query, bool) {
    let mut oob = false;
    let filter = if rng.chance(9, 10) { Some(gen_expr(rng, &t.cols, 3, false, &mut oob)) } else { None };
    let names: Vec<&str> = t.cols.iter().map(|c| c.name.as_str()).collect();
    let filter_sql = filter.as_ref().map(|f| expr::sql(f, &names));
    let mut proj: Vec<usize> = (0..t.cols.len()).filter(|_| rng.chance(1, 2)).collect();
    if proj.is_empty() {
        proj.push(rng.below(t.cols.len() as u64) as usize);
    }
    if rng.bool() {
        // projection order is the caller's
        proj.reverse();
    }
    let (limit, offset) = match rng.below(6) {
        0 | 1 => (None, None),
        2 => (Some(rng.below(6) as i64), None),
        3 => (Some(rng.range(1, 8) as i64), Some(rng.below(6) as i64)),
        4 => (None, Some(rng.below(10) as i64)),
        _ => (Some(rng.range(1, 60) as i64), None),
    };
    let order = if rng.chance(1, 4) {
        let ints: Vec<usize> = (0..t.cols.len()).filter(|j| t.cols[*j].ty.bounds().is_some()).collect();
        Some((*rng.pick(&ints), rng.bool(), rng.bool()))
    } else {
        None
    };
    if let Some((c, _, _)) = order {
        // ORDER BY on a column that is not projected fails to plan (finding order_by_unprojected_column):
        // kept rare so that ordered scans are actually exercised
        if !rng.chance(1, 6) {
            for j in [c, 0] {
                if !proj.contains(&j) {
                    proj.push(j);
                }
            }
        }
    }
    (Query { filter, filter_sql, proj, limit, offset, order }, oob)
}

fn contains_nocase(hay: &str, needle: &str) -> bool {
    hay.contains(needle)
}

/// fixed regression inputs of DESIGN section 6 (F11, F20a: repaired) and the reproduction of the
/// pushed-down-limit finding through the public Scanner API
async fn corpus(sink: &mut Sink) {
    // ---- F11: 20 rows, BTree on x, `x >= 0 AND y = 1`, LIMIT 2 / LIMIT 2 OFFSET 1
    let dir = tempfile::tempdir().unwrap();
    let uri = dir.path().join("f11").to_string_lossy().to_string();
    let schema = Arc::new(Schema::new(vec![Field::new("id", DataType::Int32, false), Field::new("x", DataType::Int32, false), Field::new("y", DataType::Int32, false)]));
    let b = RecordBatch::try_new(
        schema.clone(),
        vec![Arc::new(Int32Array::from((0..20).collect::<Vec<i32>>())), Arc::new(Int32Array::from((0..20).collect::<Vec<i32>>())), Arc::new(Int32Array::from((0..20).map(|i| if i >= 15 { 1 } else { 0 }).collect::<Vec<i32>>()))],
    )
    .unwrap();
    let mut ds = Dataset::write(RecordBatchIterator::new(vec![Ok(b)], schema.clone()), &uri, None).await.unwrap();
    ds.create_index(&["x"], IndexType::BTree, None, &ScalarIndexParams::default(), true).await.unwrap();
    for (filter, limit, offset, want) in [
        ("x >= 0 AND y = 1", Some(2i64), None, vec![15, 16]),
        ("x >= 0 AND y = 1", Some(2), Some(1i64), vec![16, 17]),
        ("x >= 3 AND y = 1", Some(3), None, vec![15, 16, 17]),
    ] {
        for use_index in [true, false] {
            let mut sc = ds.scan();
            sc.filter(filter).unwrap();
            sc.project(&["id"]).unwrap();
            sc.limit(limit, offset).unwrap();
            sc.use_scalar_index(use_index);
            let got: Result<Vec<i32>, String> = async {
                let bs: Vec<RecordBatch> = sc.try_into_stream().await.map_err(|e| e.to_string())?.try_collect().await.map_err(|e| e.to_string())?;
                Ok(bs.iter().flat_map(|b| b.column(0).as_any().downcast_ref::<Int32Array>().unwrap().values().to_vec()).collect())
            }
            .await;
            sink.count("e2e/corpus/F11");
            if got.as_ref().ok() == Some(&want) {
                sink.oracle_ok();
            } else {
                sink.oracle_fail(None, "F11 regression: LIMIT with an index-matched part and a refine filter", json!({"filter": filter, "limit": limit, "offset": offset, "use_scalar_index": use_index, "got": format!("{got:?}"), "want": want}));
            }
        }
    }
    // ---- F20a: NGram index + contains(s, 'ap') (query shorter than a trigram: AtLeast(empty))
    let uri = dir.path().join("f20").to_string_lossy().to_string();
    let words = ["", "apple", "apple pie", "banana", "Ünïcode", "pineapple", "app", "ppl"];
    let ss: Vec<String> = (0..300).map(|i| words[(i * 7 + i / 8) % words.len()].to_string()).collect();
    let schema = Arc::new(Schema::new(vec![Field::new("id", DataType::Int32, false), Field::new("s", DataType::Utf8, false)]));
    let b = RecordBatch::try_new(schema.clone(), vec![Arc::new(Int32Array::from((0..300).collect::<Vec<i32>>())), Arc::new(StringArray::from(ss.clone()))]).unwrap();
    let mut ds = Dataset::write(RecordBatchIterator::new(vec![Ok(b)], schema.clone()), &uri, None).await.unwrap();
    ds.create_index(&["s"], IndexType::NGram, None, &ScalarIndexParams::for_builtin(BuiltinIndexType::NGram), true).await.unwrap();
    for needle in ["ap", "", "apple", "pie"] {
        let want: Vec<i32> = (0..300).filter(|i| contains_nocase(&ss[*i as usize], needle)).collect();
        for use_index in [true, false] {
            let mut sc = ds.scan();
            sc.filter(&format!("contains(s, '{needle}')")).unwrap();
            sc.project(&["id"]).unwrap();
            sc.use_scalar_index(use_index);
            let got: Result<Vec<i32>, String> = async {
                let bs: Vec<RecordBatch> = sc.try_into_stream().await.map_err(|e| e.to_string())?.try_collect().await.map_err(|e| e.to_string())?;
                Ok(bs.iter().flat_map(|b| b.column(0).as_any().downcast_ref::<Int32Array>().unwrap().values().to_vec()).collect())
            }
            .await;
            sink.count("e2e/corpus/F20a");
            if got.as_ref().ok() == Some(&want) {
                sink.oracle_ok();
            } else {
                sink.oracle_fail(None, "F20a regression: contains() through an NGram index", json!({"needle": needle, "use_scalar_index": use_index, "got_len": got.as_ref().map(|g| g.len()).map_err(|e| e.clone()), "want_len": want.len()}));
            }
        }
    }
    // ---- the pushed-down-limit finding through Scanner (class limit_pushdown_skips_unguaranteed_rows)
    // (a) AtLeast from NOT over an inexact (NGram) index: row 0 has every trigram of 'apple' without
    //     containing it, so it is a candidate of contains() and NOT vouched for by NOT contains()
    let uri = dir.path().join("neg").to_string_lossy().to_string();
    let ss: Vec<String> = vec!["applx pple".to_string(), "banana".to_string(), "cherry".to_string(), "apple".to_string(), "durian".to_string()];
    let b = RecordBatch::try_new(schema.clone(), vec![Arc::new(Int32Array::from((0..5).collect::<Vec<i32>>())), Arc::new(StringArray::from(ss.clone()))]).unwrap();
    let mut ds = Dataset::write(RecordBatchIterator::new(vec![Ok(b)], schema.clone()), &uri, None).await.unwrap();
    ds.create_index(&["s"], IndexType::NGram, None, &ScalarIndexParams::for_builtin(BuiltinIndexType::NGram), true).await.unwrap();
    let mut res = vec![];
    for use_index in [true, false] {
        let mut sc = ds.scan();
        sc.filter("NOT contains(s, 'apple')").unwrap();
        sc.project(&["id"]).unwrap();
        sc.limit(Some(1), None).unwrap();
        sc.use_scalar_index(use_index);
        let got: Result<Vec<i32>, String> = async {
            let bs: Vec<RecordBatch> = sc.try_into_stream().await.map_err(|e| e.to_string())?.try_collect().await.map_err(|e| e.to_string())?;
            Ok(bs.iter().flat_map(|b| b.column(0).as_any().downcast_ref::<Int32Array>().unwrap().values().to_vec()).collect())
        }
        .await;
        res.push(got);
    }
    sink.count("e2e/corpus/pushdown-atleast");
    sink.notes.push(format!("pushed-down limit, NOT contains(s,'apple') LIMIT 1 over NGram: indexed {:?} / unindexed {:?} (reference [0])", res[0], res[1]));
    if res[0].as_ref().ok() == Some(&vec![0]) && res[1].as_ref().ok() == Some(&vec![0]) {
        sink.oracle_ok();
    } else if res[1].as_ref().ok() == Some(&vec![0]) && res[0].as_ref().map(|g| g.len() == 1 && [1, 2, 4].contains(&g[0])).unwrap_or(false) {
        sink.oracle_fail(Some(CLASS_PUSHDOWN), "NOT contains(s,'apple') LIMIT 1: the indexed scan returns a later row than the unindexed scan", json!({"strings": ss, "indexed": format!("{:?}", res[0]), "unindexed": format!("{:?}", res[1])}));
    } else {
        sink.oracle_fail(None, "NOT contains(s,'apple') LIMIT 1 returns a wrong row", json!({"strings": ss, "indexed": format!("{:?}", res[0]), "unindexed": format!("{:?}", res[1])}));
    }
    // (b) a fragment the index does not cover scanned BEFORE a covered one (Scanner::with_fragments order)
    let uri = dir.path().join("frag").to_string_lossy().to_string();
    let schema = Arc::new(Schema::new(vec![Field::new("id", DataType::Int32, false), Field::new("x", DataType::Int32, false)]));
    let mk = |lo: i32| RecordBatch::try_new(schema.clone(), vec![Arc::new(Int32Array::from((lo..lo + 4).collect::<Vec<i32>>())), Arc::new(Int32Array::from((lo..lo + 4).collect::<Vec<i32>>()))]).unwrap();
    let mut ds = Dataset::write(RecordBatchIterator::new(vec![Ok(mk(0))], schema.clone()), &uri, None).await.unwrap();
    ds.create_index(&["x"], IndexType::BTree, None, &ScalarIndexParams::default(), true).await.unwrap();
    let p = WriteParams { mode: WriteMode::Append, ..Default::default() };
    let ds = Dataset::write(RecordBatchIterator::new(vec![Ok(mk(4))], schema.clone()), &uri, Some(p)).await.unwrap();
    let frags: Vec<_> = ds.fragments().iter().cloned().collect();
    let mut res = vec![];
    for use_index in [true, false] {
        let mut sc = ds.scan();
        sc.with_fragments(vec![frags[1].clone(), frags[0].clone()]);
        sc.filter("x >= 0").unwrap();
        sc.project(&["id"]).unwrap();
        sc.limit(Some(2), None).unwrap();
        sc.use_scalar_index(use_index);
        let got: Result<Vec<i32>, String> = async {
            let bs: Vec<RecordBatch> = sc.try_into_stream().await.map_err(|e| e.to_string())?.try_collect().await.map_err(|e| e.to_string())?;
            Ok(bs.iter().flat_map(|b| b.column(0).as_any().downcast_ref::<Int32Array>().unwrap().values().to_vec()).collect())
        }
        .await;
        res.push(got);
    }
    sink.count("e2e/corpus/pushdown-uncovered-fragment-first");
    sink.notes.push(format!("pushed-down limit, with_fragments([uncovered, covered]) x >= 0 LIMIT 2: indexed {:?} / unindexed {:?} (reference [4, 5])", res[0], res[1]));
    if res[0].as_ref().ok() == Some(&vec![4, 5]) && res[1].as_ref().ok() == Some(&vec![4, 5]) {
        sink.oracle_ok();
    } else if res[1].as_ref().ok() == Some(&vec![4, 5]) && res[0].as_ref().ok() == Some(&vec![0, 1]) {
        sink.oracle_fail(Some(CLASS_PUSHDOWN), "with_fragments([uncovered, covered]) LIMIT 2: the indexed scan skips the rows of the uncovered fragment", json!({"indexed": format!("{:?}", res[0]), "unindexed": format!("{:?}", res[1])}));
    } else {
        sink.oracle_fail(None, "with_fragments([uncovered, covered]) LIMIT 2 returns wrong rows", json!({"indexed": format!("{:?}", res[0]), "unindexed": format!("{:?}", res[1])}));
    }
}

pub async fn run(args: &Args, sink: &mut Sink) {
    corpus(sink).await;
    // number of rows returned under (limit, offset, filter?, order?) vs the model's scanner_limit
    let mut s_lim = Stream::new("limit_window", crate::REQ, "chk_limit_window", "option N * option N * bool * bool * N", "N");
    s_lim.shard = 3000;
    let mut rng = Rng::new(args.seed ^ 0xE2E16);
    let ntables = args.vol(6, 40);
    let nq = args.vol(14, 40);
    let nknobs = args.vol(4, 6);
    for _ in 0..ntables {
        let t = make_table(&mut rng).await;
        sink.count("e2e/tables");
        for _ in 0..nq {
            let (q, oob) = gen_query(&mut rng, &t);
            let (want, count) = reference(&t, &q);
            sink.nontrivial(&format!("{}{:?}{:?}{:?}{:?}", q.filter_sql.clone().unwrap_or_default(), q.proj, q.limit, q.offset, t.desc));
            sink.count(if oob { "e2e/query/out_of_range_literal" } else { "e2e/query" });
            let mut settings = vec![Knobs { batch_size: None, batch_readahead: None, fragment_readahead: None, mat: 0, use_stats: true, use_index: false, prefilter: false, strict: false, in_order: true }];
            settings.push(Knobs { use_index: true, ..settings[0].clone() });
            for _ in 0..nknobs {
                settings.push(gen_knobs(&mut rng));
            }
            for (ki, k) in settings.into_iter().enumerate() {
                let got = run_query(&t.ds, &t.cols, &q, &k).await;
                if let (Ok(g), true, false) = (&got, ki < 2, oob) {
                    s_lim.push(
                        coq::tuple(&[coq::opt(q.limit.map(|l| coq::n(l as u64))), coq::opt(q.offset.map(|l| coq::n(l as u64))), coq::b(q.filter.is_some()), coq::b(q.order.is_some()), coq::n(count as u64)]),
                        coq::n(g.len() as u64),
                        json!({"limit": q.limit, "offset": q.offset, "filter": q.filter_sql, "order_by": q.order.is_some(), "rows_matching": count, "rows_returned": g.len()}),
                    );
                }
                let case = json!({"table": t.desc, "filter": q.filter_sql, "project": q.proj.iter().map(|j| t.cols[*j].name.clone()).collect::<Vec<_>>(),
                    "limit": q.limit, "offset": q.offset, "order_by": q.order.map(|(c, a, n)| json!({"column": t.cols[c].name, "ascending": a, "nulls_first": n})),
                    "knobs": format!("{k:?}"), "got": format!("{:?}", got.as_ref().map(|g| g.iter().take(12).collect::<Vec<_>>())), "want": format!("{:?}", want.iter().take(12).collect::<Vec<_>>()), "want_rows": want.len()});
                if oob {
                    // a literal outside the column's integer type: the filter must be refused, whatever the knobs
                    match got {
                        Err(_) => sink.oracle_ok(),
                        Ok(_) => sink.oracle_fail(None, "a filter with an out-of-range integer literal was accepted", case),
                    }
                    continue;
                }
                let ordered = k.in_order || q.order.is_some();
                // known findings of the Scanner glue (reproduced, not repaired; see KNOWN_FINDINGS.txt)
                let limit0 = q.limit == Some(0) && q.offset.is_none() && (q.filter.is_some() || q.order.is_some());
                let order_unproj = q.order.map(|(c, _, _)| !q.proj.contains(&c) || (c != 0 && !q.proj.contains(&0))).unwrap_or(false);
                match got {
                    Ok(mut g) => {
                        let mut w = want.clone();
                        if !ordered {
                            if q.limit.is_some() || q.offset.is_some() {
                                // which rows an unordered scan keeps under LIMIT is not determined: only the size is
                                if g.len() == w.len() {
                                    sink.oracle_ok()
                                } else if limit0 && g.len() == count {
                                    sink.oracle_fail(Some(CLASS_LIMIT0), "LIMIT 0 with a filter or ORDER BY returns every matching row", case)
                                } else {
                                    sink.oracle_fail(None, "unordered scan with LIMIT/OFFSET returns a wrong number of rows", case)
                                }
                                continue;
                            }
                            g.sort();
                            w.sort();
                        }
                        if g == w {
                            sink.oracle_ok();
                        } else if limit0 && g.len() == count {
                            sink.count("e2e/known/limit0");
                            sink.oracle_fail(Some(CLASS_LIMIT0), "LIMIT 0 with a filter or ORDER BY returns every matching row", case);
                        } else {
                            sink.oracle_fail(None, "scan result differs from the reference evaluation of the query", case);
                        }
                    }
                    Err(e) if e.contains(BITMAP_PANIC) && q.filter.as_ref().map(|f| inverted_between_on_bitmap(f, &t.cols)).unwrap_or(false) => {
                        sink.count("e2e/known/bitmap_inverted_range");
                        sink.oracle_fail(Some(CLASS_BITMAP_RANGE), "BETWEEN with lower > upper on a Bitmap-indexed column panics in BitmapIndex::search", case);
                    }
                    Err(e) if order_unproj && e.contains("TakeExec requires the input plan to have a column named") => {
                        sink.count("e2e/known/order_by_unprojected");
                        sink.oracle_fail(Some(CLASS_ORDER_UNPROJ), "ORDER BY on a column that is not projected fails to plan", case);
                    }
                    Err(e) => sink.oracle_fail(None, &format!("scan failed: {}", &e[..e.len().min(200)]), case),
                }
            }
            // count_rows with the same filter = number of reference rows (no limit/offset)
            if !oob {
                let (dsc, fsql) = (t.ds.clone(), q.filter_sql.clone());
                let c = guard(async move { dsc.count_rows(fsql).await.map_err(|e| e.to_string()) }).await;
                sink.count("e2e/count_rows");
                let bm = q.filter.as_ref().map(|f| inverted_between_on_bitmap(f, &t.cols)).unwrap_or(false);
                match c {
                    Ok(c) if c == count => sink.oracle_ok(),
                    Err(e) if bm && e.contains(BITMAP_PANIC) => sink.oracle_fail(Some(CLASS_BITMAP_RANGE), "BETWEEN with lower > upper on a Bitmap-indexed column panics in BitmapIndex::search (count_rows)", json!({"filter": q.filter_sql})),
                    other => sink.oracle_fail(None, "Dataset::count_rows differs from the number of rows the reference query returns", json!({"table": t.desc, "filter": q.filter_sql, "got": format!("{other:?}"), "want": count})),
                }
                for use_index in [true, false] {
                    let (dsc, fsql) = (t.ds.clone(), q.filter_sql.clone());
                    let c = guard(async move {
                        let mut sc = dsc.scan();
                        if let Some(f) = &fsql {
                            sc.filter(f).map_err(|e| e.to_string())?;
                        }
                        sc.use_scalar_index(use_index);
                        sc.project::<String>(&[]).map_err(|e| e.to_string())?;
                        sc.with_row_id();
                        sc.count_rows().await.map_err(|e| e.to_string())
                    })
                    .await;
                    sink.count("e2e/count_rows");
                    match c {
                        Ok(c) if c as usize == count => sink.oracle_ok(),
                        Err(e) if bm && e.contains(BITMAP_PANIC) => sink.oracle_fail(Some(CLASS_BITMAP_RANGE), "BETWEEN with lower > upper on a Bitmap-indexed column panics in BitmapIndex::search (count_rows)", json!({"filter": q.filter_sql})),
                        other => sink.oracle_fail(None, "count_rows differs from the number of rows the reference query returns", json!({"table": t.desc, "filter": q.filter_sql, "use_scalar_index": use_index, "got": format!("{other:?}"), "want": count})),
                    }
                }
            }
        }
    }
    sink.add(s_lim);
    sink.notes.push("e2e arm: float columns holding NaN are never compared with > or >=, float literals are non-zero and exactly representable; negations over indexed nullable columns are not generated (F1 belongs to C19)".into());
}
