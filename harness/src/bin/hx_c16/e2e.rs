use hxlib::util::{Args, Sink};
pub async fn run(_args: &Args, _sink: &mut Sink) {}
