//! hx_c06: time travel is immutable (C06).
//!   c06    random histories; every version observed at commit time with a fresh session and re-observed
//!          after every later step with a fresh session and through the table's shared session;
//!          model-side streams: the real directory transition of every step against the store model's
//!          transition relation (Store/Model_History.v chk_step), closedness of every manifest.
//!   probe  B2 reproduction on the real code
mod hist;

use hist::*;
use hxlib::util::{coq, Args, Rng, Sink, Stream};
use lance::session::Session;
use serde_json::json;
use std::collections::BTreeMap;
use std::sync::Arc;

pub const KNOWN_B2: &str = "Known_C06_shared_session_fragment_keyed_cache";

/// class predicate (same as Known_C38_fragment_keyed_cache_across_overwrite): within this session some
/// fragment id of this URI denoted two different row id sequences
pub fn frag_id_reused(all: &[Obs]) -> bool {
    let mut seen: BTreeMap<u64, Option<Vec<u64>>> = BTreeMap::new();
    for o in all {
        for (id, seq) in &o.frag_seqs {
            match seen.get(id) {
                Some(s) if s != seq => return true,
                Some(_) => {}
                None => {
                    seen.insert(*id, seq.clone());
                }
            }
        }
    }
    false
}

fn run_c06(args: &Args) -> i32 {
    let rt = runtime();
    let mut sink = Sink::new("C06", &args.out);
    let mut steps_stream = Stream::new("store_steps", "Common.Base Store.Model_History", "chk_step", "(list (rel * N)) * ((N * N) * list rel)", "list (rel * N)");
    steps_stream.shard = 60;
    let mut closed_stream = Stream::new("manifest_closed", "Common.Base Store.Model_History", "chk_closed", "(list (rel * N)) * list rel", "bool");
    closed_stream.shard = 100;
    let plant = std::env::var("HX_C06_PLANT").unwrap_or_default();
    let mut rng = Rng::new(args.seed);
    let nhist = args.vol(8, 40);
    for h in 0..nhist {
        let mut r = rng.fork();
        let stable = r.chance(1, 2);
        let nsteps = r.range(6, if args.thorough() { 16 } else { 11 }) as usize;
        let opts = GenOpts { overwrite: r.chance(1, 2), cleanup: r.chance(1, 2), tags: true, schema_changes: r.chance(1, 2) };
        let (_guard, root) = tmp_root("c06");
        let uri = root.join("t.lance").to_str().unwrap().to_string();
        let session = Arc::new(Session::default());
        let n0 = r.range(3, 10) as usize;
        let mrf = *r.pick(&[3usize, 5, 100]);
        let res: Result<(), String> = rt.block_on(async {
            let mut t = Tbl::create(&uri, n0, 0, mrf, stable, session.clone()).await?;
            let mut names = Names::new();
            let mut recorded: BTreeMap<u64, Obs> = BTreeMap::new();
            let mut every: Vec<Obs> = vec![];
            let o1 = observe(&open_fresh(&uri, Some(1)).await?).await;
            every.push(o1.clone());
            recorded.insert(1, o1);
            let mut before = list_dir(std::path::Path::new(&uri));
            for si in 0..nsteps {
                let cur = recorded.values().next_back().unwrap().clone();
                let versions: Vec<u64> = recorded.keys().copied().collect();
                let step = gen_step(&mut r, &t, &cur, &versions, &opts);
                let latest_before = t.ds.manifest().version;
                if let Err(e) = t.apply(&step).await {
                    sink.count(&format!("step_err/{}", step.kind()));
                    t.log.push(format!("   -> failed: {}", e.chars().take(100).collect::<String>()));
                    // a failed call must not have changed any old version either: fall through to the checks
                } else {
                    sink.count(&format!("step/{}", step.kind()));
                }
                let latest = t.ds.manifest().version;
                // ---- model side: the directory transition is an instance of the model's transition relation
                let mut after = list_dir(std::path::Path::new(&uri));
                if plant == "overwrite" && h == 0 && si == 2 {
                    // sanity plant: pretend an existing data file changed its content
                    if let Some(e) = after.iter_mut().find(|e| e.0.starts_with("data/")) {
                        e.1 ^= 1;
                    }
                }
                let kind = if step.is_cleanup() { 2 } else if step.is_tag() { 1 } else { 0 };
                let mut refd: Vec<String> = vec![];
                if step.is_cleanup() {
                    // what the versions still listed reference
                    for v in t.listed_versions().await? {
                        let d = open_fresh(&uri, Some(v)).await?;
                        for (p, _) in referenced(&d).await {
                            refd.push(if p.starts_with("_indices/") { format!("{p}/") } else { p });
                        }
                    }
                    refd.sort();
                    refd.dedup();
                }
                let refd_coq = coq::list(refd.iter().map(|p| if let Some(u) = p.strip_prefix("_indices/") { format!("(RIndex {} 0)", names.id(u.trim_end_matches('/'))) } else { coq_rel(p, &mut names) }));
                let inp = format!("({}, (({}, {}), {}))", coq_listing(&before, &mut names), kind, latest_before, refd_coq);
                steps_stream.push(inp, coq_listing(&after, &mut names), json!({"history": h, "step": si, "op": step.describe(), "log": t.log.clone(), "files_before": before.len(), "files_after": after.len()}));
                sink.nontrivial(&format!("{h}/{si}/{}", step.describe()));
                // ---- record the versions committed by this step (fresh session = no cache involved)
                for v in (latest_before + 1)..=latest {
                    let d = open_fresh(&uri, Some(v)).await?;
                    let o = observe(&d).await;
                    // closedness of the new manifest
                    let refs = referenced(&d).await;
                    let refs_coq = coq::list(refs.iter().map(|(p, _)| if let Some(u) = p.strip_prefix("_indices/") { format!("(RIndex {} 0)", names.id(u)) } else { coq_rel(p, &mut names) }));
                    closed_stream.push(format!("({}, {})", coq_listing(&after, &mut names), refs_coq), "true".into(), json!({"history": h, "version": v, "refs": refs.len()}));
                    every.push(o.clone());
                    recorded.insert(v, o);
                }
                if step.is_cleanup() {
                    let listed = t.listed_versions().await?;
                    recorded.retain(|v, _| listed.contains(v));
                }
                // ---- C06 oracle: every recorded version, fresh session and shared session
                let reused = stable && frag_id_reused(&every);
                for (v, exp) in recorded.iter() {
                    let case = |how: &str, d: serde_json::Value| json!({"history": h, "seed": args.seed, "stable_row_ids": stable, "version": v, "after_step": si, "session": how, "log": t.log.clone(), "diff": d});
                    match open_fresh(&uri, Some(*v)).await {
                        Ok(d) => {
                            let mut o = observe(&d).await;
                            if plant == "row" && h == 0 && si == 3 && *v == 1 {
                                o.comp.insert("rows", "planted".into());
                            }
                            let df = diff(exp, &o);
                            if df.is_empty() {
                                sink.oracle_ok();
                            } else {
                                sink.oracle_fail(None, &format!("version {v} read with a fresh session differs from its commit-time snapshot in {:?}", df), case("fresh", diff_json(exp, &o, "snapshot", "now")));
                            }
                        }
                        Err(e) => sink.oracle_fail(None, &format!("version {v} no longer opens: {e}"), case("fresh", json!(null))),
                    }
                    let dsh = t.ds.clone();
                    let vv = *v;
                    match guarded(async move { dsh.checkout_version(vv).await }).await {
                        Ok(d) => {
                            let o = observe(&d).await;
                            let df = diff(exp, &o);
                            if df.is_empty() {
                                sink.oracle_ok();
                            } else if reused && df.iter().all(|c| ROWID_COMPONENTS.contains(c)) {
                                sink.count("known/shared_session_fragment_keyed_cache");
                                sink.oracle_fail(Some(KNOWN_B2), &format!("version {v} read through the shared session differs in {:?}", df), case("shared", diff_json(exp, &o, "snapshot", "now")));
                            } else {
                                sink.oracle_fail(None, &format!("version {v} read through the shared session differs from its commit-time snapshot in {:?}", df), case("shared", diff_json(exp, &o, "snapshot", "now")));
                            }
                        }
                        Err(e) => sink.oracle_fail(None, &format!("version {v} no longer checks out through the shared session: {e}"), case("shared", json!(null))),
                    }
                }
                before = if plant.is_empty() { after } else { list_dir(std::path::Path::new(&uri)) };
            }
            sink.count_n("versions_recorded", every.len() as u64);
            Ok(())
        });
        if let Err(e) = res {
            sink.oracle_fail(None, &format!("history {h} aborted: {e}"), json!({"history": h, "seed": args.seed}));
        }
    }
    sink.notes.push("one stream case = one real step (directory listing before/after with content digests) checked against the model's transition relation".into());
    sink.add(steps_stream);
    sink.add(closed_stream);
    sink.finish();
    0
}

/// B2 on the real code: stable ids; create 4 rows in 2 fragments; overwrite with 2 rows; checkout_version(1)
fn probe(_args: &Args) -> i32 {
    let rt = runtime();
    rt.block_on(async {
        let (_g, root) = tmp_root("c06probe");
        let uri = root.join("t.lance").to_str().unwrap().to_string();
        let session = Arc::new(Session::default());
        let mut t = Tbl::create(&uri, 4, 0, 2, true, session.clone()).await.unwrap();
        let snap1 = observe(&open_fresh(&uri, Some(1)).await.unwrap()).await;
        t.apply(&Step::Overwrite { n: 2 }).await.unwrap();
        let _ = observe(&t.ds).await;
        let sh = observe(&t.ds.checkout_version(1).await.unwrap()).await;
        let fr = observe(&open_fresh(&uri, Some(1)).await.unwrap()).await;
        println!("fresh  v1 rowids: {}", fr.comp["rowids"]);
        println!("shared v1 rowids: {}", sh.comp["rowids"]);
        println!("diff(snapshot, fresh)  = {:?}", diff(&snap1, &fr));
        println!("diff(snapshot, shared) = {:?}", diff(&snap1, &sh));
    });
    0
}

fn main() {
    let (sub, args) = Args::parse();
    // panics inside guarded tasks are reported as step / observation errors, not on stderr
    std::panic::set_hook(Box::new(|_| {}));
    let code = match sub.as_str() {
        "c06" => run_c06(&args),
        "probe" => probe(&args),
        _ => {
            eprintln!("unknown subcommand {sub}");
            2
        }
    };
    std::process::exit(code);
}
