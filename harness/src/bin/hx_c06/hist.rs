//! Shared history driver for C06 / C42 / C38 (hx_c42 and hx_c38 include this file by #[path]).
//! Real datasets on local temp directories; every mutation goes through ONE handle that carries the
//! table's `Session` (so the write path fills the caches); every committed version is *observed*
//! (schema, ordered rows, `_rowid`s, counts, fragments + deletion counts, config, index list, indexed
//! filters, take by offset, take by row id, transaction) either through that session or through a
//! brand-new one.  Observations are canonical strings per component, compared component-wise.
#![allow(dead_code)]
use arrow_array::{Array, Int64Array, RecordBatch, RecordBatchIterator, StringArray, UInt64Array};
use arrow_schema::{DataType, Field, Schema as ArrowSchema};
use futures::TryStreamExt;
use hxlib::util::Rng;
use lance::dataset::builder::DatasetBuilder;
use lance::dataset::optimize::{compact_files, CompactionOptions};
use lance::dataset::{MergeInsertBuilder, NewColumnTransform, UpdateBuilder, WhenMatched, WhenNotMatched, WriteMode, WriteParams};
use lance::session::Session;
use lance::Dataset;
use lance_index::scalar::ScalarIndexParams;
use lance_index::{DatasetIndexExt, IndexType};
use lance_table::format::RowIdMeta;
use serde_json::{json, Value};
use std::collections::{BTreeMap, BTreeSet};
use std::future::Future;
use std::path::{Path, PathBuf};
use std::sync::Arc;

pub fn base_schema() -> Arc<ArrowSchema> {
    Arc::new(ArrowSchema::new(vec![
        Field::new("k", DataType::Int64, false),
        Field::new("x", DataType::Int64, true),
        Field::new("s", DataType::Utf8, true),
    ]))
}

/// rows k = keys, x = k*10 + salt (NULL when k % 7 == 3), s = "s<k>" (NULL when k % 5 == 4)
pub fn mk_batch(keys: &[i64], salt: i64) -> RecordBatch {
    let xs: Vec<Option<i64>> = keys.iter().map(|k| if k % 7 == 3 { None } else { Some(k * 10 + salt) }).collect();
    let ss: Vec<Option<String>> = keys.iter().map(|k| if k % 5 == 4 { None } else { Some(format!("s{k}")) }).collect();
    RecordBatch::try_new(base_schema(), vec![Arc::new(Int64Array::from(keys.to_vec())), Arc::new(Int64Array::from(xs)), Arc::new(StringArray::from(ss))]).unwrap()
}

/// Run a fallible async operation on its own task: Ok | Err("message") ; a panic is reported as "PANIC: ..".
pub async fn guarded<T: Send + 'static>(fut: impl Future<Output = lance::Result<T>> + Send + 'static) -> Result<T, String> {
    match tokio::spawn(fut).await {
        Ok(Ok(v)) => Ok(v),
        Ok(Err(e)) => Err(e.to_string().chars().take(300).collect()),
        Err(e) => {
            let msg = if e.is_panic() {
                let p = e.into_panic();
                if let Some(s) = p.downcast_ref::<String>() {
                    s.clone()
                } else if let Some(s) = p.downcast_ref::<&str>() {
                    s.to_string()
                } else {
                    "panic".into()
                }
            } else {
                "cancelled".into()
            };
            Err(format!("PANIC: {}", msg.chars().take(300).collect::<String>()))
        }
    }
}

// ------------------------------------------------------------------------------------------ observation
/// Canonical observation of one checked-out version: component name -> canonical string.
#[derive(Clone, Debug, PartialEq, Eq)]
pub struct Obs {
    pub version: u64,
    pub comp: BTreeMap<&'static str, String>,
    /// decoded for probes / class predicates
    pub nrows: usize,
    pub keys: Vec<i64>,
    pub rowids: Vec<u64>,
    /// (fragment id, row id sequence of the manifest) - from the manifest itself, not from any cache
    pub frag_seqs: Vec<(u64, Option<Vec<u64>>)>,
    pub index_uuids: Vec<String>,
}

/// components whose value depends on decoded row id sequences / the row id index / the row id mask
pub const ROWID_COMPONENTS: [&str; 3] = ["rowids", "take_rows", "filters"];

fn cell(a: &dyn Array, i: usize) -> String {
    if a.is_null(i) {
        return "NULL".into();
    }
    if let Some(x) = a.as_any().downcast_ref::<Int64Array>() {
        return x.value(i).to_string();
    }
    if let Some(x) = a.as_any().downcast_ref::<UInt64Array>() {
        return x.value(i).to_string();
    }
    if let Some(x) = a.as_any().downcast_ref::<StringArray>() {
        return format!("{:?}", x.value(i));
    }
    format!("<{:?}>", a.data_type())
}

fn batches_rows(bs: &[RecordBatch]) -> Vec<Vec<String>> {
    let mut out = vec![];
    for b in bs {
        for i in 0..b.num_rows() {
            out.push(b.columns().iter().map(|c| cell(c.as_ref(), i)).collect());
        }
    }
    out
}

fn res<T: std::fmt::Debug>(r: &Result<T, String>) -> String {
    match r {
        Ok(v) => format!("{:?}", v),
        Err(e) => format!("ERR({})", e.chars().take(160).collect::<String>()),
    }
}

async fn scan_cols(ds: &Dataset, cols: Vec<String>, rowid: bool, filter: Option<String>) -> lance::Result<Vec<RecordBatch>> {
    let mut sc = ds.scan();
    sc.project(&cols)?;
    if rowid {
        sc.with_row_id();
    }
    if let Some(f) = filter {
        sc.filter(&f)?;
    } else {
        sc.scan_in_order(true);
    }
    sc.try_into_stream().await?.try_collect().await
}

/// Observe `ds` (a handle checked out at some version). Never panics: each component is guarded.
pub async fn observe(ds: &Dataset) -> Obs {
    let mut comp: BTreeMap<&'static str, String> = BTreeMap::new();
    let version = ds.manifest().version;
    let schema: Vec<(String, i32, String, bool)> = ds.schema().fields.iter().map(|f| (f.name.clone(), f.id, format!("{:?}", f.data_type()), f.nullable)).collect();
    comp.insert("schema", format!("{:?}", schema));
    let cols: Vec<String> = schema.iter().map(|f| f.0.clone()).collect();
    // ordered rows, all user columns
    let d = ds.clone();
    let c2 = cols.clone();
    let rows = guarded(async move { scan_cols(&d, c2, false, None).await }).await.map(|b| batches_rows(&b));
    let nrows = rows.as_ref().map(|r| r.len()).unwrap_or(0);
    comp.insert("rows", res(&rows));
    // k + _rowid in storage order
    let d = ds.clone();
    let rid = guarded(async move { scan_cols(&d, vec!["k".to_string()], true, None).await }).await.map(|b| batches_rows(&b));
    let mut keys = vec![];
    let mut rowids = vec![];
    if let Ok(r) = &rid {
        for row in r {
            keys.push(row[0].parse::<i64>().unwrap_or(i64::MIN));
            rowids.push(row.last().unwrap().parse::<u64>().unwrap_or(u64::MAX));
        }
    }
    comp.insert("rowids", res(&rid));
    let d = ds.clone();
    let cnt = guarded(async move { d.count_rows(None).await }).await;
    comp.insert("count", res(&cnt));
    // fragments: (id, physical rows, #deleted through the deletion vector, data file count)
    let d = ds.clone();
    let frags = guarded(async move {
        let mut v = vec![];
        for f in d.get_fragments() {
            let del = f.count_deletions().await?;
            v.push((f.id() as u64, f.metadata().physical_rows.unwrap_or(0) as u64, del as u64, f.metadata().files.len() as u64));
        }
        Ok(v)
    })
    .await;
    comp.insert("fragments", res(&frags));
    let mut config: Vec<(String, String)> = ds.config().iter().map(|(k, v)| (k.clone(), v.clone())).collect();
    config.sort();
    comp.insert("config", format!("{:?}", config));
    let d = ds.clone();
    let idx = guarded(async move {
        let idx = d.load_indices().await?;
        let mut v: Vec<(String, Vec<i32>, String, Option<Vec<u32>>, u64)> = idx.iter().map(|i| (i.name.clone(), i.fields.clone(), i.uuid.to_string(), i.fragment_bitmap.as_ref().map(|b| b.iter().collect()), i.dataset_version)).collect();
        v.sort();
        Ok(v)
    })
    .await;
    let index_uuids = idx.as_ref().map(|v| v.iter().map(|i| i.2.clone()).collect()).unwrap_or_default();
    comp.insert("indices", res(&idx));
    // filters that an index on k / x can answer (results sorted by k); same probes for every observer of this version
    let kmax = keys.iter().copied().max().unwrap_or(0).max(1);
    let probes = [
        format!("k = {}", (version as i64 * 3) % (kmax + 1)),
        format!("k >= {} AND k < {}", (version as i64 * 5) % (kmax + 1), (version as i64 * 5) % (kmax + 1) + 6),
        format!("x = {}", ((version as i64 * 7) % (kmax + 1)) * 10),
        "k < 4".to_string(),
    ];
    let mut fl = vec![];
    for p in probes.iter() {
        let d = ds.clone();
        let pp = p.clone();
        let r = guarded(async move { scan_cols(&d, vec!["k".to_string()], true, Some(pp)).await }).await.map(|b| {
            let mut r = batches_rows(&b);
            r.sort();
            r
        });
        fl.push(format!("{} -> {}", p, res(&r)));
    }
    comp.insert("filters", fl.join(" ; "));
    // take by offset
    let offs: Vec<u64> = if nrows == 0 { vec![] } else { vec![0, (nrows / 2) as u64, (nrows - 1) as u64] };
    let d = ds.clone();
    let o2 = offs.clone();
    let tk = guarded(async move {
        if o2.is_empty() {
            return Ok(vec![]);
        }
        let b = d.take(&o2, d.schema().clone()).await?;
        Ok(batches_rows(&[b]))
    })
    .await;
    comp.insert("take", res(&tk));
    // take by row id (ids as this observer scanned them)
    let ids: Vec<u64> = if rowids.is_empty() { vec![] } else { vec![rowids[0], rowids[rowids.len() / 2], rowids[rowids.len() - 1]] };
    let d = ds.clone();
    let tr = guarded(async move {
        if ids.is_empty() {
            return Ok(vec![]);
        }
        let b = d.take_rows(&ids, d.schema().clone()).await?;
        Ok(batches_rows(&[b]))
    })
    .await;
    comp.insert("take_rows", res(&tr));
    let d = ds.clone();
    let tx = guarded(async move { Ok(d.read_transaction().await?.map(|t| format!("{}@{}", t.operation.name(), t.read_version))) }).await;
    comp.insert("txn", res(&tx));
    let frag_seqs = ds
        .manifest()
        .fragments
        .iter()
        .map(|f| {
            (
                f.id,
                match &f.row_id_meta {
                    Some(RowIdMeta::Inline(data)) => lance_table::rowids::read_row_ids(data).ok().map(|s| s.iter().collect()),
                    _ => None,
                },
            )
        })
        .collect();
    // error texts may quote object paths: make them independent of where the table lives (C42 compares across locations)
    let u = ds.uri().to_string();
    let u2 = u.trim_start_matches('/').to_string();
    for v in comp.values_mut() {
        if v.contains(&u2) {
            *v = v.replace(&u, "<uri>").replace(&u2, "<uri>");
        }
    }
    Obs { version, comp, nrows, keys, rowids, frag_seqs, index_uuids }
}

/// names of the components on which two observations differ
pub fn diff(a: &Obs, b: &Obs) -> Vec<&'static str> {
    let mut out = vec![];
    let names: BTreeSet<&'static str> = a.comp.keys().chain(b.comp.keys()).copied().collect();
    for n in names {
        if a.comp.get(n) != b.comp.get(n) {
            out.push(n);
        }
    }
    out
}

pub fn diff_json(a: &Obs, b: &Obs, la: &str, lb: &str) -> Value {
    let mut m = serde_json::Map::new();
    for n in diff(a, b) {
        let cut = |s: Option<&String>| s.map(|s| s.chars().take(260).collect::<String>()).unwrap_or_else(|| "<absent>".into());
        m.insert(n.to_string(), json!({la: cut(a.comp.get(n)), lb: cut(b.comp.get(n))}));
    }
    Value::Object(m)
}

pub async fn open_fresh(uri: &str, version: Option<u64>) -> Result<Dataset, String> {
    let uri = uri.to_string();
    guarded(async move {
        let mut b = DatasetBuilder::from_uri(&uri);
        if let Some(v) = version {
            b = b.with_version(v);
        }
        b.load().await
    })
    .await
}

// ------------------------------------------------------------------------------------------ steps
#[derive(Clone, Debug)]
pub enum Step {
    Append { n: usize },
    Delete { pred: String },
    Update { pred: String, add: i64 },
    Merge { old: Vec<i64>, fresh: usize },
    Compact { target: usize },
    CreateIndex { col: String },
    AddCol,
    DropCol,
    Overwrite { n: usize },
    Restore { version: u64 },
    TagCreate { name: String, version: u64 },
    TagUpdate { name: String, version: u64 },
    TagDelete { name: String },
    Config { key: String, val: String },
    Cleanup,
}
impl Step {
    pub fn describe(&self) -> String {
        match self {
            Step::Append { n } => format!("append n={n}"),
            Step::Delete { pred } => format!("delete `{pred}`"),
            Step::Update { pred, add } => format!("update x=x+{add} where `{pred}`"),
            Step::Merge { old, fresh } => format!("merge_insert on k matched={:?} fresh={}", old, fresh),
            Step::Compact { target } => format!("compact target_rows={target}"),
            Step::CreateIndex { col } => format!("create_index btree({col}) replace"),
            Step::AddCol => "add_columns y = k + 1".into(),
            Step::DropCol => "drop_columns y".into(),
            Step::Overwrite { n } => format!("overwrite n={n}"),
            Step::Restore { version } => format!("checkout_version({version}).restore()"),
            Step::TagCreate { name, version } => format!("tags.create({name}, {version})"),
            Step::TagUpdate { name, version } => format!("tags.update({name}, {version})"),
            Step::TagDelete { name } => format!("tags.delete({name})"),
            Step::Config { key, val } => format!("update_config {key}={val}"),
            Step::Cleanup => "cleanup_old_versions(0s, delete_unverified=false, error_if_tagged=false)".into(),
        }
    }
    pub fn is_cleanup(&self) -> bool {
        matches!(self, Step::Cleanup)
    }
    pub fn is_tag(&self) -> bool {
        matches!(self, Step::TagCreate { .. } | Step::TagUpdate { .. } | Step::TagDelete { .. })
    }
    pub fn kind(&self) -> &'static str {
        match self {
            Step::Append { .. } => "append",
            Step::Delete { .. } => "delete",
            Step::Update { .. } => "update",
            Step::Merge { .. } => "merge_insert",
            Step::Compact { .. } => "compact",
            Step::CreateIndex { .. } => "create_index",
            Step::AddCol => "add_column",
            Step::DropCol => "drop_column",
            Step::Overwrite { .. } => "overwrite",
            Step::Restore { .. } => "restore",
            Step::TagCreate { .. } => "tag_create",
            Step::TagUpdate { .. } => "tag_update",
            Step::TagDelete { .. } => "tag_delete",
            Step::Config { .. } => "config",
            Step::Cleanup => "cleanup",
        }
    }
}

pub struct Tbl {
    pub uri: String,
    /// latest handle, carries `session`
    pub ds: Dataset,
    pub session: Arc<Session>,
    pub stable: bool,
    pub next_k: i64,
    pub has_y: bool,
    pub max_rows_per_file: usize,
    pub log: Vec<String>,
    pub tags: BTreeMap<String, u64>,
}

impl Tbl {
    pub fn params(&self, mode: WriteMode) -> WriteParams {
        WriteParams { max_rows_per_file: self.max_rows_per_file, max_rows_per_group: 1024, mode, enable_stable_row_ids: self.stable, session: Some(self.session.clone()), ..Default::default() }
    }

    /// create a new table at `uri` (must not exist) through `session`
    pub async fn create(uri: &str, n: usize, first_k: i64, max_rows_per_file: usize, stable: bool, session: Arc<Session>) -> Result<Tbl, String> {
        let keys: Vec<i64> = (first_k..first_k + n as i64).collect();
        let params = WriteParams { max_rows_per_file, max_rows_per_group: 1024, enable_stable_row_ids: stable, session: Some(session.clone()), ..Default::default() };
        let u = uri.to_string();
        let b = mk_batch(&keys, 0);
        let ds = guarded(async move { Dataset::write(RecordBatchIterator::new(vec![Ok(b)], base_schema()), &u, Some(params)).await }).await?;
        Ok(Tbl { uri: uri.to_string(), ds, session, stable, next_k: first_k + n as i64, has_y: false, max_rows_per_file, log: vec![format!("create n={n} first_k={first_k} max_rows_per_file={max_rows_per_file} stable_row_ids={stable}")], tags: Default::default() })
    }

    /// re-open the table at another location (after the directory was copied) through `session`
    pub async fn reopen_at(&mut self, uri: &str, session: Arc<Session>) -> Result<(), String> {
        let u = uri.to_string();
        let s = session.clone();
        self.ds = guarded(async move { DatasetBuilder::from_uri(&u).with_session(s).load().await }).await?;
        self.uri = uri.to_string();
        self.session = session;
        self.log.push(format!("-- directory copied to a new location, original removed, reopened"));
        Ok(())
    }

    fn fresh_keys(&mut self, n: usize) -> Vec<i64> {
        let v: Vec<i64> = (self.next_k..self.next_k + n as i64).collect();
        self.next_k += n as i64;
        v
    }

    fn cur_schema(&self) -> Arc<ArrowSchema> {
        base_schema()
    }

    /// Applies the step through the public API on the session-carrying handle.
    pub async fn apply(&mut self, step: &Step) -> Result<(), String> {
        self.log.push(step.describe());
        let salt = self.ds.manifest().version as i64 * 100000;
        match step {
            Step::Append { n } | Step::Overwrite { n } => {
                let overwrite = matches!(step, Step::Overwrite { .. });
                if self.has_y && !overwrite {
                    // appended batches must carry y as well
                    let keys = self.fresh_keys(*n);
                    let b = mk_batch(&keys, 0);
                    let ys: Vec<i64> = keys.iter().map(|k| k + 1).collect();
                    let mut fields: Vec<Field> = base_schema().fields().iter().map(|f| f.as_ref().clone()).collect();
                    fields.push(Field::new("y", DataType::Int64, true));
                    let sch = Arc::new(ArrowSchema::new(fields));
                    let mut colsv = b.columns().to_vec();
                    colsv.push(Arc::new(Int64Array::from(ys)));
                    let b = RecordBatch::try_new(sch.clone(), colsv).unwrap();
                    let params = self.params(WriteMode::Append);
                    let dest = Arc::new(self.ds.clone());
                    self.ds = guarded(async move { Dataset::write(RecordBatchIterator::new(vec![Ok(b)], sch), dest, Some(params)).await }).await?;
                } else {
                    let keys = self.fresh_keys(*n);
                    let b = mk_batch(&keys, 0);
                    let params = self.params(if overwrite { WriteMode::Overwrite } else { WriteMode::Append });
                    let dest = Arc::new(self.ds.clone());
                    let sch = self.cur_schema();
                    self.ds = guarded(async move { Dataset::write(RecordBatchIterator::new(vec![Ok(b)], sch), dest, Some(params)).await }).await?;
                    if overwrite {
                        self.has_y = false;
                    }
                }
            }
            Step::Delete { pred } => {
                let mut ds = self.ds.clone();
                let p = pred.clone();
                self.ds = guarded(async move {
                    ds.delete(&p).await?;
                    Ok(ds)
                })
                .await?;
            }
            Step::Update { pred, add } => {
                let ds = Arc::new(self.ds.clone());
                let p = pred.clone();
                let add = *add;
                let r = guarded(async move { UpdateBuilder::new(ds).update_where(&p)?.set("x", &format!("x + {add}"))?.build()?.execute().await }).await?;
                self.ds = r.new_dataset.as_ref().clone();
            }
            Step::Merge { old, fresh } => {
                if self.has_y {
                    return Err("skipped: merge_insert with y column".into());
                }
                let mut keys = old.clone();
                keys.extend(self.fresh_keys(*fresh));
                let ds = Arc::new(self.ds.clone());
                let b = mk_batch(&keys, 7 + salt);
                let (nds, _) = guarded(async move {
                    let mut mb = MergeInsertBuilder::try_new(ds, vec!["k".to_string()])?;
                    mb.when_matched(WhenMatched::UpdateAll);
                    mb.when_not_matched(WhenNotMatched::InsertAll);
                    mb.try_build()?.execute_reader(Box::new(RecordBatchIterator::new(vec![Ok(b)], base_schema()))).await
                })
                .await?;
                self.ds = nds.as_ref().clone();
            }
            Step::Compact { target } => {
                let mut ds = self.ds.clone();
                let opts = CompactionOptions { target_rows_per_fragment: *target, materialize_deletions: true, materialize_deletions_threshold: 0.0, num_threads: Some(1), ..Default::default() };
                self.ds = guarded(async move {
                    compact_files(&mut ds, opts, None).await?;
                    Ok(ds)
                })
                .await?;
            }
            Step::CreateIndex { col } => {
                let mut ds = self.ds.clone();
                let c = col.clone();
                self.ds = guarded(async move {
                    ds.create_index(&[c.as_str()], IndexType::BTree, Some(format!("{c}_idx")), &ScalarIndexParams::default(), true).await?;
                    Ok(ds)
                })
                .await?;
            }
            Step::AddCol => {
                let mut ds = self.ds.clone();
                self.ds = guarded(async move {
                    ds.add_columns(NewColumnTransform::SqlExpressions(vec![("y".to_string(), "k + 1".to_string())]), None, None).await?;
                    Ok(ds)
                })
                .await?;
                self.has_y = true;
            }
            Step::DropCol => {
                let mut ds = self.ds.clone();
                self.ds = guarded(async move {
                    ds.drop_columns(&["y"]).await?;
                    Ok(ds)
                })
                .await?;
                self.has_y = false;
            }
            Step::Restore { version } => {
                let ds = self.ds.clone();
                let v = *version;
                self.ds = guarded(async move {
                    let mut old = ds.checkout_version(v).await?;
                    old.restore().await?;
                    Ok(old)
                })
                .await?;
                self.has_y = self.ds.schema().field("y").is_some();
            }
            Step::TagCreate { name, version } => {
                let ds = self.ds.clone();
                let (n, v) = (name.clone(), *version);
                guarded(async move { ds.tags().create(&n, v).await }).await?;
                self.tags.insert(name.clone(), *version);
            }
            Step::TagUpdate { name, version } => {
                let ds = self.ds.clone();
                let (n, v) = (name.clone(), *version);
                guarded(async move { ds.tags().update(&n, v).await }).await?;
                self.tags.insert(name.clone(), *version);
            }
            Step::TagDelete { name } => {
                let ds = self.ds.clone();
                let n = name.clone();
                guarded(async move { ds.tags().delete(&n).await }).await?;
                self.tags.remove(name);
            }
            Step::Config { key, val } => {
                let mut ds = self.ds.clone();
                let (k, v) = (key.clone(), val.clone());
                self.ds = guarded(async move {
                    ds.update_config([(k, v)]).await?;
                    Ok(ds)
                })
                .await?;
            }
            Step::Cleanup => {
                let ds = self.ds.clone();
                guarded(async move {
                    ds.cleanup_old_versions(chrono::Duration::zero(), Some(false), Some(false)).await?;
                    Ok(())
                })
                .await?;
            }
        }
        Ok(())
    }

    pub async fn listed_versions(&self) -> Result<Vec<u64>, String> {
        let ds = self.ds.clone();
        guarded(async move { Ok(ds.versions().await?.iter().map(|v| v.version).collect()) }).await
    }
}

/// Random predicate over k.
pub fn gen_pred(rng: &mut Rng, keys: &[i64], next_k: i64) -> String {
    let n = next_k.max(1);
    match rng.below(6) {
        0 => {
            let m = rng.range(2, 5);
            format!("k % {} = {}", m, rng.below(m))
        }
        1 => {
            let a = rng.below(n as u64) as i64;
            let b = a + rng.range(0, 6) as i64;
            format!("k >= {a} AND k <= {b}")
        }
        2 | 3 if !keys.is_empty() => {
            let cnt = rng.range(1, 3);
            let ks: Vec<String> = (0..cnt).map(|_| rng.pick(keys).to_string()).collect();
            format!("k IN ({})", ks.join(", "))
        }
        4 if !keys.is_empty() => format!("k = {}", rng.pick(keys)),
        _ => format!("k < {}", rng.below(n as u64 + 1)),
    }
}

pub struct GenOpts {
    pub overwrite: bool,
    pub cleanup: bool,
    pub tags: bool,
    pub schema_changes: bool,
}

/// Next random step that is valid in the current state.
pub fn gen_step(rng: &mut Rng, t: &Tbl, cur: &Obs, versions: &[u64], o: &GenOpts) -> Step {
    for _ in 0..50 {
        let c = rng.below(100);
        let s = match c {
            0..=17 => Step::Append { n: rng.range(1, 9) as usize },
            18..=29 => Step::Delete { pred: gen_pred(rng, &cur.keys, t.next_k) },
            30..=39 => Step::Update { pred: gen_pred(rng, &cur.keys, t.next_k), add: rng.range(1, 9) as i64 },
            40..=47 if !t.has_y => {
                let cnt = rng.below(4) as usize;
                let mut old: Vec<i64> = (0..cnt).filter_map(|_| if cur.keys.is_empty() { None } else { Some(*rng.pick(&cur.keys)) }).collect();
                old.sort();
                old.dedup();
                Step::Merge { old, fresh: rng.below(4) as usize }
            }
            48..=56 => Step::Compact { target: *rng.pick(&[4usize, 8, 64]) },
            57..=65 => Step::CreateIndex { col: if rng.chance(2, 3) { "k".into() } else { "x".into() } },
            66..=69 if o.schema_changes && !t.has_y => Step::AddCol,
            66..=69 if o.schema_changes && t.has_y => Step::DropCol,
            70..=75 if o.overwrite => Step::Overwrite { n: rng.range(1, 7) as usize },
            76..=82 if versions.len() > 1 => Step::Restore { version: *rng.pick(versions) },
            83..=88 if o.tags => {
                let name = format!("t{}", rng.below(3));
                let v = *rng.pick(versions);
                if t.tags.contains_key(&name) {
                    if rng.chance(1, 3) {
                        Step::TagDelete { name }
                    } else {
                        Step::TagUpdate { name, version: v }
                    }
                } else {
                    Step::TagCreate { name, version: v }
                }
            }
            89..=93 => Step::Config { key: format!("c{}", rng.below(3)), val: format!("v{}", rng.below(50)) },
            94..=99 if o.cleanup && versions.len() > 2 => Step::Cleanup,
            _ => continue,
        };
        return s;
    }
    Step::Append { n: 1 }
}

// ------------------------------------------------------------------------------------------ directory listing
/// FNV-1a 64
pub fn digest(bytes: &[u8]) -> u64 {
    let mut h: u64 = 0xcbf29ce484222325;
    for b in bytes {
        h ^= *b as u64;
        h = h.wrapping_mul(0x100000001b3);
    }
    h
}

/// every file below `root`: (path relative to root with '/', digest of the content), sorted
pub fn list_dir(root: &Path) -> Vec<(String, u64)> {
    fn walk(root: &Path, dir: &Path, out: &mut Vec<(String, u64)>) {
        if let Ok(rd) = std::fs::read_dir(dir) {
            for e in rd.flatten() {
                let p = e.path();
                if p.is_dir() {
                    walk(root, &p, out);
                } else if let Ok(bytes) = std::fs::read(&p) {
                    let rel = p.strip_prefix(root).unwrap().to_string_lossy().replace('\\', "/");
                    out.push((rel, digest(&bytes)));
                }
            }
        }
    }
    let mut out = vec![];
    walk(root, root, &mut out);
    out.sort();
    out
}

/// `cp -r src dst` with std::fs (dst must not exist)
pub fn copy_dir(src: &Path, dst: &Path) -> std::io::Result<()> {
    std::fs::create_dir_all(dst)?;
    for e in std::fs::read_dir(src)? {
        let e = e?;
        let p = e.path();
        let to = dst.join(e.file_name());
        if p.is_dir() {
            copy_dir(&p, &to)?;
        } else {
            std::fs::copy(&p, &to)?;
        }
    }
    Ok(())
}

/// A relative table path as a term of the Coq type `rel` (Store/Model_History.v); names are interned.
pub struct Names {
    pub map: BTreeMap<String, u64>,
}
impl Names {
    pub fn new() -> Self {
        Names { map: Default::default() }
    }
    pub fn id(&mut self, s: &str) -> u64 {
        let n = self.map.len() as u64 + 1;
        *self.map.entry(s.to_string()).or_insert(n)
    }
}

/// `_versions/<v>.manifest` in either naming scheme
pub fn manifest_version(file: &str) -> Option<u64> {
    let stem = file.strip_suffix(".manifest")?;
    let n: u64 = stem.parse().ok()?;
    if stem.len() == 20 {
        Some(u64::MAX - n)
    } else {
        Some(n)
    }
}

pub fn coq_rel(path: &str, names: &mut Names) -> String {
    let parts: Vec<&str> = path.split('/').collect();
    match parts.as_slice() {
        ["_versions", f] => match manifest_version(f) {
            Some(v) => format!("(RManifest {v})"),
            None => format!("(ROther {})", names.id(path)),
        },
        ["data", f] if f.ends_with(".lance") => format!("(RData {})", names.id(f.trim_end_matches(".lance"))),
        ["_deletions", f] => {
            let stem = f.rsplit_once('.').map(|x| x.0).unwrap_or(f);
            let p: Vec<&str> = stem.split('-').collect();
            match p.as_slice() {
                [a, b, c] => match (a.parse::<u64>(), b.parse::<u64>(), c.parse::<u64>()) {
                    (Ok(a), Ok(b), Ok(c)) => format!("(RDel {a} {b} {c})"),
                    _ => format!("(ROther {})", names.id(path)),
                },
                _ => format!("(ROther {})", names.id(path)),
            }
        }
        ["_indices", u, rest @ ..] => format!("(RIndex {} {})", names.id(u), names.id(&rest.join("/"))),
        ["_transactions", f] => {
            let stem = f.trim_end_matches(".txn");
            match stem.split_once('-') {
                Some((rv, u)) if rv.parse::<u64>().is_ok() => format!("(RTxn {} {})", rv, names.id(u)),
                _ => format!("(ROther {})", names.id(path)),
            }
        }
        ["_refs", "tags", f] => format!("(RTag {})", names.id(f)),
        _ => format!("(ROther {})", names.id(path)),
    }
}

pub fn coq_listing(l: &[(String, u64)], names: &mut Names) -> String {
    hxlib::util::coq::list(l.iter().map(|(p, d)| format!("({}, {})", coq_rel(p, names), d)))
}

/// relative paths (as the manifest stores them) that version `ds` references, with the base_id of each:
/// ("data/<path>", base), ("_deletions/<f>-<rv>-<id>.<suffix>", base), ("_indices/<uuid>", base), ("_transactions/<file>", None)
pub async fn referenced(ds: &Dataset) -> Vec<(String, Option<u32>)> {
    let mut out = vec![];
    let m = ds.manifest();
    for f in m.fragments.iter() {
        for df in &f.files {
            out.push((format!("data/{}", df.path), df.base_id));
        }
        if let Some(d) = &f.deletion_file {
            out.push((format!("_deletions/{}-{}-{}.{}", f.id, d.read_version, d.id, d.file_type.suffix()), d.base_id));
        }
    }
    if let Ok(idx) = ds.load_indices().await {
        for i in idx.iter() {
            out.push((format!("_indices/{}", i.uuid), i.base_id));
        }
    }
    if let Some(t) = &m.transaction_file {
        out.push((format!("_transactions/{}", t), None));
    }
    out
}

pub fn tmp_root(tag: &str) -> (tempfile::TempDir, PathBuf) {
    let d = tempfile::Builder::new().prefix(&format!("hx_{tag}_")).tempdir().unwrap();
    let p = d.path().to_path_buf();
    (d, p)
}

pub fn runtime() -> tokio::runtime::Runtime {
    tokio::runtime::Builder::new_multi_thread().worker_threads(4).enable_all().build().unwrap()
}
