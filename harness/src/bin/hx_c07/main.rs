//! hx_c07: restore reproduces the old version and keeps row identities unique (C07).
mod c07;
mod probe;
mod tbl;
mod unit;

fn main() {
    let (sub, args) = hxlib::util::Args::parse();
    let code = match sub.as_str() {
        "c07" => c07::run(&args),
        "probe" => probe::run(&args),
        _ => {
            eprintln!("unknown subcommand {sub}");
            2
        }
    };
    std::process::exit(code);
}
