//! Scripted histories printed in full (development aid; not part of the check).
use crate::tbl::*;
use hxlib::util::Args;
use lance::dataset::transaction::Operation;

fn op_summary(op: &Operation) -> String {
    match op {
        Operation::Append { fragments } => format!("Append new={:?}", fragments.iter().map(frag_abs_plain).collect::<Vec<_>>()),
        Operation::Delete { updated_fragments, deleted_fragment_ids, .. } => format!("Delete updated={:?} deleted_ids={:?}", updated_fragments.iter().map(|f| f.id).collect::<Vec<_>>(), deleted_fragment_ids),
        Operation::Update { removed_fragment_ids, updated_fragments, new_fragments, fields_modified, update_mode, .. } => format!(
            "Update removed={:?} updated={:?} new={:?} fields_modified={:?} mode={:?}",
            removed_fragment_ids,
            updated_fragments.iter().map(frag_abs_plain).collect::<Vec<_>>(),
            new_fragments.iter().map(frag_abs_plain).collect::<Vec<_>>(),
            fields_modified,
            update_mode
        ),
        Operation::Rewrite { groups, .. } => format!(
            "Rewrite groups={:?}",
            groups.iter().map(|g| (g.old_fragments.iter().map(|f| f.id).collect::<Vec<_>>(), g.new_fragments.iter().map(frag_abs_plain).collect::<Vec<_>>())).collect::<Vec<_>>()
        ),
        Operation::Overwrite { fragments, .. } => format!("Overwrite new={:?}", fragments.iter().map(frag_abs_plain).collect::<Vec<_>>()),
        Operation::Restore { version } => format!("Restore {version}"),
        other => other.name().to_string(),
    }
}

async fn show(t: &Tbl) {
    let m = manifest_abs(&t.ds).await;
    println!("  v{} next_row_id={} max_frag={:?}", m.version, m.next_row_id, m.max_fragment_id);
    if let Some(op) = t.committed_op().await {
        println!("    op: {}", op_summary(&op));
    }
    for f in &m.frags {
        println!("    frag {} rows={} ids={:?} created={:?} updated={:?} deleted={:?}", f.id, f.physical_rows, f.row_ids, f.created, f.updated, f.deleted);
    }
    match scan_rows(&t.ds, t.stable).await {
        Ok(rows) => println!("    scan: {}", rows.iter().map(|r| format!("k{}:x{}:id{}:a{}:c{}:u{}", r.k, r.x, r.rowid, r.addr, r.created, r.updated)).collect::<Vec<_>>().join(" ")),
        Err(e) => println!("    scan error {e}"),
    }
}

async fn script(name: &str, n: usize, mrpf: usize, stable: bool, steps: Vec<Step>) {
    println!("== {name}");
    let mut t = Tbl::create(n, mrpf, stable).await;
    show(&t).await;
    for s in steps {
        println!("  -- {}", s.describe());
        if let Err(e) = t.apply(&s).await {
            println!("  !! failed {:?}", e);
            break;
        }
        show(&t).await;
    }
}

pub fn run(args: &Args) -> i32 {
    let rt = tokio::runtime::Builder::new_multi_thread().worker_threads(4).enable_all().build().unwrap();
    let which = args.rest.first().cloned().unwrap_or_default();
    rt.block_on(async {
        if which == "fragid" {
            script("R1 restore then update on the same handle", 2, 100, true, vec![Step::Append { n: 2 }, Step::Restore { version: 1 }, Step::Update { pred: "k = 0".into(), add: 1000 }]).await;
            println!("== R2 overwrite then time travel in the same session");
            let mut t = Tbl::create(4, 2, true).await;
            show(&t).await;
            t.apply(&Step::Delete { pred: "k = 3".into() }).await.unwrap();
            t.apply(&Step::Overwrite { n: 2 }).await.unwrap();
            // Dataset::write opened a new session: touch the row ids of the new fragment 0 through this handle
            show(&t).await;
            let old = t.ds.checkout_version(1).await.unwrap();
            let rows = scan_rows(&old, true).await;
            println!("  checkout_version(1) in the same session: {:?}", rows.map(|r| r.iter().map(|r| format!("k{}:id{}", r.k, r.rowid)).collect::<Vec<_>>()));
            let fresh = lance::Dataset::open(&t.uri).await.unwrap().checkout_version(1).await.unwrap();
            let rows = scan_rows(&fresh, true).await;
            println!("  checkout_version(1) in a new session:    {:?}", rows.map(|r| r.iter().map(|r| format!("k{}:id{}", r.k, r.rowid)).collect::<Vec<_>>()));
            return;
        }
        script("F4", 2, 100, true, vec![Step::Append { n: 2 }, Step::Restore { version: 1 }, Step::Append { n: 2 }]).await;
        script("F5", 2, 100, true, vec![Step::Append { n: 2 }, Step::Append { n: 2 }, Step::Update { pred: "k = 5 OR k = 0".into(), add: 100 }]).await;
        script(
            "merge full",
            4,
            100,
            true,
            vec![Step::Append { n: 3 }, Step::Merge { old: vec![1, 5], fresh: 2, partial: false }, Step::Delete { pred: "k = 2".into() }, Step::Compact { target: 100, materialize: true }, Step::Update { pred: "k = 5".into(), add: 1 }],
        )
        .await;
        script("merge partial", 4, 100, true, vec![Step::Append { n: 3 }, Step::Merge { old: vec![1, 5], fresh: 0, partial: true }, Step::Merge { old: vec![4, 5, 6], fresh: 0, partial: true }, Step::Compact { target: 100, materialize: true }]).await;
        script("multi-file", 7, 3, true, vec![Step::Update { pred: "k % 2 = 0".into(), add: 1 }, Step::Delete { pred: "k >= 3 AND k <= 5".into() }, Step::Compact { target: 4, materialize: true }, Step::Overwrite { n: 3 }, Step::Append { n: 2 }]).await;
        script("unstable restore", 2, 100, false, vec![Step::Append { n: 2 }, Step::CreateIndex { col: "x".into() }, Step::Restore { version: 1 }, Step::Append { n: 2 }, Step::Restore { version: 3 }]).await;
    });
    0
}
