//! Shared table driver for C07 / C17 (hx_c17 includes this file by #[path]).
//! Real datasets on a local temp dir; every step records
//!   * the manifest abstraction (version, next_row_id, per fragment: id, physical rows, row-id sequence,
//!     created_at / last_updated_at sequences, deletion vector),
//!   * the operation the real API committed (read back from the transaction file),
//!   * the full scan with _rowid/_rowaddr/_row_created_at_version/_row_last_updated_at_version.
#![allow(dead_code)]
use arrow_array::{Array, Int64Array, RecordBatch, RecordBatchIterator, StringArray, UInt64Array};
use arrow_schema::{DataType, Field, Schema as ArrowSchema};
use futures::TryStreamExt;
use hxlib::util::{coq, Rng};
use lance::dataset::optimize::{compact_files, CompactionOptions};
use lance::dataset::transaction::Operation;
use lance::dataset::{MergeInsertBuilder, UpdateBuilder, WhenMatched, WhenNotMatched, WriteMode, WriteParams};
use lance::Dataset;
use lance_index::scalar::ScalarIndexParams;
use lance_index::{DatasetIndexExt, IndexType};
use lance_table::format::{Fragment, RowIdMeta};
use serde_json::{json, Value};
use std::future::Future;
use std::sync::Arc;

pub fn arrow_schema() -> Arc<ArrowSchema> {
    Arc::new(ArrowSchema::new(vec![
        Field::new("k", DataType::Int64, false),
        Field::new("x", DataType::Int64, true),
        Field::new("s", DataType::Utf8, true),
    ]))
}
pub fn kx_schema() -> Arc<ArrowSchema> {
    Arc::new(ArrowSchema::new(vec![Field::new("k", DataType::Int64, false), Field::new("x", DataType::Int64, true)]))
}

pub fn mk_batch(keys: &[i64], xs: &[i64]) -> RecordBatch {
    RecordBatch::try_new(
        arrow_schema(),
        vec![
            Arc::new(Int64Array::from(keys.to_vec())),
            Arc::new(Int64Array::from(xs.to_vec())),
            Arc::new(StringArray::from(keys.iter().map(|k| format!("s{k}")).collect::<Vec<_>>())),
        ],
    )
    .unwrap()
}
pub fn mk_kx_batch(keys: &[i64], xs: &[i64]) -> RecordBatch {
    RecordBatch::try_new(kx_schema(), vec![Arc::new(Int64Array::from(keys.to_vec())), Arc::new(Int64Array::from(xs.to_vec()))]).unwrap()
}

/// One visible row of a scan.
#[derive(Clone, Debug, PartialEq, Eq, PartialOrd, Ord)]
pub struct Row {
    pub k: i64,
    pub x: i64,
    pub s: String,
    pub rowid: u64,
    pub addr: u64,
    pub created: u64,
    pub updated: u64,
}

/// Abstraction of one fragment of a manifest.
#[derive(Clone, Debug, PartialEq, Eq)]
pub struct FragAbs {
    pub id: u64,
    pub physical_rows: u64,
    pub row_ids: Option<Vec<u64>>,
    pub created: Option<Vec<u64>>,
    pub updated: Option<Vec<u64>>,
    pub deleted: Vec<u64>, // sorted local offsets
}
#[derive(Clone, Debug, PartialEq, Eq)]
pub struct ManAbs {
    pub version: u64,
    pub next_row_id: u64,
    pub max_fragment_id: Option<u64>,
    pub stable: bool,
    pub frags: Vec<FragAbs>,
}

pub fn row_ids_of(f: &Fragment) -> Option<Vec<u64>> {
    match &f.row_id_meta {
        Some(RowIdMeta::Inline(data)) => Some(lance_table::rowids::read_row_ids(data).unwrap().iter().collect()),
        Some(RowIdMeta::External(_)) => panic!("external row id file not expected at these sizes"),
        None => None,
    }
}
pub fn versions_of(m: &Option<lance_table::format::RowDatasetVersionMeta>) -> Option<Vec<u64>> {
    m.as_ref().map(|m| m.load_sequence().unwrap().versions().collect())
}

/// Fragment as it appears inside a transaction (no deletion vector lookup).
pub fn frag_abs_plain(f: &Fragment) -> FragAbs {
    FragAbs { id: f.id, physical_rows: f.physical_rows.unwrap_or(0) as u64, row_ids: row_ids_of(f), created: versions_of(&f.created_at_version_meta), updated: versions_of(&f.last_updated_at_version_meta), deleted: vec![] }
}

pub async fn deleted_offsets(ds: &Dataset, f: &Fragment) -> Vec<u64> {
    if f.deletion_file.is_none() {
        return vec![];
    }
    let ff = lance::dataset::fragment::FileFragment::new(Arc::new(ds.clone()), f.clone());
    match ff.get_deletion_vector().await.unwrap() {
        Some(dv) => {
            let mut v: Vec<u64> = dv.to_sorted_iter().map(|x| x as u64).collect();
            v.sort();
            v
        }
        None => vec![],
    }
}

pub async fn manifest_abs(ds: &Dataset) -> ManAbs {
    let m = &ds.manifest;
    let mut frags = vec![];
    for f in m.fragments.iter() {
        let mut a = frag_abs_plain(f);
        a.deleted = deleted_offsets(ds, f).await;
        frags.push(a);
    }
    ManAbs { version: m.version, next_row_id: m.next_row_id, max_fragment_id: m.max_fragment_id.map(|x| x as u64), stable: m.uses_stable_row_ids(), frags }
}

fn col_u64(b: &RecordBatch, name: &str) -> UInt64Array {
    b.column_by_name(name).unwrap_or_else(|| panic!("no column {name}")).as_any().downcast_ref::<UInt64Array>().unwrap().clone()
}

/// Full scan in storage order. `versions`: also project the two version columns (stable row ids only).
pub async fn scan_rows(ds: &Dataset, versions: bool) -> lance::Result<Vec<Row>> {
    let mut sc = ds.scan();
    let mut cols = vec!["k", "x", "s", "_rowid", "_rowaddr"];
    if versions {
        cols.push("_row_created_at_version");
        cols.push("_row_last_updated_at_version");
    }
    sc.project(&cols)?;
    sc.scan_in_order(true);
    let batches: Vec<RecordBatch> = sc.try_into_stream().await?.try_collect().await?;
    let mut out = vec![];
    for b in batches {
        let k = b.column_by_name("k").unwrap().as_any().downcast_ref::<Int64Array>().unwrap().clone();
        let x = b.column_by_name("x").unwrap().as_any().downcast_ref::<Int64Array>().unwrap().clone();
        let s = b.column_by_name("s").unwrap().as_any().downcast_ref::<StringArray>().unwrap().clone();
        let rid = col_u64(&b, "_rowid");
        let addr = col_u64(&b, "_rowaddr");
        let (c, u) = if versions { (Some(col_u64(&b, "_row_created_at_version")), Some(col_u64(&b, "_row_last_updated_at_version"))) } else { (None, None) };
        for i in 0..b.num_rows() {
            out.push(Row {
                k: k.value(i),
                x: if x.is_null(i) { i64::MIN } else { x.value(i) },
                s: if s.is_null(i) { "<null>".into() } else { s.value(i).to_string() },
                rowid: rid.value(i),
                addr: addr.value(i),
                created: c.as_ref().map(|c| c.value(i)).unwrap_or(0),
                updated: u.as_ref().map(|c| c.value(i)).unwrap_or(0),
            });
        }
    }
    Ok(out)
}

/// rows of a DatasetDelta stream: (rowid, k, created, updated), sorted by rowid
pub async fn delta_rows(ds: &Dataset, begin: u64, end: u64, inserted: bool) -> lance::Result<Vec<(u64, i64, u64, u64)>> {
    let delta = ds.delta().with_begin_version(begin).with_end_version(end).build()?;
    let st = if inserted { delta.get_inserted_rows().await? } else { delta.get_updated_rows().await? };
    let batches: Vec<RecordBatch> = st.try_collect().await?;
    let mut out = vec![];
    for b in batches {
        let k = b.column_by_name("k").unwrap().as_any().downcast_ref::<Int64Array>().unwrap().clone();
        let rid = col_u64(&b, "_rowid");
        let c = col_u64(&b, "_row_created_at_version");
        let u = col_u64(&b, "_row_last_updated_at_version");
        for i in 0..b.num_rows() {
            out.push((rid.value(i), k.value(i), c.value(i), u.value(i)));
        }
    }
    out.sort();
    Ok(out)
}

/// (name, sorted field ids, sorted fragment bitmap, uuid) of every index of this version
pub async fn index_abs(ds: &Dataset) -> Vec<(String, Vec<i32>, Option<Vec<u32>>, String)> {
    let idx = ds.load_indices().await.unwrap();
    let mut v: Vec<_> = idx.iter().map(|i| (i.name.clone(), i.fields.clone(), i.fragment_bitmap.as_ref().map(|b| b.iter().collect::<Vec<u32>>()), i.uuid.to_string())).collect();
    v.sort();
    v
}

pub fn schema_abs(ds: &Dataset) -> Vec<(String, i32, String, bool)> {
    ds.schema().fields.iter().map(|f| (f.name.clone(), f.id, format!("{:?}", f.data_type()), f.nullable)).collect()
}

/// Run a fallible async operation on its own task: Ok | Err((is_panic, message)).
pub async fn guarded<T: Send + 'static>(fut: impl Future<Output = lance::Result<T>> + Send + 'static) -> Result<T, (bool, String)> {
    match tokio::spawn(fut).await {
        Ok(Ok(v)) => Ok(v),
        Ok(Err(e)) => Err((false, e.to_string().chars().take(400).collect())),
        Err(e) => {
            let is_panic = e.is_panic();
            let msg = if is_panic {
                let p = e.into_panic();
                if let Some(s) = p.downcast_ref::<String>() {
                    s.clone()
                } else if let Some(s) = p.downcast_ref::<&str>() {
                    s.to_string()
                } else {
                    "panic".into()
                }
            } else {
                "cancelled".into()
            };
            Err((is_panic, msg.chars().take(400).collect()))
        }
    }
}

/// One step of a history as the generator describes it (replayable).
#[derive(Clone, Debug)]
pub enum Step {
    Append { n: usize },
    Delete { pred: String },
    Update { pred: String, add: i64 },
    /// full-schema upsert: `old` existing keys get x := their new value, `fresh` new keys are inserted
    Merge { old: Vec<i64>, fresh: usize, partial: bool },
    Compact { target: usize, materialize: bool },
    Restore { version: u64 },
    CreateIndex { col: String },
    Overwrite { n: usize },
}
impl Step {
    pub fn describe(&self) -> String {
        match self {
            Step::Append { n } => format!("append n={n}"),
            Step::Delete { pred } => format!("delete `{pred}`"),
            Step::Update { pred, add } => format!("update x=x+{add} where `{pred}`"),
            Step::Merge { old, fresh, partial } => format!("merge_insert on k matched={:?} fresh={} partial_schema={}", old, fresh, partial),
            Step::Compact { target, materialize } => format!("compact target_rows={target} materialize_deletions={materialize}"),
            Step::Restore { version } => format!("restore v{version}"),
            Step::CreateIndex { col } => format!("create_index btree({col})"),
            Step::Overwrite { n } => format!("overwrite n={n}"),
        }
    }
}

pub struct Tbl {
    pub _dir: tempfile::TempDir,
    pub uri: String,
    pub ds: Dataset,
    pub next_k: i64,
    pub stable: bool,
    pub max_rows_per_file: usize,
    pub hist: Vec<String>,
}

impl Tbl {
    pub fn params(&self, mode: WriteMode) -> WriteParams {
        WriteParams { max_rows_per_file: self.max_rows_per_file, max_rows_per_group: 1024, mode, enable_stable_row_ids: self.stable, ..Default::default() }
    }

    pub async fn create(n: usize, max_rows_per_file: usize, stable: bool) -> Tbl {
        let dir = tempfile::tempdir().unwrap();
        let uri = dir.path().join("t.lance").to_str().unwrap().to_string();
        let keys: Vec<i64> = (0..n as i64).collect();
        let xs: Vec<i64> = keys.iter().map(|k| k * 10).collect();
        let params = WriteParams { max_rows_per_file, max_rows_per_group: 1024, enable_stable_row_ids: stable, ..Default::default() };
        let ds = Dataset::write(RecordBatchIterator::new(vec![Ok(mk_batch(&keys, &xs))], arrow_schema()), &uri, Some(params)).await.unwrap();
        Tbl { _dir: dir, uri, ds, next_k: n as i64, stable, max_rows_per_file, hist: vec![format!("create n={n} max_rows_per_file={max_rows_per_file} stable_row_ids={stable}")] }
    }

    fn fresh_keys(&mut self, n: usize) -> Vec<i64> {
        let v: Vec<i64> = (self.next_k..self.next_k + n as i64).collect();
        self.next_k += n as i64;
        v
    }

    /// Applies the step through the public API. Err((panic?, message)) when the API call failed.
    pub async fn apply(&mut self, step: &Step) -> Result<(), (bool, String)> {
        self.hist.push(step.describe());
        match step {
            Step::Append { n } => {
                let keys = self.fresh_keys(*n);
                let xs: Vec<i64> = keys.iter().map(|k| k * 10).collect();
                let params = self.params(WriteMode::Append);
                let uri = self.uri.clone();
                let b = mk_batch(&keys, &xs);
                self.ds = guarded(async move { Dataset::write(RecordBatchIterator::new(vec![Ok(b)], arrow_schema()), &uri, Some(params)).await }).await?;
            }
            Step::Overwrite { n } => {
                let keys = self.fresh_keys(*n);
                let xs: Vec<i64> = keys.iter().map(|k| k * 10).collect();
                let params = self.params(WriteMode::Overwrite);
                let uri = self.uri.clone();
                let b = mk_batch(&keys, &xs);
                self.ds = guarded(async move { Dataset::write(RecordBatchIterator::new(vec![Ok(b)], arrow_schema()), &uri, Some(params)).await }).await?;
            }
            Step::Delete { pred } => {
                let mut ds = self.ds.clone();
                let p = pred.clone();
                self.ds = guarded(async move {
                    ds.delete(&p).await?;
                    Ok(ds)
                })
                .await?;
            }
            Step::Update { pred, add } => {
                let ds = Arc::new(self.ds.clone());
                let p = pred.clone();
                let add = *add;
                let res = guarded(async move { UpdateBuilder::new(ds).update_where(&p)?.set("x", &format!("x + {add}"))?.build()?.execute().await }).await?;
                self.ds = res.new_dataset.as_ref().clone();
            }
            Step::Merge { old, fresh, partial } => {
                let mut keys = old.clone();
                keys.extend(self.fresh_keys(*fresh));
                let xs: Vec<i64> = keys.iter().map(|k| k * 10 + 7 + self.ds.manifest.version as i64 * 100000).collect();
                let ds = Arc::new(self.ds.clone());
                let partial = *partial;
                let (nds, _stats) = guarded(async move {
                    let mut b = MergeInsertBuilder::try_new(ds, vec!["k".to_string()])?;
                    b.when_matched(WhenMatched::UpdateAll);
                    if partial {
                        b.when_not_matched(WhenNotMatched::DoNothing);
                    } else {
                        b.when_not_matched(WhenNotMatched::InsertAll);
                    }
                    let job = b.try_build()?;
                    if partial {
                        let rb = mk_kx_batch(&keys, &xs);
                        job.execute_reader(Box::new(RecordBatchIterator::new(vec![Ok(rb)], kx_schema()))).await
                    } else {
                        let rb = mk_batch(&keys, &xs);
                        job.execute_reader(Box::new(RecordBatchIterator::new(vec![Ok(rb)], arrow_schema()))).await
                    }
                })
                .await?;
                self.ds = nds.as_ref().clone();
            }
            Step::Compact { target, materialize } => {
                let mut ds = self.ds.clone();
                let opts = CompactionOptions { target_rows_per_fragment: *target, materialize_deletions: *materialize, materialize_deletions_threshold: 0.0, num_threads: Some(1), ..Default::default() };
                self.ds = guarded(async move {
                    compact_files(&mut ds, opts, None).await?;
                    Ok(ds)
                })
                .await?;
            }
            Step::Restore { version } => {
                let ds = self.ds.clone();
                let v = *version;
                self.ds = guarded(async move {
                    let mut old = ds.checkout_version(v).await?;
                    old.restore().await?;
                    Ok(old)
                })
                .await?;
            }
            Step::CreateIndex { col } => {
                let mut ds = self.ds.clone();
                let c = col.clone();
                self.ds = guarded(async move {
                    ds.create_index(&[c.as_str()], IndexType::BTree, Some(format!("{c}_idx")), &ScalarIndexParams::default(), true).await?;
                    Ok(ds)
                })
                .await?;
            }
        }
        Ok(())
    }

    /// The operation committed as the current version, as read back from its transaction file.
    pub async fn committed_op(&self) -> Option<Operation> {
        self.ds.read_transaction().await.ok().flatten().map(|t| t.operation)
    }
}

// ------------------------------------------------------------------ Coq printing of the abstractions
fn opt_nlist(v: &Option<Vec<u64>>) -> String {
    coq::opt(v.as_ref().map(|v| coq::nlist(v.iter())))
}
/// frag := (id, physical_rows, row_ids option, created option, updated option, deleted offsets)
pub fn coq_frag(f: &FragAbs) -> String {
    format!("({}, {}, {}, {}, {}, {})", f.id, f.physical_rows, opt_nlist(&f.row_ids), opt_nlist(&f.created), opt_nlist(&f.updated), coq::nlist(f.deleted.iter()))
}
pub fn coq_frags(fs: &[FragAbs]) -> String {
    coq::list(fs.iter().map(coq_frag))
}
/// manifest := (version, next_row_id, stable, frags)
pub fn coq_man(m: &ManAbs) -> String {
    format!("({}, {}, {}, {})", m.version, m.next_row_id, coq::b(m.stable), coq_frags(&m.frags))
}
pub fn json_frag(f: &FragAbs) -> Value {
    json!({"id": f.id, "rows": f.physical_rows, "row_ids": f.row_ids, "created": f.created, "updated": f.updated, "deleted": f.deleted})
}
pub fn json_man(m: &ManAbs) -> Value {
    json!({"version": m.version, "next_row_id": m.next_row_id, "stable": m.stable, "frags": m.frags.iter().map(json_frag).collect::<Vec<_>>()})
}

/// Random predicate over k on the current rows.
pub fn gen_pred(rng: &mut Rng, rows: &[Row], next_k: i64) -> String {
    let n = next_k.max(1);
    match rng.below(6) {
        0 => {
            let m = rng.range(2, 5);
            format!("k % {} = {}", m, rng.below(m))
        }
        1 => {
            let a = rng.below(n as u64) as i64;
            let b = a + rng.range(0, 6) as i64;
            format!("k >= {a} AND k <= {b}")
        }
        2 | 3 if !rows.is_empty() => {
            let cnt = rng.range(1, 3);
            let ks: Vec<String> = (0..cnt).map(|_| rng.pick(rows).k.to_string()).collect();
            format!("k IN ({})", ks.join(", "))
        }
        4 if !rows.is_empty() => format!("k = {}", rng.pick(rows).k),
        _ => format!("k < {}", rng.below(n as u64 + 1)),
    }
}

// ------------------------------------------------------------------ history capture
/// Everything recorded about one committed version.
#[derive(Clone)]
pub struct VerSnap {
    pub man: ManAbs,
    pub aux: u64,
    pub rows: Vec<Row>,
    /// the row id the manifest itself assigns to each scanned row (fragment's sequence at the row's
    /// address), independent of the session's row-id-sequence cache; u64::MAX when there is none
    pub true_ids: Vec<u64>,
    /// the scan of this version failed with this message (rows is empty then)
    pub scan_err: Option<String>,
    pub schema: Vec<(String, i32, String, bool)>,
    pub indices: Vec<(String, Vec<i32>, Option<Vec<u32>>, String)>,
    /// the operation committed as this version (None for version 1 of the probe / unreadable file)
    pub op: Option<Operation>,
    /// the step of the generator that produced it
    pub step: String,
}

pub struct Hist {
    pub tbl: Tbl,
    pub vers: std::collections::BTreeMap<u64, VerSnap>,
    aux_intern: Vec<String>,
}

impl Hist {
    pub async fn start(n: usize, max_rows_per_file: usize, stable: bool) -> Hist {
        let tbl = Tbl::create(n, max_rows_per_file, stable).await;
        let mut h = Hist { tbl, vers: Default::default(), aux_intern: vec![] };
        h.sync("create").await.unwrap();
        h
    }
    pub fn latest(&self) -> &VerSnap {
        self.vers.values().next_back().unwrap()
    }
    pub fn latest_version(&self) -> u64 {
        *self.vers.keys().next_back().unwrap()
    }
    fn intern(&mut self, s: String) -> u64 {
        if let Some(i) = self.aux_intern.iter().position(|x| *x == s) {
            return i as u64 + 1;
        }
        self.aux_intern.push(s);
        self.aux_intern.len() as u64
    }
    async fn snap(&mut self, ds: &Dataset, step: &str) -> lance::Result<VerSnap> {
        let man = manifest_abs(ds).await;
        let stable = man.stable;
        let dsc = ds.clone();
        let (rows, scan_err) = match guarded(async move { scan_rows(&dsc, stable).await }).await {
            Ok(r) => (r, None),
            Err((_, e)) => (vec![], Some(e)),
        };
        let true_ids: Vec<u64> = rows
            .iter()
            .map(|r| {
                if !stable {
                    return r.addr;
                }
                man.frags.iter().find(|f| f.id == r.addr >> 32).and_then(|f| f.row_ids.as_ref()).and_then(|ids| ids.get((r.addr & 0xFFFF_FFFF) as usize).copied()).unwrap_or(u64::MAX)
            })
            .collect();
        let schema = schema_abs(ds);
        let indices = index_abs(ds).await;
        let aux = self.intern(format!("{:?}|{:?}", schema, indices));
        let op = ds.read_transaction().await.ok().flatten().map(|t| t.operation);
        Ok(VerSnap { man, aux, rows, true_ids, scan_err, schema, indices, op, step: step.to_string() })
    }
    /// Record every version committed since the last call; returns their numbers in order.
    pub async fn sync(&mut self, step: &str) -> lance::Result<Vec<u64>> {
        let cur = self.tbl.ds.manifest.version;
        let from = self.vers.keys().next_back().map(|v| v + 1).unwrap_or(1);
        let mut out = vec![];
        for v in from..=cur {
            let ds = if v == cur { self.tbl.ds.clone() } else { self.tbl.ds.checkout_version(v).await? };
            let s = self.snap(&ds, step).await?;
            self.vers.insert(v, s);
            out.push(v);
        }
        Ok(out)
    }
    pub fn describe(&self) -> Vec<String> {
        self.tbl.hist.clone()
    }
    /// Was an Overwrite committed after the table was created?
    pub fn has_overwrite(&self) -> bool {
        self.vers.iter().any(|(v, s)| *v > 1 && matches!(s.op, Some(Operation::Overwrite { .. })))
    }
    /// Class predicate Known_C07_fragment_id_cache_after_overwrite (Model_Restore.v): some fragment id
    /// denotes two fragments with different row id sequences within this history (reachable only through
    /// Overwrite, which restarts fragment ids at 0: C07_fragment_ids_never_reused).
    pub fn fragment_id_reused(&self) -> bool {
        let mut seen: std::collections::HashMap<u64, Option<Vec<u64>>> = Default::default();
        for s in self.vers.values() {
            for f in &s.man.frags {
                match seen.get(&f.id) {
                    Some(ids) if *ids != f.row_ids => return true,
                    Some(_) => {}
                    None => {
                        seen.insert(f.id, f.row_ids.clone());
                    }
                }
            }
        }
        false
    }
}

fn addr_frag(a: u64) -> u64 {
    a >> 32
}
fn addr_off(a: u64) -> u64 {
    a & 0xFFFF_FFFF
}

/// The committed operation as a term of the Coq type `op` (Model_Restore.v). `prev`/`new` are the
/// versions before/after. None when the operation has no counterpart in the model.
pub fn coq_op(op: &Operation, prev: &VerSnap, new: &VerSnap) -> Option<(String, Value)> {
    let plain = |fs: &[Fragment]| fs.iter().all(|f| f.row_id_meta.is_none() && f.deletion_file.is_none());
    let sizes = |fs: &[Fragment]| coq::list(fs.iter().map(|f| f.physical_rows.unwrap_or(0).to_string()));
    let dv_of = |fid: u64| -> Vec<u64> { new.man.frags.iter().find(|f| f.id == fid).map(|f| f.deleted.clone()).unwrap_or_default() };
    match op {
        Operation::Append { fragments } if plain(fragments) => Some((format!("(OAppend {})", sizes(fragments)), json!({"op": "append", "sizes": fragments.iter().map(|f| f.physical_rows).collect::<Vec<_>>()}))),
        Operation::Overwrite { fragments, .. } if plain(fragments) => Some((format!("(OOverwrite {})", sizes(fragments)), json!({"op": "overwrite", "sizes": fragments.iter().map(|f| f.physical_rows).collect::<Vec<_>>()}))),
        Operation::Delete { updated_fragments, deleted_fragment_ids, .. } => {
            let upd: Vec<(u64, Vec<u64>)> = updated_fragments.iter().map(|f| (f.id, dv_of(f.id))).collect();
            Some((
                format!("(ODelete {} {})", coq::list(upd.iter().map(|(i, d)| format!("({}, {})", i, coq::nlist(d.iter())))), coq::nlist(deleted_fragment_ids.iter())),
                json!({"op": "delete", "updated": upd, "removed": deleted_fragment_ids}),
            ))
        }
        Operation::Update { removed_fragment_ids, updated_fragments, new_fragments, update_mode, .. } => {
            let rewrite_cols = matches!(update_mode, Some(lance::dataset::transaction::UpdateMode::RewriteColumns));
            if rewrite_cols {
                if !new_fragments.is_empty() || !removed_fragment_ids.is_empty() || prev.scan_err.is_some() || new.scan_err.is_some() {
                    return None;
                }
                // offsets of the rows whose content changed in place (from the data, not from the version metadata)
                let before: std::collections::HashMap<u64, (i64, String)> = prev.rows.iter().map(|r| (r.addr, (r.x, r.s.clone()))).collect();
                let mut rew: Vec<(u64, Vec<u64>)> = updated_fragments.iter().map(|f| (f.id, vec![])).collect();
                for r in &new.rows {
                    if let Some((x, s)) = before.get(&r.addr) {
                        if *x != r.x || *s != r.s {
                            if let Some(e) = rew.iter_mut().find(|e| e.0 == addr_frag(r.addr)) {
                                e.1.push(addr_off(r.addr));
                            } else {
                                return None;
                            }
                        }
                    }
                }
                Some((format!("(OUpdateCols {})", coq::list(rew.iter().map(|(i, d)| format!("({}, {})", i, coq::nlist(d.iter()))))), json!({"op": "update-columns", "rewritten": rew})))
            } else {
                let upd: Vec<(u64, Vec<u64>)> = updated_fragments.iter().map(|f| (f.id, dv_of(f.id))).collect();
                let news: Vec<(u64, Vec<u64>)> = new_fragments.iter().map(|f| (f.physical_rows.unwrap_or(0) as u64, row_ids_of(f).unwrap_or_default())).collect();
                Some((
                    format!(
                        "(OUpdate {} {} {})",
                        coq::nlist(removed_fragment_ids.iter()),
                        coq::list(upd.iter().map(|(i, d)| format!("({}, {})", i, coq::nlist(d.iter())))),
                        coq::list(news.iter().map(|(p, ids)| format!("({}, {})", p, coq::nlist(ids.iter()))))
                    ),
                    json!({"op": "update", "removed": removed_fragment_ids, "updated": upd, "new": news}),
                ))
            }
        }
        Operation::Rewrite { groups, .. } => {
            let gs: Vec<(Vec<u64>, Vec<(u64, u64)>)> = groups.iter().map(|g| (g.old_fragments.iter().map(|f| f.id).collect(), g.new_fragments.iter().map(|f| (f.id, f.physical_rows.unwrap_or(0) as u64)).collect())).collect();
            Some((
                format!("(OCompact {})", coq::list(gs.iter().map(|(o, n)| format!("({}, {})", coq::nlist(o.iter()), coq::list(n.iter().map(|(i, p)| format!("({}, {})", i, p))))))),
                json!({"op": "compact", "groups": gs}),
            ))
        }
        Operation::ReserveFragments { num_fragments } => Some((format!("(OReserve {})", num_fragments), json!({"op": "reserve", "n": num_fragments}))),
        Operation::CreateIndex { .. } | Operation::UpdateConfig { .. } => Some(("ONoop".into(), json!({"op": op.name()}))),
        Operation::Restore { version } => Some((format!("(ORestore {})", version), json!({"op": "restore", "version": version}))),
        _ => None,
    }
}

/// Fragment of a transaction with its deletion vector read from disk.
pub async fn frag_abs_txn(ds: &Dataset, f: &Fragment) -> FragAbs {
    let mut a = frag_abs_plain(f);
    a.deleted = deleted_offsets(ds, f).await;
    a
}

/// The committed operation as a term of the Coq type `wtxn` (what build_manifest received).
pub async fn coq_wtxn(ds: &Dataset, op: &Operation) -> Option<String> {
    async fn frs(ds: &Dataset, fs: &[Fragment]) -> String {
        let mut v = vec![];
        for f in fs {
            v.push(coq_frag(&frag_abs_txn(ds, f).await));
        }
        coq::list(v)
    }
    match op {
        Operation::Append { fragments } => Some(format!("(WAppend {})", frs(ds, fragments).await)),
        Operation::Overwrite { fragments, .. } => Some(format!("(WOverwrite {})", frs(ds, fragments).await)),
        Operation::Delete { updated_fragments, deleted_fragment_ids, .. } => Some(format!("(WDelete {} {})", frs(ds, updated_fragments).await, coq::nlist(deleted_fragment_ids.iter()))),
        Operation::Update { removed_fragment_ids, updated_fragments, new_fragments, .. } => Some(format!("(WUpdate {} {} {})", coq::nlist(removed_fragment_ids.iter()), frs(ds, updated_fragments).await, frs(ds, new_fragments).await)),
        Operation::Rewrite { groups, .. } => {
            let mut gs = vec![];
            for g in groups {
                gs.push(format!("({}, {})", coq::list(g.old_fragments.iter().map(|f| f.id.to_string())), frs(ds, &g.new_fragments).await));
            }
            Some(format!("(WRewrite {})", coq::list(gs)))
        }
        Operation::ReserveFragments { num_fragments } => Some(format!("(WReserve {})", num_fragments)),
        Operation::CreateIndex { .. } | Operation::UpdateConfig { .. } => Some("WNoop".into()),
        _ => None,
    }
}

/// manifest := (version, next_row_id, max_fragment_id, stable, frags, aux)
pub fn coq_wman(m: &ManAbs, aux: u64) -> String {
    format!("({}, {}, {}, {}, {}, {})", m.version, m.next_row_id, coq::opt(m.max_fragment_id.map(|x| x.to_string())), coq::b(m.stable), coq_frags(&m.frags), aux)
}
