//! Unit arm: Transaction::build_manifest (through lance::dataset::verif_hooks::build_manifest, no I/O) on
//! generated manifests and transactions, compared with Model_Restore.build_manifest inside coqc.
//! Also refresh_row_latest_update_meta_* of lance-table called directly.
use crate::tbl::{coq_frag, coq_frags, coq_wman, json_frag, FragAbs, ManAbs};
use hxlib::util::{coq, Args, Rng, Sink, Stream};
use lance::dataset::transaction::{Operation, RewriteGroup, Transaction, UpdateMode};
use lance_table::format::{DataStorageFormat, DeletionFile, DeletionFileType, Fragment, Manifest, RowDatasetVersionMeta, RowDatasetVersionRun, RowDatasetVersionSequence, RowIdMeta};
use lance_table::rowids::segment::U64Segment;
use lance_table::rowids::{write_row_ids, RowIdSequence};
use serde_json::json;
use std::collections::HashMap;
use std::sync::Arc;

const REQ: &str = "Common.Base Table.Model_Restore";
const FLAG_STABLE_ROW_IDS: u64 = 2;

fn test_schema() -> lance_core::datatypes::Schema {
    let a = arrow_schema::Schema::new(vec![arrow_schema::Field::new("i", arrow_schema::DataType::Int32, true)]);
    lance_core::datatypes::Schema::try_from(&a).unwrap()
}

fn seq_of(v: &[u64]) -> RowDatasetVersionSequence {
    let mut runs = vec![];
    let mut i = 0usize;
    while i < v.len() {
        let mut j = i + 1;
        while j < v.len() && v[j] == v[i] {
            j += 1;
        }
        runs.push(RowDatasetVersionRun { span: U64Segment::Range(i as u64..j as u64), version: v[i] });
        i = j;
    }
    RowDatasetVersionSequence { runs }
}

/// deletion vectors of the generated fragments live in a side table keyed by DeletionFile.id
pub struct DvTable(pub Vec<Vec<u64>>);
impl DvTable {
    fn put(&mut self, dv: &[u64]) -> u64 {
        self.0.push(dv.to_vec());
        self.0.len() as u64 - 1
    }
}

pub fn mk_fragment(f: &FragAbs, dvs: &mut DvTable) -> Fragment {
    let mut fr = Fragment::new(f.id);
    fr.physical_rows = Some(f.physical_rows as usize);
    fr.row_id_meta = f.row_ids.as_ref().map(|ids| RowIdMeta::Inline(write_row_ids(&RowIdSequence::from(ids.as_slice()))));
    fr.created_at_version_meta = f.created.as_ref().map(|v| RowDatasetVersionMeta::from_sequence(&seq_of(v)).unwrap());
    fr.last_updated_at_version_meta = f.updated.as_ref().map(|v| RowDatasetVersionMeta::from_sequence(&seq_of(v)).unwrap());
    if !f.deleted.is_empty() {
        let id = dvs.put(&f.deleted);
        fr.deletion_file = Some(DeletionFile { read_version: 1, id, file_type: DeletionFileType::Array, num_deleted_rows: Some(f.deleted.len()), base_id: None });
    }
    fr
}

pub fn abs_fragment(f: &Fragment, dvs: &DvTable) -> FragAbs {
    let mut a = crate::tbl::frag_abs_plain(f);
    if let Some(d) = &f.deletion_file {
        a.deleted = dvs.0[d.id as usize].clone();
    }
    a
}

pub fn mk_manifest(m: &ManAbs, dvs: &mut DvTable) -> Manifest {
    let frags: Vec<Fragment> = m.frags.iter().map(|f| mk_fragment(f, dvs)).collect();
    let mut man = Manifest::new(test_schema(), Arc::new(frags), DataStorageFormat::default(), HashMap::new());
    man.version = m.version;
    man.next_row_id = m.next_row_id;
    man.max_fragment_id = m.max_fragment_id.map(|x| x as u32);
    if m.stable {
        man.reader_feature_flags |= FLAG_STABLE_ROW_IDS;
        man.writer_feature_flags |= FLAG_STABLE_ROW_IDS;
    }
    man
}

pub fn abs_manifest(m: &Manifest, dvs: &DvTable) -> ManAbs {
    ManAbs { version: m.version, next_row_id: m.next_row_id, max_fragment_id: m.max_fragment_id.map(|x| x as u64), stable: m.uses_stable_row_ids(), frags: m.fragments.iter().map(|f| abs_fragment(f, dvs)).collect() }
}

/// Transactions in the shape of the Coq type `wtxn`.
#[derive(Clone, Debug)]
pub enum WTxn {
    Append(Vec<FragAbs>),
    Overwrite(Vec<FragAbs>),
    Delete(Vec<FragAbs>, Vec<u64>),
    Update(Vec<u64>, Vec<FragAbs>, Vec<FragAbs>),
    Rewrite(Vec<(Vec<u64>, Vec<FragAbs>)>),
    Reserve(u32),
    Noop,
}
impl WTxn {
    pub fn coq(&self) -> String {
        match self {
            WTxn::Append(n) => format!("(WAppend {})", coq_frags(n)),
            WTxn::Overwrite(n) => format!("(WOverwrite {})", coq_frags(n)),
            WTxn::Delete(u, g) => format!("(WDelete {} {})", coq_frags(u), coq::nlist(g.iter())),
            WTxn::Update(r, u, n) => format!("(WUpdate {} {} {})", coq::nlist(r.iter()), coq_frags(u), coq_frags(n)),
            WTxn::Rewrite(gs) => format!("(WRewrite {})", coq::list(gs.iter().map(|(o, n)| format!("({}, {})", coq::nlist(o.iter()), coq_frags(n))))),
            WTxn::Reserve(n) => format!("(WReserve {})", n),
            WTxn::Noop => "WNoop".into(),
        }
    }
    pub fn json(&self) -> serde_json::Value {
        let fr = |v: &Vec<FragAbs>| v.iter().map(json_frag).collect::<Vec<_>>();
        match self {
            WTxn::Append(n) => json!({"append": fr(n)}),
            WTxn::Overwrite(n) => json!({"overwrite": fr(n)}),
            WTxn::Delete(u, g) => json!({"delete": {"updated": fr(u), "removed": g}}),
            WTxn::Update(r, u, n) => json!({"update": {"removed": r, "updated": fr(u), "new": fr(n)}}),
            WTxn::Rewrite(gs) => json!({"rewrite": gs.iter().map(|(o, n)| json!({"old": o, "new": fr(n)})).collect::<Vec<_>>()}),
            WTxn::Reserve(n) => json!({"reserve": n}),
            WTxn::Noop => json!("noop"),
        }
    }
    pub fn operation(&self, dvs: &mut DvTable) -> Operation {
        let mut fr = |v: &Vec<FragAbs>| v.iter().map(|f| mk_fragment(f, dvs)).collect::<Vec<_>>();
        match self {
            WTxn::Append(n) => Operation::Append { fragments: fr(n) },
            WTxn::Overwrite(n) => Operation::Overwrite { fragments: fr(n), schema: test_schema(), config_upsert_values: None, initial_bases: None },
            WTxn::Delete(u, g) => Operation::Delete { updated_fragments: fr(u), deleted_fragment_ids: g.clone(), predicate: "true".into() },
            WTxn::Update(r, u, n) => Operation::Update {
                removed_fragment_ids: r.clone(),
                updated_fragments: fr(u),
                new_fragments: fr(n),
                fields_modified: vec![],
                mem_wal_to_merge: None,
                fields_for_preserving_frag_bitmap: vec![],
                update_mode: Some(UpdateMode::RewriteRows),
            },
            WTxn::Rewrite(gs) => Operation::Rewrite {
                groups: gs.iter().map(|(o, n)| RewriteGroup { old_fragments: o.iter().map(|i| Fragment::new(*i)).collect(), new_fragments: fr(n) }).collect(),
                rewritten_indices: vec![],
                frag_reuse_index: None,
            },
            WTxn::Reserve(n) => Operation::ReserveFragments { num_fragments: *n },
            WTxn::Noop => Operation::CreateIndex { new_indices: vec![], removed_indices: vec![] },
        }
    }
}

thread_local! { static LAST_PANIC: std::cell::RefCell<String> = std::cell::RefCell::new(String::new()); }
/// like hxlib::util::catch, but keeps the panic message and location for the case description
fn catch_msg<T>(f: impl FnOnce() -> T) -> Result<T, String> {
    let prev = std::panic::take_hook();
    std::panic::set_hook(Box::new(|info| {
        let loc = info.location().map(|l| format!("{}:{}", l.file(), l.line())).unwrap_or_default();
        let msg = if let Some(s) = info.payload().downcast_ref::<&str>() { s.to_string() } else if let Some(s) = info.payload().downcast_ref::<String>() { s.clone() } else { "panic".into() };
        LAST_PANIC.with(|c| *c.borrow_mut() = format!("{msg} at {loc}"));
    }));
    let r = std::panic::catch_unwind(std::panic::AssertUnwindSafe(f));
    std::panic::set_hook(prev);
    r.map_err(|_| LAST_PANIC.with(|c| c.borrow().clone()))
}

fn gen_versions(rng: &mut Rng, n: u64, ver: u64) -> Option<Vec<u64>> {
    match rng.below(12) {
        0 => None,
        1 => Some((0..n.saturating_sub(1)).map(|_| rng.range(1, ver)).collect()), // one short
        2 | 3 | 4 => Some((0..n).map(|_| rng.range(1, ver)).collect()),
        _ => Some(vec![rng.range(1, ver); n as usize]),
    }
}

/// A manifest: mostly well formed (what a real table looks like), sometimes not.
pub fn gen_manifest(rng: &mut Rng) -> ManAbs {
    let stable = rng.chance(5, 6);
    let version = rng.range(1, 9);
    let nfrags = rng.range(0, 4);
    let mut frags = vec![];
    let mut next_id = 0u64;
    let mut fid = if rng.chance(3, 4) { 0 } else { rng.range(0, 3) };
    for _ in 0..nfrags {
        let phys = rng.range(0, 5);
        let row_ids = if stable {
            let mut ids: Vec<u64> = (next_id..next_id + phys).collect();
            next_id += phys + rng.below(2);
            if rng.chance(1, 4) {
                // permuted / carried ids as after an update
                for i in 0..ids.len() {
                    let j = rng.below(ids.len() as u64) as usize;
                    ids.swap(i, j);
                }
            }
            Some(ids)
        } else {
            None
        };
        let (created, updated) = if stable { (gen_versions(rng, phys, version), gen_versions(rng, phys, version)) } else { (None, None) };
        let mut deleted: Vec<u64> = (0..phys).filter(|_| rng.chance(1, 4)).collect();
        deleted.sort();
        frags.push(FragAbs { id: fid, physical_rows: phys, row_ids, created, updated, deleted });
        fid += rng.range(1, 2);
        if rng.chance(1, 40) {
            fid = fid.saturating_sub(2); // duplicate / unsorted ids (never produced by lance; the model must still agree)
        }
    }
    let max_frag_seen = frags.iter().map(|f| f.id).max();
    let max_fragment_id = match rng.below(6) {
        0 => None,
        1 => max_frag_seen.map(|m| m + rng.range(1, 3)),
        2 => max_frag_seen.map(|m| m.saturating_sub(1)),
        _ => max_frag_seen,
    };
    let next_row_id = if !stable {
        0
    } else {
        match rng.below(20) {
            0 => u64::MAX - rng.below(4),
            1 => next_id.saturating_sub(1),
            _ => next_id + rng.below(3),
        }
    };
    ManAbs { version, next_row_id, max_fragment_id, stable, frags }
}

fn new_frag(rng: &mut Rng, cur: &ManAbs, for_update: bool) -> FragAbs {
    let phys = rng.range(0, 5);
    let all_ids: Vec<u64> = cur.frags.iter().flat_map(|f| f.row_ids.clone().unwrap_or_default()).collect();
    // near the top of the u64 range only fragments without carried ids are generated: a sorted id sequence
    // spanning small and huge ids overflows the encoder's size estimate (U64Segment::sorted_sequence_sizes),
    // a representation limit outside the model
    let row_ids = if cur.next_row_id > (1u64 << 62) {
        None
    } else if for_update || rng.chance(1, 6) {
        let k = match rng.below(8) {
            0 => phys + 1, // more ids than rows: Err
            1 | 2 => phys,
            _ => rng.below(phys + 1),
        };
        let ids: Vec<u64> = (0..k)
            .map(|_| match rng.below(10) {
                // ids that *are* addresses of rows in other fragments: frag << 32 | offset
                0 | 1 if !cur.frags.is_empty() => {
                    let f = rng.pick(&cur.frags);
                    (f.id << 32) | rng.below(f.physical_rows + 1)
                }
                2 => rng.below(12),
                _ if !all_ids.is_empty() => *rng.pick(&all_ids),
                _ => rng.below(6),
            })
            .collect();
        // a sorted sequence with a repeated id cannot be encoded (U64Segment::from_slice underflows): ids
        // within one fragment are distinct and never collide with the ids about to be handed out
        let mut seen = std::collections::HashSet::new();
        let ids: Vec<u64> = ids.into_iter().filter(|i| seen.insert(*i) && !(*i >= cur.next_row_id && *i - cur.next_row_id < 64)).collect();
        if ids.is_empty() && rng.bool() {
            None
        } else {
            Some(ids)
        }
    } else {
        None
    };
    let id = if rng.chance(1, 8) { rng.range(1, 9) } else { 0 };
    let created = if rng.chance(1, 10) { Some(vec![rng.range(1, 5); phys as usize]) } else { None };
    FragAbs { id, physical_rows: phys, row_ids, created: created.clone(), updated: created, deleted: vec![] }
}

fn alter_existing(rng: &mut Rng, f: &FragAbs) -> FragAbs {
    let mut g = f.clone();
    let mut d: Vec<u64> = (0..f.physical_rows).filter(|o| f.deleted.contains(o) || rng.chance(1, 3)).collect();
    d.sort();
    g.deleted = d;
    if rng.chance(1, 6) {
        g.updated = Some(vec![rng.range(1, 9); f.physical_rows as usize]);
    }
    g
}

pub fn gen_txn(rng: &mut Rng, cur: &ManAbs) -> WTxn {
    let ids: Vec<u64> = cur.frags.iter().map(|f| f.id).collect();
    let pick_ids = |rng: &mut Rng, p: u64| -> Vec<u64> {
        let mut v: Vec<u64> = ids.iter().copied().filter(|_| rng.chance(1, p)).collect();
        if rng.chance(1, 8) {
            v.push(rng.below(8));
        }
        v
    };
    match rng.below(20) {
        0..=4 => WTxn::Append((0..rng.range(0, 3)).map(|_| new_frag(rng, cur, false)).collect()),
        5 | 6 => WTxn::Overwrite((0..rng.range(0, 3)).map(|_| new_frag(rng, cur, false)).collect()),
        7 | 8 => {
            let mut upd: Vec<FragAbs> = vec![];
            for f in &cur.frags {
                if rng.chance(1, 2) {
                    upd.push(alter_existing(rng, f));
                }
            }
            WTxn::Delete(upd, pick_ids(rng, 4))
        }
        9..=14 => {
            let mut upd: Vec<FragAbs> = vec![];
            for f in &cur.frags {
                if rng.chance(1, 2) {
                    upd.push(alter_existing(rng, f));
                }
            }
            if rng.chance(1, 10) && !upd.is_empty() {
                let dup = alter_existing(rng, &upd[0].clone());
                upd.push(dup);
            }
            WTxn::Update(pick_ids(rng, 4), upd, (0..rng.range(0, 3)).map(|_| new_frag(rng, cur, true)).collect())
        }
        15..=17 => {
            let ngroups = rng.range(1, 2);
            let mut gs = vec![];
            for _ in 0..ngroups {
                let old: Vec<u64> = if ids.is_empty() || rng.chance(1, 10) {
                    if rng.chance(1, 3) {
                        vec![]
                    } else {
                        vec![rng.below(6)]
                    }
                } else {
                    let start = rng.below(ids.len() as u64) as usize;
                    let len = rng.range(1, 3) as usize;
                    let mut o: Vec<u64> = ids.iter().skip(start).take(len).copied().collect();
                    match rng.below(8) {
                        0 => o.push(rng.below(8)),        // runs past the end or not contiguous
                        1 if o.len() > 1 => o.swap(0, 1), // out of order
                        _ => {}
                    }
                    o
                };
                let news: Vec<FragAbs> = (0..rng.range(0, 2))
                    .map(|_| {
                        let phys = rng.range(1, 5);
                        FragAbs {
                            id: if rng.chance(4, 5) { rng.range(5, 12) } else { 0 },
                            physical_rows: phys,
                            row_ids: if cur.stable {
                                let mut seen = std::collections::HashSet::new();
                                let mut v: Vec<u64> = (0..phys).map(|_| rng.below(12)).collect();
                                let mut nxt = 100;
                                for x in v.iter_mut() {
                                    if !seen.insert(*x) {
                                        *x = nxt;
                                        nxt += 1;
                                    }
                                }
                                Some(v)
                            } else {
                                None
                            },
                            created: if cur.stable { Some((0..phys).map(|_| rng.range(1, 5)).collect()) } else { None },
                            updated: if cur.stable { Some((0..phys).map(|_| rng.range(1, 5)).collect()) } else { None },
                            deleted: vec![],
                        }
                    })
                    .collect();
                gs.push((old, news));
            }
            WTxn::Rewrite(gs)
        }
        18 => WTxn::Reserve(rng.range(0, 3) as u32),
        _ => WTxn::Noop,
    }
}

pub fn run(args: &Args, rng: &mut Rng, sink: &mut Sink) {
    let mut s = Stream::new("build_unit", REQ, "chk_build", "option wman * bool * wtxn", "outcome wman");
    s.shard = 250;
    let n = args.vol(2000, 40000);
    for i in 0..n {
        let cur = gen_manifest(rng);
        let create = i % 40 == 39;
        let t = if create { WTxn::Overwrite((0..rng.range(0, 3)).map(|_| new_frag(rng, &ManAbs { version: 0, next_row_id: 0, max_fragment_id: None, stable: false, frags: vec![] }, false)).collect()) } else { gen_txn(rng, &cur) };
        let use_stable = if cur.stable { rng.chance(5, 6) } else { rng.chance(1, 8) };
        let mut dvs = DvTable(vec![]);
        let man = mk_manifest(&cur, &mut dvs);
        let op = t.operation(&mut dvs);
        let txn = Transaction::new(cur.version, op, None);
        let res = catch_msg(|| lance::dataset::verif_hooks::build_manifest(&txn, if create { None } else { Some(&man) }, vec![], "t.txn", use_stable, None));
        let panic_msg = match &res {
            Err(m) => m.clone(),
            _ => String::new(),
        };
        let (out, kind) = match &res {
            Ok(Ok((m, _))) => (format!("(Ok {})", coq_wman(&abs_manifest(m, &dvs), 0)), "ok"),
            Ok(Err(_)) => ("Err".to_string(), "err"),
            Err(_) => ("Panic".to_string(), "panic"),
        };
        let tk = match &t {
            WTxn::Append(_) => "append",
            WTxn::Overwrite(_) => "overwrite",
            WTxn::Delete(..) => "delete",
            WTxn::Update(..) => "update",
            WTxn::Rewrite(_) => "rewrite",
            WTxn::Reserve(_) => "reserve",
            WTxn::Noop => "noop",
        };
        sink.count(&format!("unit:build:{tk}:{kind}"));
        let cur_s = if create { "None".to_string() } else { format!("(Some {})", coq_wman(&cur, 0)) };
        let inp = format!("({}, {}, {})", cur_s, coq::b(use_stable), t.coq());
        sink.nontrivial(&inp);
        s.push(inp, out, json!({"current": if create { serde_json::Value::Null } else { crate::tbl::json_man(&cur) }, "use_stable_row_ids": use_stable, "txn": t.json(), "impl": kind, "panic": panic_msg}));
    }
    sink.add(s);

    // refresh_row_latest_update_meta_* directly
    let mut s = Stream::new("refresh", REQ, "chk_refresh", "wfrag * option (list N) * N * N", "wfrag");
    for _ in 0..args.vol(600, 6000) {
        let phys = rng.range(0, 6);
        let f = FragAbs {
            id: rng.below(4),
            physical_rows: phys,
            row_ids: Some((0..phys).collect()),
            created: Some(vec![1; phys as usize]),
            updated: match rng.below(5) {
                0 => None,
                1 => Some((0..phys.saturating_sub(1)).map(|_| rng.range(1, 6)).collect()),
                _ => Some((0..phys).map(|_| rng.range(1, 6)).collect()),
            },
            deleted: vec![],
        };
        let mut dvs = DvTable(vec![]);
        let mut fr = mk_fragment(&f, &mut dvs);
        let cur = rng.range(2, 9);
        let prev = cur - 1;
        let offs: Option<Vec<u64>> = if rng.chance(1, 4) { None } else { Some((0..phys + 2).filter(|_| rng.chance(1, 3)).collect()) };
        match &offs {
            None => lance_table::rowids::version::refresh_row_latest_update_meta_for_full_frag_rewrite_cols(&mut fr, cur).unwrap(),
            Some(o) => {
                let o: Vec<usize> = o.iter().map(|x| *x as usize).collect();
                lance_table::rowids::version::refresh_row_latest_update_meta_for_partial_frag_rewrite_cols(&mut fr, &o, cur, prev).unwrap()
            }
        }
        let out = abs_fragment(&fr, &dvs);
        sink.count(if offs.is_none() { "unit:refresh:full" } else { "unit:refresh:partial" });
        s.push(
            format!("({}, {}, {}, {})", coq_frag(&f), coq::opt(offs.as_ref().map(|o| coq::nlist(o.iter()))), cur, prev),
            coq_frag(&out),
            json!({"fragment": json_frag(&f), "updated_offsets": offs, "current_version": cur, "prev_version": prev, "impl": json_frag(&out)}),
        );
    }
    sink.add(s);
}
