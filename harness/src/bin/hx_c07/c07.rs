//! C07: restore reproduces the old version and keeps row identities unique.
//!  * corpus: the history that failed before the repair of DESIGN section 6 F4
//!    ([create 2 rows; append 2; restore v1; append 2]) and a few relatives, always run first;
//!  * e2e: random histories on temp-dir tables (stable row ids on and off) with restore followed by
//!    append / update / merge_insert / compaction / delete / overwrite;
//!    direct oracles: (a) one row id never denotes two different rows across all versions of the
//!    history, (b) an id that first appears in a version was used by no earlier version, (c) the
//!    restored version equals the snapshot taken of the version it restores (schema, rows, row ids,
//!    addresses, version columns, fragments + deletion vectors, indices);
//!    correspondence: every committed step against Model_Restore.step / build_manifest / compact_carry;
//!  * unit: Transaction::build_manifest through the verif hook on generated manifests and transactions.
use crate::tbl::*;
use crate::unit;
use hxlib::util::{coq, Args, Rng, Sink, Stream};
use lance::dataset::transaction::Operation;
use serde_json::{json, Value};
use std::collections::{BTreeMap, BTreeSet};

pub const REQ: &str = "Common.Base Table.Model_Restore";

pub struct Streams {
    pub known: Stream,
    pub fragok: Stream,
    pub step: Stream,
    pub build: Stream,
    pub opok: Stream,
    pub compact: Stream,
}
impl Streams {
    pub fn new() -> Streams {
        let mut step = Stream::new("step", REQ, "chk_step", "list wman * op", "outcome wman");
        step.shard = 60;
        let mut build = Stream::new("build_e2e", REQ, "chk_build", "option wman * bool * wtxn", "outcome wman");
        build.shard = 60;
        let opok = Stream::new("op_ok", REQ, "chk_op_ok", "wman * op", "bool");
        let mut compact = Stream::new("compact", REQ, "chk_compact", "list wfrag * list (N * N)", "outcome (list wfrag)");
        compact.shard = 100;
        let mut known = Stream::new("known_class", REQ, "chk_known_frag", "list wman", "bool");
        known.shard = 40;
        let mut fragok = Stream::new("frag_ok", REQ, "chk_frag_ok", "list wman * op", "bool * bool");
        fragok.shard = 40;
        Streams { known, fragok, step, build, opok, compact }
    }
    pub fn finish(self, sink: &mut Sink) {
        sink.add(self.known);
        sink.add(self.fragok);
        sink.add(self.step);
        sink.add(self.build);
        sink.add(self.opok);
        sink.add(self.compact);
    }
}

/// Is the failure of an API call the known, unrelated row-id-index assertion (DESIGN section 6 F18, C18/C34)?
pub fn is_f18(msg: &str) -> bool {
    msg.contains("Wrong range for")
}

/// Push the correspondence cases of the versions `new_versions` (just committed) of `h`.
pub async fn record_steps(h: &Hist, new_versions: &[u64], st: &mut Streams, sink: &mut Sink) {
    for &v in new_versions {
        if v == 1 {
            // creation: Overwrite on an empty history
            let snap = &h.vers[&1];
            if let Some(Operation::Overwrite { fragments, .. }) = &snap.op {
                let sizes = coq::list(fragments.iter().map(|f| f.physical_rows.unwrap_or(0).to_string()));
                if snap.man.stable {
                    st.step.push(format!("([], (OOverwrite {}))", sizes), format!("(Ok {})", coq_wman(&snap.man, 0)), json!({"history": h.describe(), "version": 1, "op": "create"}));
                }
                if let Some(w) = coq_wtxn(&h.tbl.ds, snap.op.as_ref().unwrap()).await {
                    st.build.push(format!("(None, {}, {})", coq::b(snap.man.stable), w), format!("(Ok {})", coq_wman(&snap.man, 0)), json!({"history": h.describe(), "version": 1, "op": "create"}));
                }
            }
            continue;
        }
        let prev = &h.vers[&(v - 1)];
        let new = &h.vers[&v];
        let Some(op) = &new.op else {
            sink.count("e2e:no-transaction-file");
            continue;
        };
        sink.count(&format!("e2e:committed:{}", op.name()));
        let human = json!({"history": h.describe(), "version": v, "step": new.step, "operation": op.name()});
        let out = format!("(Ok {})", coq_wman(&new.man, new.aux));
        if let Some((cop, j)) = coq_op(op, prev, new) {
            // the whole history only matters for Restore
            let hist: Vec<String> = if matches!(op, Operation::Restore { .. }) { h.vers.range(..v).rev().map(|(_, s)| coq_wman(&s.man, s.aux)).collect() } else { vec![coq_wman(&prev.man, prev.aux)] };
            let mut hj = human.clone();
            hj["op"] = j;
            st.step.push(format!("({}, {})", coq::list(hist), cop), out.clone(), hj.clone());
            sink.nontrivial(&format!("{}|{}", coq_wman(&prev.man, 0), cop));
            // domain condition of the theorems: carried ids are ids of the current manifest
            let cur_ids: BTreeSet<u64> = prev.man.frags.iter().flat_map(|f| f.row_ids.clone().unwrap_or_default()).collect();
            let ok = match op {
                Operation::Update { new_fragments, update_mode, .. } if !matches!(update_mode, Some(lance::dataset::transaction::UpdateMode::RewriteColumns)) => new_fragments.iter().all(|f| row_ids_of(f).unwrap_or_default().iter().all(|r| cur_ids.contains(r))),
                _ => true,
            };
            if ok {
                sink.oracle_ok();
            } else {
                let cls = known_class(h);
                sink.oracle_fail(cls, "a writer carried a row id into a new fragment that is not stored in the manifest it read", hj.clone());
            }
            st.opok.push(format!("({}, {})", coq_wman(&prev.man, prev.aux), cop), coq::b(ok), hj.clone());
            // domain condition of C07_fragment_ids_never_reused (needs the whole history): compactions use
            // reserved, unused, non-zero fragment ids; no Overwrite after creation; fragment ids distinct per manifest
            if matches!(op, Operation::Rewrite { .. } | Operation::Overwrite { .. }) {
                let used: BTreeSet<u64> = h.vers.range(..v).flat_map(|(_, s)| s.man.frags.iter().map(|f| f.id)).collect();
                let fok = match op {
                    Operation::Rewrite { groups, .. } => groups.iter().all(|g| g.new_fragments.iter().all(|f| f.id != 0 && !used.contains(&f.id))),
                    _ => false,
                };
                let uniq = h.vers.range(..v).all(|(_, s)| s.man.frags.iter().map(|f| f.id).collect::<BTreeSet<_>>().len() == s.man.frags.len());
                if matches!(op, Operation::Rewrite { .. }) {
                    if fok {
                        sink.oracle_ok();
                    } else {
                        sink.oracle_fail(None, "a compaction put a new fragment under an id that is 0 or already used in the history", hj.clone());
                    }
                }
                let hist: Vec<String> = h.vers.range(..v).rev().map(|(_, s)| coq_wman(&s.man, s.aux)).collect();
                st.fragok.push(format!("({}, {})", coq::list(hist), cop), format!("({}, {})", coq::b(fok), coq::b(uniq)), hj);
            }
        } else {
            sink.count("e2e:op-outside-model");
        }
        if !matches!(op, Operation::Restore { .. }) {
            if let Some(w) = coq_wtxn(&h.tbl.ds, op).await {
                st.build.push(format!("(Some {}, {}, {})", coq_wman(&prev.man, prev.aux), coq::b(prev.man.stable), w), out.clone(), human.clone());
            }
        }
        if let Operation::Rewrite { groups, .. } = op {
            if prev.man.stable {
                for g in groups {
                    let olds: Vec<FragAbs> = g.old_fragments.iter().filter_map(|of| prev.man.frags.iter().find(|f| f.id == of.id).cloned()).collect();
                    let news: Vec<(u64, u64)> = g.new_fragments.iter().map(|f| (f.id, f.physical_rows.unwrap_or(0) as u64)).collect();
                    let outs: Vec<FragAbs> = g.new_fragments.iter().map(frag_abs_plain).collect();
                    st.compact.push(
                        format!("({}, {})", coq_frags(&olds), coq::list(news.iter().map(|(i, p)| format!("({}, {})", i, p)))),
                        format!("(Ok {})", coq_frags(&outs)),
                        json!({"history": h.describe(), "version": v, "old": olds.iter().map(json_frag).collect::<Vec<_>>(), "new": outs.iter().map(json_frag).collect::<Vec<_>>()}),
                    );
                }
            }
        }
    }
}

pub const KNOWN_FRAG_REUSE: &str = "fragment_id_cache_after_overwrite";

/// The known class applies to a history that reuses a fragment id AND contains an Overwrite; fragment id
/// reuse without an Overwrite is itself a violation (reported by `check_fragment_ids`).
pub fn known_class(h: &Hist) -> Option<&'static str> {
    if h.fragment_id_reused() && h.has_overwrite() {
        Some(KNOWN_FRAG_REUSE)
    } else {
        None
    }
}

/// Fragment ids: distinct within every manifest; never reused across the history unless an Overwrite intervenes.
pub fn check_fragment_ids(h: &Hist, new_versions: &[u64], sink: &mut Sink) {
    for &v in new_versions {
        let snap = &h.vers[&v];
        let ids: BTreeSet<u64> = snap.man.frags.iter().map(|f| f.id).collect();
        if ids.len() != snap.man.frags.len() {
            sink.oracle_fail(None, "two fragments of one manifest have the same id", json!({"history": h.describe(), "version": v}));
        } else {
            sink.oracle_ok();
        }
    }
    if h.fragment_id_reused() && !h.has_overwrite() {
        sink.oracle_fail(None, "a fragment id denotes two different fragments (different row id sequences) in a history without Overwrite", json!({"history": h.describe()}));
    } else {
        sink.oracle_ok();
    }
}

/// Direct oracles of C07 over the versions just committed.
pub struct IdLedger {
    /// row id -> (key of the first row seen with it, version where first seen)
    first: BTreeMap<u64, (i64, u64)>,
    /// every id stored in any fragment of any version so far (deleted rows included), with the first version
    used: BTreeMap<u64, u64>,
}
impl IdLedger {
    pub fn new() -> Self {
        IdLedger { first: BTreeMap::new(), used: BTreeMap::new() }
    }
    /// Returns false when the history must stop (a read went wrong: later steps would build on it).
    pub fn check(&mut self, h: &Hist, new_versions: &[u64], sink: &mut Sink) -> bool {
        let mut go_on = true;
        // failures that the stale row-id-sequence cache explains are reported under the known class, and
        // only when the history really reuses a fragment id
        let cls = known_class(h);
        for &v in new_versions {
            let snap = &h.vers[&v];
            if let Some(e) = &snap.scan_err {
                sink.oracle_fail(cls, &format!("version {v} cannot be scanned: {e}"), json!({"history": h.describe(), "version": v}));
                go_on = false;
                continue;
            }
            if !snap.man.stable {
                continue;
            }
            // (r) what a scan reports as _rowid is what the manifest stores for that row
            let wrong = snap.rows.iter().zip(&snap.true_ids).find(|(r, t)| r.rowid != **t);
            match wrong {
                Some((r, t)) => {
                    sink.oracle_fail(cls, "scan reports a _rowid that differs from the row id sequence stored in the manifest", json!({"history": h.describe(), "version": v, "key": r.k, "address": r.addr, "scanned_rowid": r.rowid, "manifest_rowid": t}));
                    go_on = false;
                }
                None => sink.oracle_ok(),
            }
            // (a) identity: a row id (as stored in the manifest) always denotes the row with the same key
            let mut bad = None;
            for (r, t) in snap.rows.iter().zip(&snap.true_ids) {
                match self.first.get(t) {
                    Some((k, v0)) if *k != r.k => {
                        bad = Some(json!({"row_id": t, "key_now": r.k, "version_now": v, "key_first": k, "version_first": v0}));
                        break;
                    }
                    Some(_) => {}
                    None => {
                        self.first.insert(*t, (r.k, v));
                    }
                }
            }
            match bad {
                Some(b) => {
                    sink.oracle_fail(cls, "a stable row id denotes two different rows in two versions of the history", json!({"history": h.describe(), "detail": b}));
                    go_on = false;
                }
                None => sink.oracle_ok(),
            }
            // within one version ids are distinct
            let ids: BTreeSet<u64> = snap.true_ids.iter().copied().collect();
            if ids.len() != snap.rows.len() {
                sink.oracle_fail(cls, "duplicate row id within one version", json!({"history": h.describe(), "version": v}));
                go_on = false;
            } else {
                sink.oracle_ok();
            }
            // (b) ids handed out by this step (the interval the high-water mark moved over) are new to
            // the whole history, and the mark never goes down. Manifest level: no cache involved, never excused.
            let prev_next = if v > 1 { h.vers[&(v - 1)].man.next_row_id } else { 0 };
            let all_ids: BTreeSet<u64> = snap.man.frags.iter().flat_map(|f| f.row_ids.clone().unwrap_or_default()).collect();
            let mut bad = None;
            if snap.man.next_row_id < prev_next {
                bad = Some(json!({"next_row_id_before": prev_next, "next_row_id_after": snap.man.next_row_id}));
            }
            for id in &all_ids {
                if *id >= snap.man.next_row_id {
                    bad = Some(json!({"row_id": id, "next_row_id": snap.man.next_row_id, "what": "id at or above the high-water mark"}));
                }
                if *id >= prev_next {
                    if let Some(v0) = self.used.get(id) {
                        bad = Some(json!({"row_id": id, "handed_out_in": v, "already_used_in": v0}));
                    }
                }
            }
            match bad {
                Some(b) => sink.oracle_fail(None, "a row id handed out by this step was already used by an earlier version (or next_row_id went down)", json!({"history": h.describe(), "version": v, "detail": b})),
                None => sink.oracle_ok(),
            }
            for id in all_ids {
                self.used.entry(id).or_insert(v);
            }
        }
        go_on
    }
}

/// (c) restored content equals the snapshot of the restored version
pub fn check_restore(h: &Hist, new_versions: &[u64], sink: &mut Sink) {
    let cls = known_class(h);
    for &v in new_versions {
        let snap = &h.vers[&v];
        if let Some(Operation::Restore { version }) = &snap.op {
            let Some(old) = h.vers.get(version) else {
                sink.oracle_fail(None, "restore of a version the harness never saw", json!({"history": h.describe(), "version": v}));
                continue;
            };
            if snap.scan_err.is_some() || old.scan_err.is_some() {
                continue; // reported by the id oracle
            }
            sink.count("e2e:restore-checked");
            // what the manifest and the data files say (row ids taken from the manifest)
            let strip = |s: &VerSnap| -> Vec<(i64, i64, String, u64, u64, u64, u64)> { s.rows.iter().zip(&s.true_ids).map(|(r, t)| (r.k, r.x, r.s.clone(), *t, r.addr, r.created, r.updated)).collect() };
            let mut diffs = vec![];
            if old.schema != snap.schema {
                diffs.push("schema");
            }
            if old.indices != snap.indices {
                diffs.push("indices");
            }
            if strip(old) != strip(snap) {
                diffs.push("rows (values, row ids, _rowaddr, version columns)");
            }
            if old.man.frags != snap.man.frags {
                diffs.push("fragments / row id sequences / deletion vectors");
            }
            if old.man.stable != snap.man.stable {
                diffs.push("stable-row-id flag");
            }
            if snap.man.version != h.vers[&(v - 1)].man.version + 1 {
                diffs.push("version number");
            }
            if diffs.is_empty() {
                sink.oracle_ok();
            } else {
                sink.oracle_fail(None, &format!("restored version differs from the version it restores in: {}", diffs.join(", ")), json!({"history": h.describe(), "restored": version, "as_version": v, "old_rows": old.rows.len(), "new_rows": snap.rows.len()}));
            }
            // and as a reader of the same session sees it
            if old.rows == snap.rows {
                sink.oracle_ok();
            } else {
                sink.oracle_fail(cls, "restored version, as scanned in the same session, differs from the snapshot of the version it restores (_rowid column)", json!({"history": h.describe(), "restored": version, "as_version": v}));
            }
        }
    }
}

/// Pick the next step of a random history.
pub fn gen_step(rng: &mut Rng, h: &Hist, force_restore: bool, allow_restore: bool) -> Option<Step> {
    let rows = &h.latest().rows;
    let nrows = rows.len();
    let lv = h.latest_version();
    if force_restore && lv >= 2 {
        return Some(Step::Restore { version: rng.range(1, lv - 1) });
    }
    for _ in 0..20 {
        let w = rng.below(100);
        let s = if w < 24 {
            Step::Append { n: rng.range(1, 7) as usize }
        } else if w < 36 {
            let pred = gen_pred(rng, rows, h.tbl.next_k);
            Step::Delete { pred }
        } else if w < 50 {
            let pred = gen_pred(rng, rows, h.tbl.next_k);
            Step::Update { pred, add: rng.range(1, 9) as i64 * 1000 }
        } else if w < 60 {
            if nrows == 0 {
                continue;
            }
            let cnt = rng.range(0, 3.min(nrows as u64)) as usize;
            let mut old: Vec<i64> = (0..cnt).map(|_| rng.pick(rows).k).collect();
            old.sort();
            old.dedup();
            let fresh = rng.range(if old.is_empty() { 1 } else { 0 }, 3) as usize;
            Step::Merge { old, fresh, partial: false }
        } else if w < 66 {
            if nrows == 0 {
                continue;
            }
            let cnt = rng.range(1, 4.min(nrows as u64)) as usize;
            let mut old: Vec<i64> = (0..cnt).map(|_| rng.pick(rows).k).collect();
            old.sort();
            old.dedup();
            Step::Merge { old, fresh: 0, partial: true }
        } else if w < 78 {
            Step::Compact { target: *rng.pick(&[4usize, 8, 100]), materialize: rng.chance(4, 5) }
        } else if w < 92 {
            if !allow_restore || lv < 2 {
                continue;
            }
            Step::Restore { version: rng.range(1, lv - 1) }
        } else if w < 96 {
            Step::CreateIndex { col: rng.pick(&["x", "k"]).to_string() }
        } else {
            Step::Overwrite { n: rng.range(1, 5) as usize }
        };
        // never empty the table (an empty stable table loses its feature flag: outside the modelled domain)
        if let Step::Delete { pred } = &s {
            let hit = rows.iter().filter(|r| eval_pred(pred, r.k)).count();
            if hit == 0 || hit >= nrows {
                continue;
            }
        }
        if let Step::Update { pred, .. } = &s {
            if rows.iter().filter(|r| eval_pred(pred, r.k)).count() == 0 {
                continue;
            }
        }
        return Some(s);
    }
    Some(Step::Append { n: 2 })
}

/// Evaluate the predicates produced by `gen_pred` on a key.
pub fn eval_pred(p: &str, k: i64) -> bool {
    let t: Vec<&str> = p.split_whitespace().collect();
    if p.starts_with("k % ") {
        let m: i64 = t[2].parse().unwrap();
        let r: i64 = t[4].parse().unwrap();
        return k % m == r;
    }
    if p.starts_with("k >= ") {
        let a: i64 = t[2].parse().unwrap();
        let b: i64 = t[6].parse().unwrap();
        return k >= a && k <= b;
    }
    if p.starts_with("k IN (") {
        let inner = &p[6..p.len() - 1];
        return inner.split(',').any(|x| x.trim().parse::<i64>().unwrap() == k);
    }
    if p.starts_with("k = ") {
        return k == t[2].parse::<i64>().unwrap();
    }
    if p.starts_with("k < ") {
        return k < t[2].parse::<i64>().unwrap();
    }
    panic!("unknown predicate {p}");
}

/// Drive one history; `script` = fixed steps (corpus) or None for random.
pub async fn run_history(rng: &mut Rng, sink: &mut Sink, st: &mut Streams, stable: bool, n0: usize, mrpf: usize, script: Option<Vec<Step>>, len: usize, tag: &str) {
    let mut h = Hist::start(n0, mrpf, stable).await;
    let mut ids = IdLedger::new();
    let _ = ids.check(&h, &[1], sink);
    record_steps(&h, &[1], st, sink).await;
    sink.count(&format!("{tag}:histories:stable={stable}"));
    let restore_at = if len >= 3 { rng.range(2, (len as u64 - 1).max(2)) as usize } else { usize::MAX };
    let mut restored = false;
    let steps: Vec<Option<Step>> = match &script {
        Some(s) => s.iter().cloned().map(Some).collect(),
        None => (0..len).map(|_| None).collect(),
    };
    for (i, fixed) in steps.into_iter().enumerate() {
        let step = match fixed {
            Some(s) => s,
            None => match gen_step(rng, &h, i == restore_at && !restored, true) {
                Some(s) => s,
                None => break,
            },
        };
        if matches!(step, Step::Restore { .. }) {
            restored = true;
        }
        let kind = step.describe().split_whitespace().next().unwrap_or("").to_string();
        match h.tbl.apply(&step).await {
            Ok(()) => {}
            Err((_, msg)) if is_f18(&msg) => {
                // unrelated known defect (RowIdIndex::new debug assertion, F18): nothing was committed
                sink.count(&format!("{tag}:step-skipped:rowid-index-assertion(F18)"));
                h.tbl.hist.pop();
                continue;
            }
            Err((panic, msg)) => {
                let cls = known_class(&h);
                sink.oracle_fail(cls, &format!("operation `{}` failed ({}): {}", step.describe(), if panic { "panic" } else { "error" }, msg), json!({"history": h.describe()}));
                break;
            }
        }
        sink.count(&format!("{tag}:step:{kind}{}", if restored && kind != "restore" { ":after-restore" } else { "" }));
        let newv = match h.sync(&step.describe()).await {
            Ok(v) => v,
            Err(e) => {
                sink.oracle_fail(None, &format!("cannot read back the table after `{}`: {}", step.describe(), e), json!({"history": h.describe()}));
                break;
            }
        };
        let go_on = ids.check(&h, &newv, sink);
        check_fragment_ids(&h, &newv, sink);
        check_restore(&h, &newv, sink);
        record_steps(&h, &newv, st, sink).await;
        if !go_on {
            sink.count(&format!("{tag}:history-stopped-after-bad-read"));
            break;
        }
    }
    // the class predicate as computed here vs Known_C07_fragment_id_cache_after_overwrite in Coq
    let reused = h.fragment_id_reused();
    sink.count(&format!("{tag}:class:fragment-id-reused={reused}:overwrite={}", h.has_overwrite()));
    let all: Vec<String> = h.vers.iter().rev().map(|(_, s)| coq_wman(&s.man, s.aux)).collect();
    st.known.push(coq::list(all), coq::b(reused), json!({"history": h.describe(), "fragment_id_reused": reused}));
}

pub fn corpus() -> Vec<(&'static str, bool, usize, usize, Vec<Step>)> {
    vec![
        // DESIGN section 6 F4: before commit 97111ae the last append handed out ids 2,3 again
        ("F4", true, 2, 100, vec![Step::Append { n: 2 }, Step::Restore { version: 1 }, Step::Append { n: 2 }]),
        ("F4-update", true, 2, 100, vec![Step::Append { n: 2 }, Step::Restore { version: 1 }, Step::Merge { old: vec![0], fresh: 2, partial: false }, Step::Append { n: 1 }]),
        ("F4-twice", true, 3, 2, vec![Step::Append { n: 3 }, Step::Restore { version: 1 }, Step::Append { n: 1 }, Step::Restore { version: 2 }, Step::Append { n: 2 }, Step::Restore { version: 1 }, Step::Compact { target: 100, materialize: true }, Step::Append { n: 2 }]),
        ("F4-unstable", false, 2, 100, vec![Step::Append { n: 2 }, Step::CreateIndex { col: "x".into() }, Step::Restore { version: 1 }, Step::Append { n: 2 }, Step::Restore { version: 3 }]),
        // reused fragment id 1 before commit 6961b14 (restore kept the old max_fragment_id): the scan after the
        // update returned _rowid 2 for key 0; with merge_insert (different row count) every scan failed
        ("R1", true, 2, 100, vec![Step::Append { n: 2 }, Step::Restore { version: 1 }, Step::Update { pred: "k = 0".into(), add: 1000 }, Step::Update { pred: "k = 0".into(), add: 1000 }]),
        ("R1-merge", true, 2, 100, vec![Step::Append { n: 2 }, Step::Restore { version: 1 }, Step::Merge { old: vec![0], fresh: 2, partial: false }, Step::Compact { target: 100, materialize: true }]),
        // KNOWN class fragment_id_cache_after_overwrite: Overwrite restarts fragment ids at 0
        ("R2-known", true, 4, 2, vec![Step::Overwrite { n: 2 }, Step::Restore { version: 1 }]),
        ("restore-overwrite", true, 4, 2, vec![Step::Delete { pred: "k = 1".into() }, Step::Overwrite { n: 2 }, Step::Restore { version: 2 }, Step::Update { pred: "k = 3".into(), add: 1000 }, Step::Append { n: 2 }]),
    ]
}

pub fn run(args: &Args) -> i32 {
    let mut sink = Sink::new("C07", &args.out);
    let mut rng = Rng::new(args.seed);
    let rt = tokio::runtime::Builder::new_multi_thread().worker_threads(4).enable_all().build().unwrap();
    let mut st = Streams::new();
    // panics of API calls are caught per step (tokio task); keep stderr quiet
    std::panic::set_hook(Box::new(|_| {}));
    rt.block_on(async {
        for (name, stable, n0, mrpf, steps) in corpus() {
            let len = steps.len();
            run_history(&mut rng, &mut sink, &mut st, stable, n0, mrpf, Some(steps), len, &format!("corpus:{name}")).await;
        }
        let n_hist = args.vol(36, 400);
        for _ in 0..n_hist {
            let stable = rng.chance(3, 4);
            let n0 = rng.range(1, 10) as usize;
            let mrpf = *rng.pick(&[2usize, 3, 5, 100]);
            let len = rng.range(5, 11) as usize;
            run_history(&mut rng, &mut sink, &mut st, stable, n0, mrpf, None, len, "e2e").await;
        }
    });
    let _ = std::panic::take_hook();
    st.finish(&mut sink);
    unit::run(args, &mut rng, &mut sink);
    sink.notes.push("e2e: temp-dir tables, ops through the public API; unit: Transaction::build_manifest via lance::dataset::verif_hooks::build_manifest".into());
    sink.finish();
    0
}

#[allow(dead_code)]
fn _unused(_: Value) {}
