//! End-to-end arm: `write_all` + `shutdown()` through the public API on a multi-thread runtime, over
//! (a) the recording store in auto mode (fault plan fixed in advance; part sizes compared with the model's
//! closed form `expected_parts`), (b) `ObjectStore::memory()`, (c) the local-file writer.
use crate::store::RecStore;
use crate::{Cfg, Pattern, REQ};
use futures::TryStreamExt;
use hxlib::util::{Args, Rng, Sink, Stream};
use lance_io::object_store::ObjectStore as LanceStore;
use object_store::path::Path;
use object_store::ObjectStore;
use serde_json::json;
use std::sync::Arc;
use tokio::io::AsyncWriteExt;

fn chunks_for(total: u64, rng: &mut Rng) -> Vec<usize> {
    let mut v = vec![];
    let mut rem = total;
    let big = rng.bool();
    while rem > 0 {
        let k = if big { rng.range(crate::MIB, 7 * crate::MIB) } else { rng.range(1, 2 * crate::MIB) }.min(rem);
        v.push(k as usize);
        rem -= k;
    }
    if rng.chance(1, 4) {
        v.insert(rng.below(v.len() as u64 + 1) as usize, 0); // write_all(&[]) is a no-op
    }
    v
}

fn opt(x: Option<u64>) -> String {
    match x {
        Some(v) => format!("(Some {})", v),
        None => "None".into(),
    }
}

async fn absent(store: &dyn ObjectStore, path: &Path) -> bool {
    let h = store.head(path).await;
    let l: Vec<_> = store.list(None).try_collect().await.unwrap_or_default();
    matches!(h, Err(object_store::Error::NotFound { .. })) && l.iter().all(|m| &m.location != path)
}

#[derive(Clone, Copy, Debug, PartialEq)]
enum F {
    None,
    Create,
    Put,
    Complete,
    Part(usize),
    AbortMid,
    DropMid,
}

pub fn run<W: crate::WLike>(args: &Args, cfg: Cfg, pat: Arc<Pattern>, rng: &mut Rng, sink: &mut Sink) {
    let rt = tokio::runtime::Builder::new_multi_thread().worker_threads(4).enable_all().build().unwrap();
    let mut parts = Stream::new("parts", REQ, "chk_parts", "cfg_code * N", "option N * list N");
    let i = cfg.init;
    let top = 17 * crate::MIB;

    // ---------- (a) recording store, auto mode
    let n = args.vol(40, 250);
    for case in 0..n {
        let fixed = [0, 1, i - 1, i, i + 1, 2 * i - 1, 2 * i, 2 * i + 1, 3 * i, 3 * i + 1, top];
        let mut total = if rng.chance(1, 2) { *rng.pick(&fixed) } else { rng.below(top + 1) }.min(top);
        let f = match rng.below(10) {
            0 => {
                total = total.max(i);
                F::Create
            }
            1 => {
                total = total.min(i - 1);
                F::Put
            }
            2 => {
                total = total.max(i);
                F::Complete
            }
            3 | 4 => {
                total = total.max(i + 1);
                F::Part(rng.below(((total + i - 1) / i).max(1)) as usize)
            }
            5 => F::AbortMid,
            6 => F::DropMid,
            _ => F::None,
        };
        let constant = rng.chance(1, 6);
        let chunks = chunks_for(total, rng);
        let store = RecStore::new(false);
        {
            let mut r = store.rec.lock().unwrap();
            r.plan.fail_create = f == F::Create;
            r.plan.fail_put = f == F::Put;
            r.plan.fail_complete = f == F::Complete;
            if let F::Part(k) = f {
                r.plan.part.insert(k, 1);
            }
            for c in 0..8 {
                if rng.chance(1, 3) {
                    r.plan.delay_ms.insert(c, rng.below(4));
                }
            }
        }
        let lstore = store.lance(constant);
        let path = Path::from(format!("d/e2e-{case}.bin"));
        let stop_after = if matches!(f, F::AbortMid | F::DropMid) { rng.below(chunks.len() as u64 + 1) as usize } else { usize::MAX };
        let case_json = json!({"arm": "e2e-rec", "total": total, "chunks": chunks.len(), "fault": format!("{:?}", f), "constant": constant, "cfg": [cfg.init, cfg.maxpar]});
        let (result, written) = rt.block_on(async {
            let mut w = W::new_(&lstore, &path).await;
            let mut off = 0u64;
            let mut invisible = true;
            let mut err = false;
            for (ci, c) in chunks.iter().enumerate() {
                if ci == stop_after {
                    break;
                }
                let data = pat.fill(off, *c);
                match w.write_all(&data).await {
                    Ok(()) => off += *c as u64,
                    Err(_) => {
                        err = true;
                        break;
                    }
                }
                // listing / head during the write
                invisible &= absent(store.inner.as_ref(), &path).await;
            }
            let res: Result<Option<usize>, ()> = if err {
                drop(w);
                Err(())
            } else if stop_after != usize::MAX {
                if f == F::AbortMid {
                    w.abort_().await;
                }
                drop(w);
                Ok(None)
            } else {
                match w.shutdown_().await {
                    Ok(r) => {
                        drop(w);
                        Ok(Some(r.size))
                    }
                    Err(_) => {
                        drop(w);
                        Err(())
                    }
                }
            };
            // let the abort spawned by Drop run (it runs on another worker thread: wait for it, up to 5 s)
            let expect_abort = !matches!(res, Ok(Some(_))) && f != F::Complete;
            for _ in 0..1000 {
                tokio::task::yield_now().await;
                let (opened, aborted) = {
                    let r = store.rec.lock().unwrap();
                    (!r.calls.is_empty(), r.n_abort > 0)
                };
                if !expect_abort || !opened || aborted {
                    break;
                }
                tokio::time::sleep(std::time::Duration::from_millis(5)).await;
            }
            ((res, invisible), off)
        });
        let (res, invisible) = result;
        if !invisible {
            sink.oracle_fail(None, "destination visible (head/list) while the write was in progress", case_json.clone());
        } else {
            sink.oracle_ok();
        }
        let got = rt.block_on(async {
            match store.inner.get(&path).await {
                Ok(g) => Some(g.bytes().await.unwrap()),
                Err(_) => None,
            }
        });
        let (calls, puts, n_abort, cwp) = {
            let r = store.rec.lock().unwrap();
            (r.calls.iter().map(|c| c.len).collect::<Vec<_>>(), r.puts.clone(), r.n_abort, r.complete_with_pending)
        };
        if cwp {
            sink.oracle_fail(None, "complete() called while a part upload was unresolved", case_json.clone());
        }
        match res {
            Ok(Some(size)) => {
                sink.count("e2e-rec:ok");
                let good = got.as_ref().map(|b| b.len() as u64 == total && pat.matches(0, b)).unwrap_or(false) && size as u64 == total && written == total;
                if f != F::None {
                    sink.oracle_fail(None, &format!("shutdown succeeded although the store failed ({:?})", f), case_json.clone());
                } else if !good {
                    sink.oracle_fail(None, "after a successful shutdown the object is not the concatenation of the writes (or WriteResult.size is wrong)", case_json.clone());
                } else {
                    sink.oracle_ok();
                }
                let inp = format!("({}, {})", cfg.coq(constant), total);
                sink.nontrivial(&format!("parts{inp}"));
                parts.push(inp, format!("({}, [{}])", opt(puts.first().copied()), calls.iter().map(|x| x.to_string()).collect::<Vec<_>>().join("; ")), case_json.clone());
            }
            Ok(None) | Err(()) => {
                sink.count(if res.is_err() { "e2e-rec:failed" } else { "e2e-rec:closed-early" });
                if f == F::None {
                    sink.oracle_fail(None, "a fault-free write failed", case_json.clone());
                }
                if got.is_some() {
                    sink.oracle_fail(None, "a failed / aborted / dropped write left an object at the destination", case_json.clone());
                } else {
                    sink.oracle_ok();
                }
                // a multipart upload that was opened and then given up before completion is aborted
                let opened = !calls.is_empty();
                if opened && f != F::Complete && n_abort == 0 {
                    sink.oracle_fail(None, "the multipart upload was neither completed nor aborted", case_json.clone());
                } else {
                    sink.oracle_ok();
                }
            }
        }
    }

    // ---------- (a') the capacity growth rule: more than 100 parts (payload discarded by the store, each part
    // verified against the pattern at its offset on arrival)
    let bigs: Vec<bool> = if args.thorough() { vec![false, true] } else { vec![args.seed % 3 == 0] };
    for constant in bigs {
        let total = 101 * i + 2 * cfg.step.max(i) + 10 + rng.below(1000);
        let store = RecStore::new(false);
        store.rec.lock().unwrap().discard = Some(pat.clone());
        let lstore = store.lance(constant);
        let path = Path::from("d/big.bin");
        let size = rt.block_on(async {
            let mut w = W::new_(&lstore, &path).await;
            let mut off = 0u64;
            while off < total {
                let k = (4 * crate::MIB + 1).min(total - off);
                let data = pat.fill(off, k as usize);
                w.write_all(&data).await.unwrap();
                off += k;
            }
            w.shutdown_().await.map(|r| r.size).unwrap_or(usize::MAX)
        });
        let case_json = json!({"arm": "e2e-big", "total": total, "constant": constant, "cfg": [cfg.init, cfg.maxpar]});
        let (calls, offs_ok) = {
            let r = store.rec.lock().unwrap();
            let mut off = 0u64;
            let mut ok = true;
            for c in r.calls.iter() {
                ok &= c.pattern_off == Some(off);
                off += c.len;
            }
            (r.calls.iter().map(|c| c.len).collect::<Vec<_>>(), ok && off == total)
        };
        if !offs_ok || size as u64 != total {
            sink.oracle_fail(None, "a part of the large upload is not the slice of the stream at its offset, or sizes do not add up", case_json.clone());
        } else {
            sink.oracle_ok();
        }
        sink.count(if constant { "e2e-big:constant-size" } else { "e2e-big:growing" });
        let inp = format!("({}, {})", cfg.coq(constant), total);
        sink.nontrivial(&format!("parts{inp}"));
        parts.push(inp, format!("(None, [{}])", calls.iter().map(|x| x.to_string()).collect::<Vec<_>>().join("; ")), case_json);
    }
    sink.add(parts);

    // ---------- (b) ObjectStore::memory()
    for case in 0..args.vol(8, 80) {
        let fixed = [0, 1, i - 1, i, i + 1, 2 * i, 2 * i + 1, top];
        let total = if rng.bool() { *rng.pick(&fixed) } else { rng.below(top + 1) }.min(top);
        let chunks = chunks_for(total, rng);
        let mode = rng.below(4); // 0,1 write+shutdown ; 2 put helper ; 3 abort / drop
        let mem = LanceStore::memory();
        let path = Path::from(format!("m/{case}.bin"));
        let case_json = json!({"arm": "e2e-memory", "total": total, "chunks": chunks.len(), "mode": mode});
        let ok = rt.block_on(async {
            let mut good = true;
            if mode == 2 {
                let data = pat.fill(0, total as usize);
                let r = mem.put(&path, &data).await.unwrap();
                good &= r.size as u64 == total;
            } else {
                let mut w = mem.create(&path).await.unwrap();
                let mut off = 0u64;
                for c in &chunks {
                    let data = pat.fill(off, *c);
                    w.write_all(&data).await.unwrap();
                    off += *c as u64;
                    good &= absent(mem.inner.as_ref(), &path).await;
                }
                if mode == 3 {
                    if case % 2 == 0 {
                        w.abort().await;
                    }
                    drop(w);
                    tokio::time::sleep(std::time::Duration::from_millis(5)).await;
                    return good && absent(mem.inner.as_ref(), &path).await;
                }
                let r = w.shutdown().await.unwrap();
                good &= r.size as u64 == total;
            }
            let b = mem.inner.get(&path).await.unwrap().bytes().await.unwrap();
            good && b.len() as u64 == total && pat.matches(0, &b)
        });
        sink.count("e2e-memory");
        if ok {
            sink.oracle_ok();
        } else {
            sink.oracle_fail(None, "memory store: object differs from the written bytes, was visible early, or survived abort/drop", case_json);
        }
    }

    // ---------- (c) the local-file writer
    for case in 0..args.vol(8, 80) {
        let fixed = [0, 1, i - 1, i, i + 1, 2 * i + 1, top];
        let total = if rng.bool() { *rng.pick(&fixed) } else { rng.below(top + 1) }.min(top);
        let chunks = chunks_for(total, rng);
        let mode = rng.below(4); // 0,1 write+shutdown ; 2 abort ; 3 drop
        let dir = tempfile::tempdir().unwrap();
        let file = dir.path().join(format!("local-{case}.bin"));
        let case_json = json!({"arm": "e2e-local", "total": total, "chunks": chunks.len(), "mode": mode});
        let via_helper = rng.bool();
        let ok = rt.block_on(async {
            let mut good = true;
            let mut w = if via_helper {
                LanceStore::create_local_writer(&file).await.unwrap()
            } else {
                let p = Path::from_absolute_path(&file).unwrap();
                LanceStore::local().create(&p).await.unwrap()
            };
            let mut off = 0u64;
            let local = LanceStore::local();
            let prefix = Path::from_absolute_path(dir.path()).unwrap();
            for c in &chunks {
                let data = pat.fill(off, *c);
                w.write_all(&data).await.unwrap();
                off += *c as u64;
                // the destination does not exist yet, and the store's listing of the directory is empty
                good &= !file.exists();
                let l: Vec<_> = local.inner.list(Some(&prefix)).try_collect().await.unwrap_or_default();
                good &= l.is_empty();
            }
            if mode >= 2 {
                if mode == 2 {
                    w.abort().await;
                }
                drop(w);
                // the staged file is removed (abort, or the abort spawned by Drop)
                let mut empty = false;
                for _ in 0..200 {
                    if std::fs::read_dir(dir.path()).unwrap().count() == 0 {
                        empty = true;
                        break;
                    }
                    tokio::time::sleep(std::time::Duration::from_millis(5)).await;
                }
                return good && empty && !file.exists();
            }
            let r = w.shutdown().await.unwrap();
            good &= r.size as u64 == total;
            let b = std::fs::read(&file).unwrap();
            let only_dest = std::fs::read_dir(dir.path()).unwrap().count() == 1;
            good && only_dest && b.len() as u64 == total && pat.matches(0, &b)
        });
        sink.count("e2e-local");
        if ok {
            sink.oracle_ok();
        } else {
            sink.oracle_fail(None, "local writer: file differs from the written bytes, was visible early, or abort/drop left files behind", case_json);
        }
    }
}
