//! Recording multipart object store for C31.
//!
//! Objects live in an `InMemory` store; `put`, `put_multipart`, `put_part`, `complete`, `abort` are
//! recorded.  Semantics of the multipart upload (the contract of `object_store::MultipartUpload`):
//! the position of a part is fixed by the ORDER OF `put_part` CALLS, a part whose upload failed is not
//! part of the object, `complete` assembles the stored parts and makes the object visible at once.
//!
//! Two modes.  Gated: every store future stays pending until the harness resolves it with an outcome
//! (schedule-exact traces, driven on a current-thread runtime).  Auto: futures resolve by a fault plan
//! fixed in advance (end-to-end arm on a multi-thread runtime).
use async_trait::async_trait;
use bytes::Bytes;
use futures::stream::BoxStream;
use object_store::memory::InMemory;
use object_store::path::Path;
use object_store::{
    GetOptions, GetResult, ListResult, MultipartUpload, ObjectMeta, ObjectStore, PutMultipartOptions, PutOptions, PutPayload, PutResult,
    Result as OSResult, UploadPart,
};
use std::collections::HashMap;
use std::sync::{Arc, Mutex};
use tokio::sync::oneshot;

/// outcome of a part upload: 0 ok, 1 error, 2 "connection reset by peer"
pub type PartOutcome = u8;

#[derive(Clone, Copy, PartialEq, Eq, Debug)]
pub enum Slot {
    Pending,
    Stored,
    Failed,
}

pub struct CallRec {
    pub len: u64,
    pub data: Option<Bytes>, // None in discard mode
    pub slot: Slot,
    pub gate: Option<oneshot::Sender<PartOutcome>>,
    pub done: bool, // the future returned
    /// discard mode: where in the pattern stream this payload was found (None = nowhere)
    pub pattern_off: Option<u64>,
}

#[derive(Default)]
pub struct Plan {
    pub fail_create: bool,
    pub fail_put: bool,
    pub fail_complete: bool,
    pub fail_abort: bool,
    /// auto mode: outcome per put_part call index
    pub part: HashMap<usize, PartOutcome>,
    /// auto mode: delay (ms) per call index, to shuffle completion order
    pub delay_ms: HashMap<usize, u64>,
}

#[derive(Default)]
pub struct Rec {
    pub gated: bool,
    pub plan: Plan,
    pub n_create: u64,
    pub n_complete: u64,
    pub n_abort: u64,
    pub puts: Vec<u64>,
    pub calls: Vec<CallRec>,
    pub create_gate: Option<oneshot::Sender<bool>>,
    /// gated mode: the store commits when the harness resolves the gate (fire_put / fire_complete) and
    /// the writer's future only carries the answer back
    pub put_gate: Option<oneshot::Sender<Option<PutResult>>>,
    pub complete_gate: Option<oneshot::Sender<Option<PutResult>>>,
    pub pending_put: Option<(Path, PutPayload)>,
    pub pending_complete: Option<Path>,
    /// `complete` was called while a part upload had not resolved (a protocol violation by the writer)
    pub complete_with_pending: bool,
    /// put_part / complete / abort after complete or abort
    pub use_after_close: bool,
    pub closed: bool,
    /// keep only the sizes of the parts (large payloads); parts are verified against the pattern on arrival
    pub discard: Option<Arc<crate::Pattern>>,
    pub discard_expect_off: u64,
}

#[derive(Clone)]
pub struct RecStore {
    pub inner: Arc<InMemory>,
    pub rec: Arc<Mutex<Rec>>,
}

impl std::fmt::Debug for RecStore {
    fn fmt(&self, f: &mut std::fmt::Formatter<'_>) -> std::fmt::Result {
        write!(f, "RecStore")
    }
}
impl std::fmt::Display for RecStore {
    fn fmt(&self, f: &mut std::fmt::Formatter<'_>) -> std::fmt::Result {
        write!(f, "RecStore")
    }
}

fn generic(msg: &str) -> object_store::Error {
    object_store::Error::Generic { store: "rec", source: msg.to_string().into() }
}

pub fn part_error(o: PartOutcome) -> object_store::Error {
    match o {
        // the text the retry logic of ObjectWriter looks for (case-insensitive)
        2 => generic("error sending request: Connection reset by peer (os error 104)"),
        _ => generic("injected part failure"),
    }
}

impl RecStore {
    pub fn new(gated: bool) -> Self {
        let rec = Rec { gated, ..Default::default() };
        RecStore { inner: Arc::new(InMemory::new()), rec: Arc::new(Mutex::new(rec)) }
    }
    pub fn lance(&self, constant_parts: bool) -> lance_io::object_store::ObjectStore {
        lance_io::object_store::ObjectStore::new(
            Arc::new(self.clone()) as Arc<dyn ObjectStore>,
            url::Url::parse("memory:///").unwrap(),
            None,
            None,
            constant_parts,
            true,
            8,
            3,
            None,
        )
    }
    /// number of part uploads not yet resolved by the harness
    pub fn open_gates(&self) -> Vec<usize> {
        let r = self.rec.lock().unwrap();
        r.calls.iter().enumerate().filter(|(_, c)| c.gate.is_some()).map(|(i, _)| i).collect()
    }
    /// resolve part upload `i`
    pub fn fire_part(&self, i: usize, o: PartOutcome) -> bool {
        let mut r = self.rec.lock().unwrap();
        let c = &mut r.calls[i];
        match c.gate.take() {
            Some(tx) => {
                c.slot = if o == 0 { Slot::Stored } else { Slot::Failed };
                tx.send(o).is_ok()
            }
            None => false,
        }
    }
    /// the store assembles the stored parts in call order and makes the object visible
    pub async fn commit_parts(&self, path: &Path) -> OSResult<PutResult> {
        let assembled: Vec<Bytes> = {
            let mut r = self.rec.lock().unwrap();
            r.closed = true;
            r.calls.iter().filter(|c| c.slot == Slot::Stored).filter_map(|c| c.data.clone()).collect()
        };
        let payload: PutPayload = assembled.into_iter().collect();
        self.inner.put_opts(path, payload, PutOptions::default()).await
    }
    /// gated mode: the store performs (or refuses) the single put now; the writer learns it at its next poll
    pub async fn fire_put(&self, ok: bool) {
        let (tx, p) = {
            let mut r = self.rec.lock().unwrap();
            (r.put_gate.take().unwrap(), r.pending_put.take().unwrap())
        };
        let res = if ok { Some(self.inner.put_opts(&p.0, p.1, PutOptions::default()).await.unwrap()) } else { None };
        let _ = tx.send(res);
    }
    pub async fn fire_complete(&self, ok: bool) {
        let (tx, p) = {
            let mut r = self.rec.lock().unwrap();
            (r.complete_gate.take().unwrap(), r.pending_complete.take().unwrap())
        };
        let res = if ok { Some(self.commit_parts(&p).await.unwrap()) } else { None };
        let _ = tx.send(res);
    }
    pub fn part_done(&self, i: usize) -> bool {
        self.rec.lock().unwrap().calls[i].done
    }
    pub fn call_sizes(&self) -> Vec<u64> {
        self.rec.lock().unwrap().calls.iter().map(|c| c.len).collect()
    }
}

#[derive(Debug)]
struct RecUpload {
    path: Path,
    store: RecStore,
}

#[async_trait]
impl MultipartUpload for RecUpload {
    fn put_part(&mut self, payload: PutPayload) -> UploadPart {
        let data: Bytes = payload.into();
        let rec = self.store.rec.clone();
        let mut r = rec.lock().unwrap();
        if r.closed {
            r.use_after_close = true;
        }
        let idx = r.calls.len();
        let len = data.len() as u64;
        let mut pattern_off = None;
        let kept = match &r.discard {
            Some(p) => {
                // the payload must be the pattern stream at the running offset (fault-free big writes)
                if p.matches(r.discard_expect_off, &data) {
                    pattern_off = Some(r.discard_expect_off);
                }
                r.discard_expect_off += len;
                None
            }
            None => Some(data),
        };
        if r.gated {
            let (tx, rx) = oneshot::channel();
            r.calls.push(CallRec { len, data: kept, slot: Slot::Pending, gate: Some(tx), done: false, pattern_off });
            drop(r);
            let rec2 = rec.clone();
            Box::pin(async move {
                let o = rx.await;
                rec2.lock().unwrap().calls[idx].done = true;
                match o {
                    Ok(0) => Ok(()),
                    Ok(k) => Err(part_error(k)),
                    Err(_) => Err(generic("gate dropped")),
                }
            })
        } else {
            let o = r.plan.part.get(&idx).copied().unwrap_or(0);
            let delay = r.plan.delay_ms.get(&idx).copied().unwrap_or(0);
            // the outcome is known now, but the slot is only settled when the upload resolves
            r.calls.push(CallRec { len, data: kept, slot: Slot::Pending, gate: None, done: false, pattern_off });
            drop(r);
            let rec2 = rec.clone();
            Box::pin(async move {
                if delay > 0 {
                    tokio::time::sleep(std::time::Duration::from_millis(delay)).await;
                }
                let mut r = rec2.lock().unwrap();
                r.calls[idx].done = true;
                r.calls[idx].slot = if o == 0 { Slot::Stored } else { Slot::Failed };
                if o == 0 {
                    Ok(())
                } else {
                    Err(part_error(o))
                }
            })
        }
    }

    async fn complete(&mut self) -> OSResult<PutResult> {
        let (rx, fail) = {
            let mut r = self.store.rec.lock().unwrap();
            r.n_complete += 1;
            if r.closed {
                r.use_after_close = true;
            }
            if r.calls.iter().any(|c| c.slot == Slot::Pending) {
                r.complete_with_pending = true;
            }
            if r.gated {
                let (tx, rx) = oneshot::channel();
                r.complete_gate = Some(tx);
                r.pending_complete = Some(self.path.clone());
                (Some(rx), false)
            } else {
                (None, r.plan.fail_complete)
            }
        };
        if let Some(rx) = rx {
            return match rx.await {
                Ok(Some(res)) => Ok(res),
                _ => Err(generic("injected complete failure")),
            };
        }
        if fail {
            return Err(generic("injected complete failure"));
        }
        self.store.commit_parts(&self.path).await
    }

    async fn abort(&mut self) -> OSResult<()> {
        let mut r = self.store.rec.lock().unwrap();
        r.n_abort += 1;
        if r.closed {
            r.use_after_close = true;
        }
        if r.plan.fail_abort {
            return Err(generic("injected abort failure"));
        }
        r.closed = true;
        for c in r.calls.iter_mut() {
            c.data = None;
        }
        Ok(())
    }
}

#[async_trait]
impl ObjectStore for RecStore {
    async fn put_opts(&self, location: &Path, payload: PutPayload, opts: PutOptions) -> OSResult<PutResult> {
        let (rx, fail) = {
            let mut r = self.rec.lock().unwrap();
            r.puts.push(payload.content_length() as u64);
            if r.gated {
                let (tx, rx) = oneshot::channel();
                r.put_gate = Some(tx);
                r.pending_put = Some((location.clone(), payload.clone()));
                (Some(rx), false)
            } else {
                (None, r.plan.fail_put)
            }
        };
        if let Some(rx) = rx {
            return match rx.await {
                Ok(Some(res)) => Ok(res),
                _ => Err(generic("injected put failure")),
            };
        }
        if fail {
            return Err(generic("injected put failure"));
        }
        self.inner.put_opts(location, payload, opts).await
    }
    async fn put_multipart_opts(&self, location: &Path, _opts: PutMultipartOptions) -> OSResult<Box<dyn MultipartUpload>> {
        let (rx, fail) = {
            let mut r = self.rec.lock().unwrap();
            r.n_create += 1;
            if r.gated {
                let (tx, rx) = oneshot::channel();
                r.create_gate = Some(tx);
                (Some(rx), false)
            } else {
                (None, r.plan.fail_create)
            }
        };
        let ok = match rx {
            Some(rx) => rx.await.unwrap_or(false),
            None => !fail,
        };
        if !ok {
            return Err(generic("injected create failure"));
        }
        Ok(Box::new(RecUpload { path: location.clone(), store: self.clone() }))
    }
    async fn get_opts(&self, location: &Path, options: GetOptions) -> OSResult<GetResult> {
        self.inner.get_opts(location, options).await
    }
    async fn delete(&self, location: &Path) -> OSResult<()> {
        self.inner.delete(location).await
    }
    fn list(&self, prefix: Option<&Path>) -> BoxStream<'static, OSResult<ObjectMeta>> {
        self.inner.list(prefix)
    }
    async fn list_with_delimiter(&self, prefix: Option<&Path>) -> OSResult<ListResult> {
        self.inner.list_with_delimiter(prefix).await
    }
    async fn copy(&self, from: &Path, to: &Path) -> OSResult<()> {
        self.inner.copy(from, to).await
    }
    async fn copy_if_not_exists(&self, from: &Path, to: &Path) -> OSResult<()> {
        self.inner.copy_if_not_exists(from, to).await
    }
}
