//! hx_c31: C31 "object writes persist exactly the bytes written".
//!   c31   default process constants (initial upload size 5 MiB, 10 uploads in flight, 20 reset retries)
//!   c31p  LANCE_INITIAL_UPLOAD_SIZE > 5 MiB (seed dependent), LANCE_UPLOAD_CONCURRENCY=2, LANCE_CONN_RESET_RETRIES=1
//! The three constants are read once per process (OnceLock), hence two runs.
mod e2e;
mod mutant;
mod sched;
mod store;

use hxlib::util::{Args, Rng, Sink, Stream};
use serde_json::json;
use std::sync::Arc;

/// what the drivers need of a writer: the real `ObjectWriter`, or the sanity-test copy `MutWriter`
#[async_trait::async_trait]
pub trait WLike: tokio::io::AsyncWrite + Unpin + Send + Sized + 'static {
    async fn new_(store: &lance_io::object_store::ObjectStore, path: &object_store::path::Path) -> Self;
    async fn tell_(&mut self) -> usize;
    async fn shutdown_(&mut self) -> lance_core::Result<lance_io::object_writer::WriteResult>;
    async fn abort_(&mut self);
}
#[async_trait::async_trait]
impl WLike for lance_io::object_writer::ObjectWriter {
    async fn new_(store: &lance_io::object_store::ObjectStore, path: &object_store::path::Path) -> Self {
        store.create(path).await.unwrap() // ObjectStore::create == ObjectWriter::new
    }
    async fn tell_(&mut self) -> usize {
        lance_io::traits::Writer::tell(self).await.unwrap()
    }
    async fn shutdown_(&mut self) -> lance_core::Result<lance_io::object_writer::WriteResult> {
        self.shutdown().await
    }
    async fn abort_(&mut self) {
        self.abort().await
    }
}
#[async_trait::async_trait]
impl WLike for mutant::MutWriter {
    async fn new_(store: &lance_io::object_store::ObjectStore, path: &object_store::path::Path) -> Self {
        mutant::MutWriter::new(store, path).await.unwrap()
    }
    async fn tell_(&mut self) -> usize {
        lance_io::traits::Writer::tell(self).await.unwrap()
    }
    async fn shutdown_(&mut self) -> lance_core::Result<lance_io::object_writer::WriteResult> {
        self.shutdown().await
    }
    async fn abort_(&mut self) {
        self.abort().await
    }
}

pub const MIB: u64 = 1024 * 1024;
pub const STEP: u64 = 5 * MIB;
pub const REQ: &str = "Common.Base Io.Model_ObjectWriter";

#[derive(Clone, Copy, Debug)]
pub struct Cfg {
    pub init: u64,
    pub step: u64,
    pub maxpar: u64,
    pub maxretry: u64,
}
impl Cfg {
    pub fn coq(&self, constant: bool) -> String {
        format!("({}, {}, {}, {}, {})", self.init, self.step, self.maxpar, self.maxretry, if constant { "true" } else { "false" })
    }
}

/// The byte stream every scenario writes: position p carries block[(phase + p) mod L], L = 2^20 + 7, so
/// slices can be produced and compared with memcpy/memcmp and a misplaced part does not match.
pub struct Pattern {
    block: Vec<u8>,
    phase: u64,
}
impl Pattern {
    pub fn new(seed: u64) -> Self {
        let mut r = Rng::new(seed ^ 0xC31C31);
        let l = (MIB + 7) as usize;
        let mut block = Vec::with_capacity(l + 8);
        while block.len() < l {
            block.extend_from_slice(&r.next().to_le_bytes());
        }
        block.truncate(l);
        Pattern { block, phase: r.below(l as u64) }
    }
    pub fn fill(&self, off: u64, n: usize) -> Vec<u8> {
        let l = self.block.len();
        let mut v = Vec::with_capacity(n);
        let mut p = ((self.phase + off) % l as u64) as usize;
        while v.len() < n {
            let take = (n - v.len()).min(l - p);
            v.extend_from_slice(&self.block[p..p + take]);
            p = (p + take) % l;
        }
        v
    }
    pub fn matches(&self, off: u64, data: &[u8]) -> bool {
        let l = self.block.len();
        let mut p = ((self.phase + off) % l as u64) as usize;
        let mut i = 0;
        while i < data.len() {
            let take = (data.len() - i).min(l - p);
            if data[i..i + take] != self.block[p..p + take] {
                return false;
            }
            i += take;
            p = (p + take) % l;
        }
        true
    }
}

fn main() {
    let (sub, args) = Args::parse();
    let cfg = match sub.as_str() {
        "c31" => Cfg { init: STEP, step: STEP, maxpar: 10, maxretry: 20 },
        "c31p" => {
            let deltas = [1u64, 4096, MIB + 3, 2 * MIB, 7, 3 * MIB + 1];
            let init = STEP + deltas[(args.seed % deltas.len() as u64) as usize];
            std::env::set_var("LANCE_INITIAL_UPLOAD_SIZE", init.to_string());
            std::env::set_var("LANCE_UPLOAD_CONCURRENCY", "2");
            std::env::set_var("LANCE_CONN_RESET_RETRIES", "1");
            Cfg { init, step: STEP, maxpar: 2, maxretry: 1 }
        }
        _ => {
            eprintln!("unknown subcommand {sub}");
            std::process::exit(2);
        }
    };
    if sub == "c31" {
        for k in ["LANCE_INITIAL_UPLOAD_SIZE", "LANCE_UPLOAD_CONCURRENCY", "LANCE_CONN_RESET_RETRIES"] {
            std::env::remove_var(k);
        }
    }
    std::process::exit(run(&args, cfg, &sub));
}

fn run(args: &Args, cfg: Cfg, sub: &str) -> i32 {
    let mut sink = Sink::new("C31", &args.out);
    let mut rng = Rng::new(args.seed ^ if sub == "c31" { 0 } else { 0x5151 });
    let pat = Arc::new(Pattern::new(args.seed));
    sink.notes.push(format!(
        "{sub}: initial_upload_size={} step={} max_upload_parallelism={} max_conn_reset_retries={}",
        cfg.init, cfg.step, cfg.maxpar, cfg.maxretry
    ));

    // ---------------- scheduled arm
    let specs = sched::gen_specs(args, cfg, &mut rng);
    let outcomes = sched::run_all(cfg, pat.clone(), specs);
    let mut s = Stream::new("trace", REQ, "chk_trace", "cfg_code * list ev_code", "list obs");
    s.shard = 75;
    for o in outcomes {
        for k in &o.kinds {
            sink.count(k);
        }
        sink.oracle_checked += o.checks;
        for (class, what) in &o.failures {
            sink.oracle_fail(class.as_deref(), what, o.human.clone());
        }
        let evs = o.events.iter().map(|(a, b, c)| format!("({}, {}, {})", a, b, c)).collect::<Vec<_>>().join("; ");
        let input = format!("({}, [{}])", cfg.coq(o.spec.constant), evs);
        let output = format!("[{}]", o.obs.iter().map(|x| x.coq()).collect::<Vec<_>>().join("; "));
        sink.nontrivial(&input);
        s.push(input, output, o.human.clone());
    }
    sink.add(s);

    // ---------------- end-to-end arm
    if mutant::mutant() != 0 {
        sink.notes.push(format!("SANITY TEST: planted breakage {} in a copy of object_writer.rs is being checked, not the real code", mutant::mutant()));
        e2e::run::<mutant::MutWriter>(args, cfg, pat, &mut rng, &mut sink);
    } else {
        e2e::run::<lance_io::object_writer::ObjectWriter>(args, cfg, pat, &mut rng, &mut sink);
    }

    if mutant::mutant() == 0 {
        sink.notes.push(sched::probe_shutdown_after_error(cfg, Arc::new(Pattern::new(args.seed))));
    }
    let fails = sink.oracle_fail.len();
    sink.notes.push(format!("{sub}: oracle failures {fails}"));
    let _ = json!({});
    sink.finish();
    0
}
