//! SANITY-TEST ONLY.  A verbatim copy of /repo/rust/lance-io/src/object_writer.rs (struct renamed
//! `MutWriter`) with planted breakages that are switched on by the environment variable C31_MUTANT=<k>.
//! It is used instead of the real `ObjectWriter` ONLY when that variable is set (to show that the check
//! detects breakage without touching /repo); a normal run never executes this file.
//!   1 cursor counts the offered instead of the copied bytes      2 capacity grows every 10 parts, not 100
//!   3 the final (short) part is not flushed at shutdown           4 in-flight bound `<` -> `<=`
//!   5 complete without waiting for the uploads                     6 Drop does not abort
//!   7 the part that is uploaded is cut AFTER the buffer was replaced (empty payload)
//!   9 none (copy behaves like the original)
#![allow(dead_code)]
pub fn mutant() -> u32 {
    static M: std::sync::OnceLock<u32> = std::sync::OnceLock::new();
    *M.get_or_init(|| std::env::var("C31_MUTANT").ok().and_then(|s| s.parse().ok()).unwrap_or(0))
}

use std::io;
use std::pin::Pin;
use std::sync::{Arc, OnceLock};
use std::task::Poll;

use lance_io::object_store::ObjectStore as LanceObjectStore;
pub use lance_io::object_writer::WriteResult;
use async_trait::async_trait;
use bytes::Bytes;
use futures::future::BoxFuture;
use futures::FutureExt;
use object_store::MultipartUpload;
use object_store::{path::Path, Error as OSError, ObjectStore, Result as OSResult};
use rand::Rng;
use tokio::io::{AsyncWrite, AsyncWriteExt};
use tokio::task::JoinSet;

use lance_core::{Error, Result};
use tracing::Instrument;

use lance_io::traits::Writer;
use snafu::location;
use tokio::runtime::Handle;

/// Start at 5MB.
const INITIAL_UPLOAD_STEP: usize = 1024 * 1024 * 5;

fn max_upload_parallelism() -> usize {
    static MAX_UPLOAD_PARALLELISM: OnceLock<usize> = OnceLock::new();
    *MAX_UPLOAD_PARALLELISM.get_or_init(|| {
        std::env::var("LANCE_UPLOAD_CONCURRENCY")
            .ok()
            .and_then(|s| s.parse::<usize>().ok())
            .unwrap_or(10)
    })
}

fn max_conn_reset_retries() -> u16 {
    static MAX_CONN_RESET_RETRIES: OnceLock<u16> = OnceLock::new();
    *MAX_CONN_RESET_RETRIES.get_or_init(|| {
        std::env::var("LANCE_CONN_RESET_RETRIES")
            .ok()
            .and_then(|s| s.parse::<u16>().ok())
            .unwrap_or(20)
    })
}

fn initial_upload_size() -> usize {
    static LANCE_INITIAL_UPLOAD_SIZE: OnceLock<usize> = OnceLock::new();
    *LANCE_INITIAL_UPLOAD_SIZE.get_or_init(|| {
        std::env::var("LANCE_INITIAL_UPLOAD_SIZE")
            .ok()
            .and_then(|s| s.parse::<usize>().ok())
            .inspect(|size| {
                if *size < INITIAL_UPLOAD_STEP {
                    // Minimum part size in GCS and S3
                    panic!("LANCE_INITIAL_UPLOAD_SIZE must be at least 5MB");
                } else if *size > 1024 * 1024 * 1024 * 5 {
                    // Maximum part size in GCS and S3
                    panic!("LANCE_INITIAL_UPLOAD_SIZE must be at most 5GB");
                }
            })
            .unwrap_or(INITIAL_UPLOAD_STEP)
    })
}

/// Writer to an object in an object store.
///
/// If the object is small enough, the writer will upload the object in a single
/// PUT request. If the object is larger, the writer will create a multipart
/// upload and upload parts in parallel.
///
/// This implements the `AsyncWrite` trait.
pub struct MutWriter {
    state: UploadState,
    path: Arc<Path>,
    cursor: usize,
    connection_resets: u16,
    buffer: Vec<u8>,
    // TODO: use constant size to support R2
    use_constant_size_upload_parts: bool,
}

enum UploadState {
    /// The writer has been opened but no data has been written yet. Will be in
    /// this state until the buffer is full or the writer is shut down.
    Started(Arc<dyn ObjectStore>),
    /// The writer is in the process of creating a multipart upload.
    CreatingUpload(BoxFuture<'static, OSResult<Box<dyn MultipartUpload>>>),
    /// The writer is in the process of uploading parts.
    InProgress {
        part_idx: u16,
        upload: Box<dyn MultipartUpload>,
        futures: JoinSet<std::result::Result<(), UploadPutError>>,
    },
    /// The writer is in the process of uploading data in a single PUT request.
    /// This happens when shutdown is called before the buffer is full.
    PuttingSingle(BoxFuture<'static, OSResult<WriteResult>>),
    /// The writer is in the process of completing the multipart upload.
    Completing(BoxFuture<'static, OSResult<WriteResult>>),
    /// The writer has been shut down and all data has been written.
    Done(WriteResult),
}

/// Methods for state transitions.
impl UploadState {
    fn started_to_putting_single(&mut self, path: Arc<Path>, buffer: Vec<u8>) {
        // To get owned self, we temporarily swap with Done.
        let this = std::mem::replace(self, Self::Done(WriteResult::default()));
        *self = match this {
            Self::Started(store) => {
                let fut = async move {
                    let size = buffer.len();
                    let res = store.put(&path, buffer.into()).await?;
                    Ok(WriteResult {
                        size,
                        e_tag: res.e_tag,
                    })
                };
                Self::PuttingSingle(Box::pin(fut))
            }
            _ => unreachable!(),
        }
    }

    fn in_progress_to_completing(&mut self) {
        // To get owned self, we temporarily swap with Done.
        let this = std::mem::replace(self, Self::Done(WriteResult::default()));
        *self = match this {
            Self::InProgress {
                mut upload,
                futures,
                ..
            } => {
                debug_assert!(futures.is_empty() || mutant() == 5);
                let fut = async move {
                    let res = upload.complete().await?;
                    Ok(WriteResult {
                        size: 0, // This will be set properly later.
                        e_tag: res.e_tag,
                    })
                };
                Self::Completing(Box::pin(fut))
            }
            _ => unreachable!(),
        };
    }
}

impl MutWriter {
    pub async fn new(object_store: &LanceObjectStore, path: &Path) -> Result<Self> {
        Ok(Self {
            state: UploadState::Started(object_store.inner.clone()),
            cursor: 0,
            path: Arc::new(path.clone()),
            connection_resets: 0,
            buffer: Vec::with_capacity(initial_upload_size()),
            use_constant_size_upload_parts: object_store.use_constant_size_upload_parts,
        })
    }

    /// Returns the contents of `buffer` as a `Bytes` object and resets `buffer`.
    /// The new capacity of `buffer` is determined by the current part index.
    fn next_part_buffer(buffer: &mut Vec<u8>, part_idx: u16, constant_upload_size: bool) -> Bytes {
        let new_capacity = if constant_upload_size {
            // The store does not support variable part sizes, so use the initial size.
            initial_upload_size()
        } else {
            // Increase the upload size every 100 parts. This gives maximum part size of 2.5TB.
            initial_upload_size().max(((part_idx / if mutant() == 2 { 10 } else { 100 }) as usize + 1) * INITIAL_UPLOAD_STEP)
        };
        let new_buffer = Vec::with_capacity(new_capacity);
        let part = std::mem::replace(buffer, new_buffer);
        if mutant() == 7 && part_idx > 0 {
            return Bytes::from(std::mem::take(buffer));
        }
        Bytes::from(part)
    }

    fn put_part(
        upload: &mut dyn MultipartUpload,
        buffer: Bytes,
        part_idx: u16,
        sleep: Option<std::time::Duration>,
    ) -> BoxFuture<'static, std::result::Result<(), UploadPutError>> {
        log::debug!(
            "MultipartUpload submitting part with {} bytes",
            buffer.len()
        );
        let fut = upload.put_part(buffer.clone().into());
        Box::pin(async move {
            if let Some(sleep) = sleep {
                tokio::time::sleep(sleep).await;
            }
            fut.await.map_err(|source| UploadPutError {
                part_idx,
                buffer,
                source,
            })?;
            Ok(())
        })
    }

    fn poll_tasks(
        mut self: Pin<&mut Self>,
        cx: &mut std::task::Context<'_>,
    ) -> std::result::Result<(), io::Error> {
        let mut_self = &mut *self;
        loop {
            match &mut mut_self.state {
                UploadState::Started(_) | UploadState::Done(_) => break,
                UploadState::CreatingUpload(ref mut fut) => match fut.poll_unpin(cx) {
                    Poll::Ready(Ok(mut upload)) => {
                        let mut futures = JoinSet::new();

                        let data = Self::next_part_buffer(
                            &mut mut_self.buffer,
                            0,
                            mut_self.use_constant_size_upload_parts,
                        );
                        futures.spawn(Self::put_part(upload.as_mut(), data, 0, None));

                        mut_self.state = UploadState::InProgress {
                            part_idx: 1, // We just used 0
                            futures,
                            upload,
                        };
                    }
                    Poll::Ready(Err(e)) => return Err(std::io::Error::other(e)),
                    Poll::Pending => break,
                },
                UploadState::InProgress {
                    upload, futures, ..
                } => {
                    while let Poll::Ready(Some(res)) = futures.poll_join_next(cx) {
                        match res {
                            Ok(Ok(())) => {}
                            Err(err) => return Err(std::io::Error::other(err)),
                            Ok(Err(UploadPutError {
                                source: OSError::Generic { source, .. },
                                part_idx,
                                buffer,
                            })) if source
                                .to_string()
                                .to_lowercase()
                                .contains("connection reset by peer") =>
                            {
                                if mut_self.connection_resets < max_conn_reset_retries() {
                                    // Retry, but only up to max_conn_reset_retries of them.
                                    mut_self.connection_resets += 1;

                                    // Resubmit with random jitter
                                    let sleep_time_ms = rand::rng().random_range(2_000..8_000);
                                    let sleep_time =
                                        std::time::Duration::from_millis(sleep_time_ms);

                                    futures.spawn(Self::put_part(
                                        upload.as_mut(),
                                        buffer,
                                        part_idx,
                                        Some(sleep_time),
                                    ));
                                } else {
                                    return Err(io::Error::new(
                                        io::ErrorKind::ConnectionReset,
                                        Box::new(ConnectionResetError {
                                            message: format!(
                                                "Hit max retries ({}) for connection reset",
                                                max_conn_reset_retries()
                                            ),
                                            source,
                                        }),
                                    ));
                                }
                            }
                            Ok(Err(err)) => return Err(err.source.into()),
                        }
                    }
                    break;
                }
                UploadState::PuttingSingle(ref mut fut) | UploadState::Completing(ref mut fut) => {
                    match fut.poll_unpin(cx) {
                        Poll::Ready(Ok(mut res)) => {
                            res.size = mut_self.cursor;
                            mut_self.state = UploadState::Done(res)
                        }
                        Poll::Ready(Err(e)) => return Err(std::io::Error::other(e)),
                        Poll::Pending => break,
                    }
                }
            }
        }
        Ok(())
    }

    pub async fn shutdown(&mut self) -> Result<WriteResult> {
        AsyncWriteExt::shutdown(self).await.map_err(|e| {
            Error::io(
                format!("failed to shutdown object writer for {}: {}", self.path, e),
                // and wrap it in here.
                location!(),
            )
        })?;
        if let UploadState::Done(result) = &self.state {
            Ok(result.clone())
        } else {
            unreachable!()
        }
    }

    pub async fn abort(&mut self) {
        let state = std::mem::replace(&mut self.state, UploadState::Done(WriteResult::default()));
        if let UploadState::InProgress { mut upload, .. } = state {
            let _ = upload.abort().await;
        }
    }
}

impl Drop for MutWriter {
    fn drop(&mut self) {
        // If there is a multipart upload started but not finished, we should abort it.
        if mutant() != 6 && matches!(self.state, UploadState::InProgress { .. }) {
            // Take ownership of the state.
            let state =
                std::mem::replace(&mut self.state, UploadState::Done(WriteResult::default()));
            if let UploadState::InProgress { mut upload, .. } = state {
                if let Ok(handle) = Handle::try_current() {
                    handle.spawn(async move {
                        let _ = upload.abort().await;
                    });
                }
            }
        }
    }
}

/// Returned error from trying to upload a part.
/// Has the part_idx and buffer so we can pass
/// them to the retry logic.
struct UploadPutError {
    part_idx: u16,
    buffer: Bytes,
    source: OSError,
}

#[derive(Debug)]
struct ConnectionResetError {
    message: String,
    source: Box<dyn std::error::Error + Send + Sync>,
}

impl std::error::Error for ConnectionResetError {}

impl std::fmt::Display for ConnectionResetError {
    fn fmt(&self, f: &mut std::fmt::Formatter<'_>) -> std::fmt::Result {
        write!(f, "{}: {}", self.message, self.source)
    }
}

impl AsyncWrite for MutWriter {
    fn poll_write(
        mut self: std::pin::Pin<&mut Self>,
        cx: &mut std::task::Context<'_>,
        buf: &[u8],
    ) -> std::task::Poll<std::result::Result<usize, std::io::Error>> {
        self.as_mut().poll_tasks(cx)?;

        // Fill buffer up to remaining capacity.
        let remaining_capacity = self.buffer.capacity() - self.buffer.len();
        let bytes_to_write = std::cmp::min(remaining_capacity, buf.len());
        self.buffer.extend_from_slice(&buf[..bytes_to_write]);
        self.cursor += if mutant() == 1 { buf.len() } else { bytes_to_write };

        // Rust needs a little help to borrow self mutably and immutably at the same time
        // through a Pin.
        let mut_self = &mut *self;

        // Instantiate next request, if available.
        if mut_self.buffer.capacity() == mut_self.buffer.len() {
            match &mut mut_self.state {
                UploadState::Started(store) => {
                    let path = mut_self.path.clone();
                    let store = store.clone();
                    let fut = Box::pin(async move { store.put_multipart(path.as_ref()).await });
                    self.state = UploadState::CreatingUpload(fut);
                }
                UploadState::InProgress {
                    upload,
                    part_idx,
                    futures,
                    ..
                } => {
                    // TODO: Make max concurrency configurable from storage options.
                    if futures.len() < max_upload_parallelism() + (mutant() == 4) as usize {
                        let data = Self::next_part_buffer(
                            &mut mut_self.buffer,
                            *part_idx,
                            mut_self.use_constant_size_upload_parts,
                        );
                        futures.spawn(
                            Self::put_part(upload.as_mut(), data, *part_idx, None)
                                .instrument(tracing::Span::current()),
                        );
                        *part_idx += 1;
                    }
                }
                _ => {}
            }
        }

        self.poll_tasks(cx)?;

        match bytes_to_write {
            0 => Poll::Pending,
            _ => Poll::Ready(Ok(bytes_to_write)),
        }
    }

    fn poll_flush(
        mut self: std::pin::Pin<&mut Self>,
        cx: &mut std::task::Context<'_>,
    ) -> std::task::Poll<std::result::Result<(), std::io::Error>> {
        self.as_mut().poll_tasks(cx)?;

        match &self.state {
            UploadState::Started(_) | UploadState::Done(_) => Poll::Ready(Ok(())),
            UploadState::CreatingUpload(_)
            | UploadState::Completing(_)
            | UploadState::PuttingSingle(_) => Poll::Pending,
            UploadState::InProgress { futures, .. } => {
                if futures.is_empty() {
                    Poll::Ready(Ok(()))
                } else {
                    Poll::Pending
                }
            }
        }
    }

    fn poll_shutdown(
        mut self: std::pin::Pin<&mut Self>,
        cx: &mut std::task::Context<'_>,
    ) -> std::task::Poll<std::result::Result<(), std::io::Error>> {
        loop {
            self.as_mut().poll_tasks(cx)?;

            // Rust needs a little help to borrow self mutably and immutably at the same time
            // through a Pin.
            let mut_self = &mut *self;
            match &mut mut_self.state {
                UploadState::Done(_) => return Poll::Ready(Ok(())),
                UploadState::CreatingUpload(_)
                | UploadState::PuttingSingle(_)
                | UploadState::Completing(_) => return Poll::Pending,
                UploadState::Started(_) => {
                    // If we didn't start a multipart upload, we can just do a single put.
                    let part = std::mem::take(&mut mut_self.buffer);
                    let path = mut_self.path.clone();
                    self.state.started_to_putting_single(path, part);
                }
                UploadState::InProgress {
                    upload,
                    futures,
                    part_idx,
                } => {
                    // Flush final batch
                    if mutant() != 3 && !mut_self.buffer.is_empty() && futures.len() < max_upload_parallelism() {
                        // We can just use `take` since we don't need the buffer anymore.
                        let data = Bytes::from(std::mem::take(&mut mut_self.buffer));
                        futures.spawn(
                            Self::put_part(upload.as_mut(), data, *part_idx, None)
                                .instrument(tracing::Span::current()),
                        );
                        // We need to go back to beginning of loop to poll the
                        // new feature and get the waker registered on the ctx.
                        continue;
                    }

                    // We handle the transition from in progress to completing here.
                    if futures.is_empty() || mutant() == 5 {
                        self.state.in_progress_to_completing();
                    } else {
                        return Poll::Pending;
                    }
                }
            }
        }
    }
}

#[async_trait]
impl Writer for MutWriter {
    async fn tell(&mut self) -> Result<usize> {
        Ok(self.cursor)
    }
}

