//! Scheduled arm: the real `ObjectWriter` is polled by hand over the gated recording store; the harness
//! chooses every event (poll_write / poll_flush / poll_shutdown, resolution of each store future with an
//! outcome, abort, drop) and records what is observable after each one.  The trace is replayed by the
//! Coq model (`chk_trace`), and model-independent oracles check visibility and content.
use crate::store::RecStore;
use crate::{Cfg, Pattern};
use hxlib::util::Rng;
use crate::WLike;
use object_store::path::Path;
use object_store::ObjectStore;
use serde_json::{json, Value};
use std::pin::Pin;
use std::sync::Arc;
use std::task::{Context, Poll};

pub const KNOWN_RESET: &str = "Known_C31_conn_reset_retry";

#[derive(Clone, Debug)]
pub enum Fault {
    None,
    Create,
    Put,
    Complete,
    /// these put_part calls (by call index) fail with a non-retryable error
    PartOther(Vec<usize>),
    /// these put_part calls fail with "connection reset by peer"
    PartReset(Vec<usize>),
    /// abort()/drop after this many events; bool = the store's abort succeeds
    AbortAt(usize, bool),
    DropAt(usize, bool),
}

#[derive(Clone, Debug)]
pub struct Spec {
    pub chunks: Vec<usize>,
    /// probability (percent) that an open gate is resolved after a poll even when not needed
    pub eager_pct: u64,
    pub fault: Fault,
    pub constant: bool,
    pub zero_writes: bool,
    pub flushes: bool,
    pub seed: u64,
    pub label: String,
}

#[derive(Clone, Debug, PartialEq)]
pub struct Obs {
    pub rc: u64,
    pub rv: u64,
    pub cursor: u64,
    pub inflight: u64,
    pub calls: Vec<u64>,
    pub n_create: u64,
    pub n_complete: u64,
    pub n_abort: u64,
    pub put: Option<u64>,
    pub obj: Option<u64>,
}
impl Obs {
    pub fn coq(&self) -> String {
        let o = |x: &Option<u64>| match x {
            Some(v) => format!("Some {}", v),
            None => "None".to_string(),
        };
        format!(
            "({}, {}, {}, {}, [{}], ({}, {}, {}), {}, {})",
            self.rc,
            self.rv,
            self.cursor,
            self.inflight,
            self.calls.iter().map(|x| x.to_string()).collect::<Vec<_>>().join("; "),
            self.n_create,
            self.n_complete,
            self.n_abort,
            o(&self.put),
            o(&self.obj)
        )
    }
}

pub struct Outcome {
    pub spec: Spec,
    pub events: Vec<(u64, u64, u64)>,
    pub obs: Vec<Obs>,
    /// (known class, what)
    pub failures: Vec<(Option<String>, String)>,
    pub checks: u64,
    pub kinds: Vec<String>,
    pub human: Value,
}

#[derive(PartialEq, Clone, Copy)]
enum PollR {
    Ready(u64),
    Pending,
    Error,
    Panic,
}

struct Drv<W: WLike> {
    cfg: Cfg,
    spec: Spec,
    pat: Arc<Pattern>,
    store: RecStore,
    path: Path,
    writer: Option<W>,
    rng: Rng,
    accepted: u64,
    last_cursor: u64,
    closed: bool,
    poisoned: bool,
    committed: bool,
    shutdown_ready: bool,
    reset_injected: bool,
    // content bookkeeping of put_part calls
    seen_calls: usize,
    fresh_off: u64,
    reset_payloads: Vec<usize>,
    out: Outcome,
}

async fn settle() {
    for _ in 0..4 {
        tokio::task::yield_now().await;
    }
}

impl<W: WLike> Drv<W> {
    fn fail(&mut self, class: Option<&str>, what: String) {
        self.out.failures.push((class.map(|s| s.to_string()), what));
    }
    fn ok(&mut self) {
        self.out.checks += 1;
    }

    fn part_outcome(&self, i: usize) -> u8 {
        match &self.spec.fault {
            Fault::PartOther(v) if v.contains(&i) => 1,
            Fault::PartReset(v) if v.contains(&i) => 2,
            _ => 0,
        }
    }

    async fn observe(&mut self, ev: (u64, u64, u64), r: Option<PollR>) {
        settle().await;
        let cursor = match self.writer.as_mut() {
            Some(w) => w.tell_().await as u64,
            None => self.last_cursor,
        };
        self.last_cursor = cursor;
        let (rc, rv) = match r {
            Some(PollR::Ready(k)) => (0, k),
            Some(PollR::Pending) => (1, 0),
            Some(PollR::Error) => (2, 0),
            Some(PollR::Panic) => (3, 0),
            None => (5, 0),
        };
        let head = self.store.inner.head(&self.path).await;
        let obj = match &head {
            Ok(m) => Some(m.size),
            Err(object_store::Error::NotFound { .. }) => None,
            Err(e) => {
                self.fail(None, format!("head failed: {e}"));
                None
            }
        };
        // listing agrees with head, and nothing else is ever visible in the store
        use futures::TryStreamExt;
        let listed: Vec<_> = self.store.inner.list(None).try_collect().await.unwrap_or_default();
        let listed_ok = match obj {
            Some(sz) => listed.len() == 1 && listed[0].location == self.path && listed[0].size == sz,
            None => listed.is_empty(),
        };
        if !listed_ok {
            self.fail(None, format!("listing shows {:?} but head says {:?}", listed.iter().map(|m| (m.location.to_string(), m.size)).collect::<Vec<_>>(), obj));
        } else {
            self.ok();
        }
        // ORACLE (invisible before completion): the destination exists only after the harness let a put/complete succeed
        if obj.is_some() && !self.committed {
            self.fail(None, "object visible at the destination before the store completed a put/complete".into());
        } else {
            self.ok();
        }
        let (calls, n_create, n_complete, n_abort, put, inflight) = {
            let r = self.store.rec.lock().unwrap();
            (
                r.calls.iter().map(|c| c.len).collect::<Vec<_>>(),
                r.n_create,
                r.n_complete,
                r.n_abort,
                r.puts.first().copied(),
                r.calls.iter().filter(|c| c.gate.is_some()).count() as u64,
            )
        };
        if self.store.rec.lock().unwrap().puts.len() > 1 {
            self.fail(None, "more than one single-put call".into());
        }
        self.check_new_calls();
        let inflight = if self.closed { 0 } else { inflight };
        self.out.events.push(ev);
        self.out.obs.push(Obs { rc, rv, cursor, inflight, calls, n_create, n_complete, n_abort, put, obj });
    }

    /// ORACLE (content of parts): every put_part payload is the next slice of the accepted stream, or
    /// the payload of an earlier call that failed with a connection reset (a retry)
    fn check_new_calls(&mut self) {
        let n = self.store.rec.lock().unwrap().calls.len();
        while self.seen_calls < n {
            let i = self.seen_calls;
            let data = self.store.rec.lock().unwrap().calls[i].data.clone();
            if let Some(d) = data {
                if d.is_empty() {
                    self.fail(None, format!("put_part call {i} has an empty payload"));
                } else if self.pat.matches(self.fresh_off, &d) {
                    self.fresh_off += d.len() as u64;
                    self.ok();
                } else {
                    let is_retry = self.reset_payloads.iter().any(|&j| {
                        let r = self.store.rec.lock().unwrap();
                        r.calls[j].data.as_ref().map(|x| x == &d).unwrap_or(false)
                    });
                    if is_retry {
                        self.ok();
                    } else {
                        self.fail(None, format!("put_part call {i} ({} bytes) is neither the next slice of the written stream (offset {}) nor a retry", d.len(), self.fresh_off));
                    }
                }
            }
            self.seen_calls += 1;
        }
    }

    fn poll<T>(&mut self, f: impl FnOnce(Pin<&mut W>, &mut Context<'_>) -> Poll<std::io::Result<T>>, val: impl Fn(T) -> u64) -> PollR {
        let waker = futures::task::noop_waker();
        let mut cx = Context::from_waker(&waker);
        let w = self.writer.as_mut().unwrap();
        let r = hxlib::util::catch(|| f(Pin::new(w), &mut cx));
        match r {
            Err(_) => PollR::Panic,
            Ok(Poll::Pending) => PollR::Pending,
            Ok(Poll::Ready(Ok(v))) => PollR::Ready(val(v)),
            Ok(Poll::Ready(Err(_))) => PollR::Error,
        }
    }

    async fn ev_write(&mut self, n: usize) -> PollR {
        let data = self.pat.fill(self.accepted, n);
        let r = self.poll(|w, cx| w.poll_write(cx, &data), |k| k as u64);
        if let PollR::Ready(k) = r {
            if k as usize > n || k == 0 {
                self.fail(None, format!("poll_write returned Ready({k}) for a buffer of {n} bytes"));
            }
            self.accepted += k;
        }
        if r == PollR::Error || r == PollR::Panic {
            self.poisoned = true;
        }
        self.observe((0, n as u64, 0), Some(r)).await;
        // ORACLE: tell() counts exactly the accepted bytes (bytes taken by a poll that then reported an error are excluded from the comparison)
        if !self.poisoned {
            if self.last_cursor != self.accepted {
                self.fail(None, format!("tell() = {} but {} bytes were accepted", self.last_cursor, self.accepted));
            } else {
                self.ok();
            }
        }
        r
    }
    async fn ev_flush(&mut self) -> PollR {
        let r = self.poll(|w, cx| w.poll_flush(cx), |_| 0);
        if r == PollR::Error || r == PollR::Panic {
            self.poisoned = true;
        }
        self.observe((1, 0, 0), Some(r)).await;
        r
    }
    async fn ev_shutdown(&mut self) -> PollR {
        let r = self.poll(|w, cx| w.poll_shutdown(cx), |_| 0);
        if r == PollR::Error || r == PollR::Panic {
            self.poisoned = true;
        }
        if let PollR::Ready(_) = r {
            self.shutdown_ready = true;
        }
        self.observe((2, 0, 0), Some(r)).await;
        r
    }
    async fn ev_create(&mut self, ok: bool) {
        let tx = self.store.rec.lock().unwrap().create_gate.take().unwrap();
        let _ = tx.send(ok);
        self.observe((3, ok as u64, 0), None).await;
    }
    /// the store commits (or refuses) now; the writer learns the answer at its next poll
    async fn ev_put(&mut self, ok: bool) {
        self.store.fire_put(ok).await;
        if ok {
            self.committed = true;
        }
        self.observe((5, ok as u64, 0), None).await;
    }
    async fn ev_complete(&mut self, ok: bool) {
        self.store.fire_complete(ok).await;
        if ok {
            self.committed = true;
        }
        self.observe((6, ok as u64, 0), None).await;
    }
    async fn ev_finish(&mut self, i: usize, o: u8) {
        if o == 2 {
            self.reset_injected = true;
            self.reset_payloads.push(i);
        }
        self.store.fire_part(i, o);
        // a resubmitted upload sleeps 2..8 s before it looks at the store's answer
        let t0 = std::time::Instant::now();
        loop {
            settle().await;
            if self.store.part_done(i) || self.closed {
                break;
            }
            if t0.elapsed().as_secs() > 12 {
                self.fail(None, format!("the future of put_part call {i} did not resolve within 12 s"));
                break;
            }
            tokio::time::sleep(std::time::Duration::from_millis(25)).await;
        }
        self.observe((4, i as u64, o as u64), None).await;
    }
    async fn ev_abort(&mut self, ok: bool) {
        self.store.rec.lock().unwrap().plan.fail_abort = !ok;
        if let Some(w) = self.writer.as_mut() {
            w.abort_().await;
        }
        self.closed = true;
        self.observe((7, ok as u64, 0), None).await;
    }
    async fn ev_drop(&mut self, ok: bool) {
        self.store.rec.lock().unwrap().plan.fail_abort = !ok;
        drop(self.writer.take());
        self.closed = true;
        settle().await;
        self.observe((8, ok as u64, 0), None).await;
    }

    /// resolve one pending store future; false = nothing is pending
    async fn progress(&mut self) -> bool {
        let (cg, pg, cpg) = {
            let r = self.store.rec.lock().unwrap();
            (r.create_gate.is_some(), r.put_gate.is_some(), r.complete_gate.is_some())
        };
        if cg {
            let ok = !matches!(self.spec.fault, Fault::Create);
            self.ev_create(ok).await;
            return true;
        }
        if pg {
            let ok = !matches!(self.spec.fault, Fault::Put);
            self.ev_put(ok).await;
            return true;
        }
        if cpg {
            let ok = !matches!(self.spec.fault, Fault::Complete);
            self.ev_complete(ok).await;
            return true;
        }
        let open = self.store.open_gates();
        if open.is_empty() {
            return false;
        }
        let i = *self.rng.pick(&open);
        let o = self.part_outcome(i);
        self.ev_finish(i, o).await;
        true
    }

    /// with the scenario's eagerness, resolve some pending futures although nobody waits for them
    async fn maybe_progress(&mut self) {
        for _ in 0..3 {
            if self.rng.below(100) < self.spec.eager_pct {
                if !self.progress().await {
                    break;
                }
            }
        }
    }

    fn planned_close(&self) -> Option<(bool, bool)> {
        match self.spec.fault {
            Fault::AbortAt(n, ok) if self.out.events.len() >= n => Some((true, ok)),
            Fault::DropAt(n, ok) if self.out.events.len() >= n => Some((false, ok)),
            _ => None,
        }
    }

    async fn run(&mut self) {
        let chunks = self.spec.chunks.clone();
        'outer: for n in chunks {
            let mut rem = n;
            let mut idle_retry = false;
            if self.spec.zero_writes && self.rng.chance(1, 6) {
                // an empty buffer: poll_write reports Pending (and registers no waker unless uploads are in flight)
                let r = self.ev_write(0).await;
                if r == PollR::Error || r == PollR::Panic {
                    break 'outer;
                }
            }
            while rem > 0 {
                if self.planned_close().is_some() {
                    break 'outer;
                }
                match self.ev_write(rem).await {
                    PollR::Ready(k) => {
                        rem -= (k as usize).min(rem);
                        idle_retry = false;
                    }
                    PollR::Pending => {
                        // the buffer is full and cannot be cut: something must be in flight
                        if !idle_retry && self.rng.bool() && !self.store.open_gates().is_empty() {
                            idle_retry = true;
                        } else {
                            idle_retry = false;
                            if !self.progress().await {
                                // one more poll may cut the part (a result was waiting in the JoinSet)
                                match self.ev_write(rem).await {
                                    PollR::Ready(k) => rem -= (k as usize).min(rem),
                                    PollR::Pending => {
                                        self.fail(None, "poll_write is Pending for a non-empty buffer although nothing is in flight (the writer can never be woken)".into());
                                        break 'outer;
                                    }
                                    _ => break 'outer,
                                }
                            }
                        }
                    }
                    _ => break 'outer,
                }
                self.maybe_progress().await;
            }
            if self.spec.flushes && self.rng.chance(1, 4) {
                let r = self.ev_flush().await;
                if r == PollR::Error || r == PollR::Panic {
                    break 'outer;
                }
            }
        }
        if !self.poisoned && self.planned_close().is_none() {
            // shutdown, resolving the store's futures as they are needed
            let mut guard = 0;
            loop {
                guard += 1;
                if guard > 200 {
                    self.fail(None, "shutdown did not finish within 200 polls".into());
                    break;
                }
                if self.planned_close().is_some() {
                    break;
                }
                match self.ev_shutdown().await {
                    PollR::Ready(_) => break,
                    PollR::Pending => {
                        if !self.progress().await {
                            // results may be waiting in the JoinSet: poll once more before giving up
                            match self.ev_shutdown().await {
                                PollR::Ready(_) => break,
                                PollR::Pending => {
                                    if !self.progress().await {
                                        self.fail(None, "poll_shutdown is Pending although nothing is in flight".into());
                                        break;
                                    }
                                }
                                _ => break,
                            }
                        }
                    }
                    _ => break,
                }
                self.maybe_progress().await;
            }
        }
        // the inherent ObjectWriter::shutdown(): WriteResult.size
        if self.shutdown_ready && !self.poisoned {
            let res = self.writer.as_mut().unwrap().shutdown_().await;
            match res {
                Ok(wr) => {
                    if wr.size as u64 != self.accepted {
                        self.fail(None, format!("WriteResult.size = {} but {} bytes were written", wr.size, self.accepted));
                    } else {
                        self.ok();
                    }
                }
                Err(e) => self.fail(None, format!("shutdown() failed after poll_shutdown was Ready: {e}")),
            }
            self.observe((2, 0, 0), Some(PollR::Ready(0))).await;
        }
        // close
        match self.planned_close() {
            Some((true, ok)) => self.ev_abort(ok).await,
            Some((false, ok)) => self.ev_drop(ok).await,
            None => {
                if self.poisoned && self.rng.bool() {
                    self.ev_abort(true).await;
                } else {
                    self.ev_drop(true).await;
                }
            }
        }
        self.final_oracles().await;
    }

    async fn final_oracles(&mut self) {
        let (cwp, uac) = {
            let r = self.store.rec.lock().unwrap();
            (r.complete_with_pending, r.use_after_close)
        };
        if cwp {
            self.fail(None, "complete() was called while a part upload was still unresolved".into());
        } else {
            self.ok();
        }
        if uac {
            self.fail(None, "the upload was used after complete/abort".into());
        } else {
            self.ok();
        }
        let got = self.store.inner.get(&self.path).await;
        match got {
            Ok(g) => {
                let bytes = g.bytes().await.unwrap();
                if !self.committed {
                    self.fail(None, "an object exists although no put/complete succeeded".into());
                } else if self.shutdown_ready && !self.poisoned {
                    // ORACLE (bytes): after a successful shutdown the object is exactly the accepted stream
                    if bytes.len() as u64 == self.accepted && self.pat.matches(0, &bytes) {
                        self.ok();
                    } else {
                        let class = if self.reset_injected { Some(KNOWN_RESET) } else { None };
                        self.fail(class, format!("after a successful shutdown the object ({} bytes) is not the concatenation of the writes ({} bytes)", bytes.len(), self.accepted));
                    }
                } else {
                    self.ok();
                }
            }
            Err(object_store::Error::NotFound { .. }) => {
                if self.shutdown_ready && !self.poisoned {
                    self.fail(None, "shutdown succeeded but no object exists".into());
                } else {
                    // ORACLE (failure leaves nothing): failed / aborted / dropped write
                    self.ok();
                }
            }
            Err(e) => self.fail(None, format!("get failed: {e}")),
        }
        // a write that reported an error or was aborted/dropped before the store committed leaves no object
        if (self.poisoned || !self.shutdown_ready) && !self.committed {
            let h = self.store.inner.head(&self.path).await;
            if h.is_ok() {
                self.fail(None, "failed/aborted write left an object behind".into());
            } else {
                self.ok();
            }
        }
    }
}

/// run one scenario on its own current-thread runtime
pub fn run_scenario<W: WLike>(cfg: Cfg, pat: Arc<Pattern>, spec: Spec) -> Outcome {
    let rt = tokio::runtime::Builder::new_current_thread().enable_all().build().unwrap();
    rt.block_on(async move {
        let store = RecStore::new(true);
        let lstore = store.lance(spec.constant);
        let path = Path::from("dest/obj.bin");
        let writer = W::new_(&lstore, &path).await;
        let seed = spec.seed;
        let out = Outcome { spec: spec.clone(), events: vec![], obs: vec![], failures: vec![], checks: 0, kinds: vec![], human: Value::Null };
        let mut d: Drv<W> = Drv {
            cfg,
            spec,
            pat,
            store,
            path,
            writer: Some(writer),
            rng: Rng::new(seed),
            accepted: 0,
            last_cursor: 0,
            closed: false,
            poisoned: false,
            committed: false,
            shutdown_ready: false,
            reset_injected: false,
            seen_calls: 0,
            fresh_off: 0,
            reset_payloads: vec![],
            out,
        };
        d.run().await;
        let mut out = d.out;
        let total: usize = out.spec.chunks.iter().sum();
        let ncalls = out.obs.last().map(|o| o.calls.len()).unwrap_or(0);
        let mut kinds = vec![format!("sched:{}", out.spec.label)];
        kinds.push(if d.poisoned { "sched:end=error" } else if d.shutdown_ready { "sched:end=shutdown-ok" } else { "sched:end=closed-early" }.to_string());
        kinds.push(format!("sched:parts={}", ncalls.min(6)));
        if out.obs.iter().any(|o| o.rc == 1 && o.inflight >= d.cfg.maxpar) {
            kinds.push("sched:inflight-bound-hit".into());
        }
        out.kinds = kinds;
        out.human = json!({
            "label": out.spec.label, "total": total, "chunks": out.spec.chunks.len(), "fault": format!("{:?}", out.spec.fault),
            "eager_pct": out.spec.eager_pct, "events": out.events.len(), "part_calls": out.obs.last().map(|o| o.calls.clone()),
            "accepted": d.accepted, "object": out.obs.last().and_then(|o| o.obj), "seed": out.spec.seed,
            "cfg": [d.cfg.init, d.cfg.step, d.cfg.maxpar, d.cfg.maxretry],
        });
        out
    })
}

// ------------------------------------------------------------------------------------------------
// scenario generation
// ------------------------------------------------------------------------------------------------

fn totals(cfg: Cfg, rng: &mut Rng) -> u64 {
    let i = cfg.init;
    let top = 17 * crate::MIB;
    let fixed = [0, 1, 4096, i - 1, i, i + 1, 2 * i - 1, 2 * i, 2 * i + 1, 3 * i - 1, 3 * i, 3 * i + 1, top, 15 * crate::MIB - 1, 15 * crate::MIB + 1, 10 * crate::MIB];
    let t = if rng.chance(3, 5) { *rng.pick(&fixed) } else { rng.below(top + 1) };
    t.min(top)
}

fn chunking(cfg: Cfg, total: u64, rng: &mut Rng) -> (Vec<usize>, &'static str) {
    let i = cfg.init;
    let mut v = vec![];
    let mut rem = total;
    let style = rng.below(6);
    let name = match style {
        0 => {
            // one big buffer: poll_write takes only what fits
            if total > 0 {
                v.push(total as usize);
            }
            "one-buffer"
        }
        1 => {
            let sizes = [64 * 1024, crate::MIB, 2 * crate::MIB, 3 * crate::MIB + 1, i, i + 1, i - 1, 2 * i];
            let s = *rng.pick(&sizes);
            while rem > 0 {
                let k = s.min(rem);
                v.push(k as usize);
                rem -= k;
            }
            "equal"
        }
        2 => {
            while rem > 0 {
                let k = rng.range(1, 3 * crate::MIB).min(rem);
                v.push(k as usize);
                rem -= k;
            }
            "random"
        }
        3 => {
            // land exactly on every capacity boundary, then single bytes
            while rem > 0 {
                let k = (i - 3).min(rem);
                v.push(k as usize);
                rem -= k;
                for _ in 0..6 {
                    if rem > 0 {
                        v.push(1);
                        rem -= 1;
                    }
                }
            }
            "boundary-bytes"
        }
        4 => {
            // exactly the capacity per write
            while rem > 0 {
                let k = i.min(rem);
                v.push(k as usize);
                rem -= k;
            }
            "capacity-sized"
        }
        _ => {
            while rem > 0 {
                let k = if rng.bool() { rng.range(1, 300) } else { rng.range(crate::MIB, 6 * crate::MIB) }.min(rem);
                v.push(k as usize);
                rem -= k;
                if v.len() > 60 {
                    v.push(rem as usize);
                    rem = 0;
                }
            }
            "mixed"
        }
    };
    v.retain(|x| *x > 0);
    (v, name)
}

pub fn gen_specs(args: &hxlib::util::Args, cfg: Cfg, rng: &mut Rng) -> Vec<Spec> {
    let mut specs = vec![];
    let i = cfg.init;
    // connection-reset scenarios first (they sleep 2..8 s per retry inside the writer)
    let n_reset = args.vol(if cfg.maxretry > 1 { 6 } else { 4 }, 24);
    for k in 0..n_reset {
        let total = *rng.pick(&[2 * i + 5, 3 * i, 3 * i + 17, 17 * crate::MIB, 2 * i]);
        let (chunks, cname) = chunking(cfg, total, rng);
        // which calls get a reset; lazily resolved so that later parts are issued before the failure is seen
        let which = match k % 5 {
            0 => vec![0],
            1 => vec![1],
            2 => vec![0, 1],
            3 => vec![rng.below(3) as usize],
            _ => vec![rng.below(2) as usize, 2 + rng.below(2) as usize],
        };
        let eager = *rng.pick(&[0u64, 0, 30, 100]);
        specs.push(Spec { chunks, eager_pct: eager, fault: Fault::PartReset(which), constant: false, zero_writes: false, flushes: rng.bool(), seed: rng.next(), label: format!("reset/{cname}") });
    }
    let n = args.vol(110, 600);
    for _ in 0..n {
        let mut total = totals(cfg, rng);
        let f = rng.below(100);
        let fault = if f < 38 {
            Fault::None
        } else if f < 46 {
            total = total.max(i);
            Fault::Create
        } else if f < 53 {
            total = total.min(i - 1 - rng.below(3));
            Fault::Put
        } else if f < 62 {
            total = total.max(i + rng.below(2));
            Fault::Complete
        } else if f < 76 {
            total = total.max(i + rng.below(3));
            let mut v = vec![rng.below(4) as usize];
            if rng.chance(1, 4) {
                v.push(rng.below(4) as usize);
            }
            Fault::PartOther(v)
        } else if f < 88 {
            Fault::AbortAt(rng.below(40) as usize, rng.chance(3, 4))
        } else {
            Fault::DropAt(rng.below(40) as usize, rng.chance(3, 4))
        };
        let (chunks, cname) = chunking(cfg, total, rng);
        let fname = match &fault {
            Fault::None => "none",
            Fault::Create => "create-fails",
            Fault::Put => "put-fails",
            Fault::Complete => "complete-fails",
            Fault::PartOther(_) => "part-fails",
            Fault::PartReset(_) => "reset",
            Fault::AbortAt(..) => "abort",
            Fault::DropAt(..) => "drop",
        };
        specs.push(Spec {
            chunks,
            eager_pct: *rng.pick(&[0u64, 0, 30, 70, 100]),
            fault,
            constant: rng.chance(1, 8),
            zero_writes: rng.chance(1, 5),
            flushes: rng.chance(1, 3),
            seed: rng.next(),
            label: format!("{fname}/{cname}"),
        });
    }
    specs
}

/// scenarios run on a small pool of threads (each with its own current-thread runtime); results keep the
/// order of `specs`, every scenario draws from its own generator, so the run is reproducible
pub fn run_all(cfg: Cfg, pat: Arc<Pattern>, specs: Vec<Spec>) -> Vec<Outcome> {
    let n = specs.len();
    let next = std::sync::atomic::AtomicUsize::new(0);
    let results: Vec<std::sync::Mutex<Option<Outcome>>> = (0..n).map(|_| std::sync::Mutex::new(None)).collect();
    let threads = std::env::var("C31_THREADS").ok().and_then(|s| s.parse().ok()).unwrap_or(12usize);
    std::thread::scope(|sc| {
        for _ in 0..threads {
            sc.spawn(|| loop {
                let k = next.fetch_add(1, std::sync::atomic::Ordering::SeqCst);
                if k >= n {
                    break;
                }
                let o = if crate::mutant::mutant() != 0 {
                    run_scenario::<crate::mutant::MutWriter>(cfg, pat.clone(), specs[k].clone())
                } else {
                    run_scenario::<lance_io::object_writer::ObjectWriter>(cfg, pat.clone(), specs[k].clone())
                };
                *results[k].lock().unwrap() = Some(o);
            });
        }
    });
    results.into_iter().map(|m| m.into_inner().unwrap().unwrap()).collect()
}

/// OBSERVATION ONLY (outside the model's domain, not an oracle): what the real writer does when the caller
/// ignores an error returned by write_all and calls shutdown() anyway.  Part call #1 fails (not a reset).
pub fn probe_shutdown_after_error(cfg: Cfg, pat: Arc<Pattern>) -> String {
    use tokio::io::AsyncWriteExt;
    let rt = tokio::runtime::Builder::new_current_thread().enable_all().build().unwrap();
    rt.block_on(async move {
        let store = RecStore::new(false);
        store.rec.lock().unwrap().plan.part.insert(1, 1);
        let lstore = store.lance(false);
        let path = Path::from("probe/obj.bin");
        let mut w = lstore.create(&path).await.unwrap();
        let total = (3 * cfg.init + 11) as usize;
        let data = pat.fill(0, total);
        let r1 = w.write_all(&data).await.is_ok();
        let r2 = w.shutdown().await.map(|r| r.size);
        let head = store.inner.head(&path).await.ok().map(|m| m.size);
        format!(
            "observation (not part of the checked domain): part upload #1 fails; write_all ok={r1}; shutdown() called anyway -> {}; object at destination: {:?} of {} bytes offered; part calls {:?}",
            match &r2 {
                Ok(sz) => format!("Ok(size={sz})"),
                Err(_) => "Err".to_string(),
            },
            head,
            total,
            store.rec.lock().unwrap().calls.iter().map(|c| (c.len, c.slot)).collect::<Vec<_>>()
        )
    })
}
