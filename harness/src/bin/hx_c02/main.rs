//! C02: at most one writer wins each version slot; published manifests never change.
//! The real commit handlers of lance-table run over a *gated* object store: every store (and lock
//! service) call of every writer waits for a turn, and the controller hands out turns according
//! to an explicit event list (Run / Fail / Lost per writer), i.e. exactly the interleaving with
//! faults that the Gallina model `Store.Model_Handlers.run` is asked about.
use async_trait::async_trait;
use bytes::Bytes;
use futures::future::BoxFuture;
use futures::stream::BoxStream;
use futures::FutureExt;
use hxlib::util::{coq, Args, Rng, Sink, Stream};
use lance_io::object_store::ObjectStore as LanceStore;
use lance_io::object_writer::WriteResult;
use lance_table::format::{DataStorageFormat, IndexMetadata, Manifest, Transaction};
use lance_table::io::commit::{
    CommitError, CommitHandler, CommitLease, CommitLock, ConditionalPutCommitHandler, ManifestNamingScheme, RenameCommitHandler,
    UnsafeCommitHandler,
};
use object_store::memory::InMemory;
use object_store::path::Path;
use object_store::{
    GetOptions, GetResult, ListResult, MultipartUpload, ObjectMeta, ObjectStore, PutMultipartOptions, PutOptions, PutPayload, PutResult,
};
use serde_json::json;
use std::collections::HashMap;
use std::sync::{Arc, Mutex};
use tokio::sync::mpsc;

const REQ: &str = "Common.Base Store.Model_Handlers";

#[derive(Clone, Copy, Debug, PartialEq)]
enum Mode {
    Normal,
    Fail,
    Lost,
}

enum Msg {
    CallDone(u64),
    Finished(u64, u64), // tid, result code
}

/// hands out turns
impl std::fmt::Debug for Ctl {
    fn fmt(&self, f: &mut std::fmt::Formatter<'_>) -> std::fmt::Result {
        write!(f, "Ctl")
    }
}
struct Ctl {
    grants: Mutex<HashMap<u64, mpsc::UnboundedSender<Mode>>>,
    recv: Mutex<HashMap<u64, Arc<tokio::sync::Mutex<mpsc::UnboundedReceiver<Mode>>>>>,
    done: mpsc::UnboundedSender<Msg>,
}
impl Ctl {
    async fn turn(&self, tid: u64) -> Mode {
        let rx = self.recv.lock().unwrap().get(&tid).unwrap().clone();
        let mut rx = rx.lock().await;
        rx.recv().await.unwrap_or(Mode::Fail)
    }
    fn call_done(&self, tid: u64) {
        let _ = self.done.send(Msg::CallDone(tid));
    }
}

fn injected() -> object_store::Error {
    object_store::Error::Generic { store: "gated", source: "injected fault".into() }
}

struct Gated {
    inner: Arc<InMemory>,
    tid: u64,
    ctl: Arc<Ctl>,
}
impl std::fmt::Debug for Gated {
    fn fmt(&self, f: &mut std::fmt::Formatter<'_>) -> std::fmt::Result {
        write!(f, "Gated({})", self.tid)
    }
}
impl std::fmt::Display for Gated {
    fn fmt(&self, f: &mut std::fmt::Formatter<'_>) -> std::fmt::Result {
        write!(f, "Gated({})", self.tid)
    }
}

macro_rules! gated {
    ($self:ident, $call:expr) => {{
        let mode = $self.ctl.turn($self.tid).await;
        let r = match mode {
            Mode::Fail => Err(injected()),
            Mode::Normal => $call.await,
            Mode::Lost => {
                let _ = $call.await;
                Err(injected())
            }
        };
        $self.ctl.call_done($self.tid);
        r
    }};
}

#[async_trait]
impl ObjectStore for Gated {
    async fn put_opts(&self, location: &Path, payload: PutPayload, opts: PutOptions) -> object_store::Result<PutResult> {
        gated!(self, self.inner.put_opts(location, payload.clone(), opts.clone()))
    }
    async fn put_multipart_opts(&self, _location: &Path, _opts: PutMultipartOptions) -> object_store::Result<Box<dyn MultipartUpload>> {
        Err(object_store::Error::NotImplemented)
    }
    async fn get_opts(&self, location: &Path, options: GetOptions) -> object_store::Result<GetResult> {
        // `head` goes through get_opts with head=true
        gated!(self, self.inner.get_opts(location, options.clone()))
    }
    async fn delete(&self, location: &Path) -> object_store::Result<()> {
        gated!(self, self.inner.delete(location))
    }
    fn list(&self, prefix: Option<&Path>) -> BoxStream<'static, object_store::Result<ObjectMeta>> {
        self.inner.list(prefix)
    }
    async fn list_with_delimiter(&self, prefix: Option<&Path>) -> object_store::Result<ListResult> {
        self.inner.list_with_delimiter(prefix).await
    }
    async fn copy(&self, from: &Path, to: &Path) -> object_store::Result<()> {
        gated!(self, self.inner.copy(from, to))
    }
    async fn copy_if_not_exists(&self, from: &Path, to: &Path) -> object_store::Result<()> {
        gated!(self, self.inner.copy_if_not_exists(from, to))
    }
    async fn rename_if_not_exists(&self, from: &Path, to: &Path) -> object_store::Result<()> {
        // one atomic primitive of the store (the in-memory store holds its lock across copy+delete? no: do both under our turn)
        gated!(self, async {
            self.inner.copy_if_not_exists(from, to).await?;
            self.inner.delete(from).await
        })
    }
}

/// A lock service: a mutex whose every call is a gated event.
#[derive(Debug)]
struct GatedLock {
    held: Arc<Mutex<bool>>,
    tid: u64,
    ctl: Arc<Ctl>,
}
struct GatedLease {
    held: Arc<Mutex<bool>>,
    tid: u64,
    ctl: Arc<Ctl>,
}
#[async_trait]
impl CommitLock for GatedLock {
    type Lease = GatedLease;
    async fn lock(&self, _version: u64) -> std::result::Result<Self::Lease, CommitError> {
        loop {
            let mode = self.ctl.turn(self.tid).await;
            if mode == Mode::Fail {
                self.ctl.call_done(self.tid);
                return Err(CommitError::OtherError(lance_core::Error::Internal { message: "injected".into(), location: snafu::location!() }));
            }
            let got = {
                let mut h = self.held.lock().unwrap();
                if !*h {
                    *h = true;
                    true
                } else {
                    false
                }
            };
            self.ctl.call_done(self.tid);
            if got {
                if mode == Mode::Lost {
                    return Err(CommitError::OtherError(lance_core::Error::Internal { message: "injected".into(), location: snafu::location!() }));
                }
                return Ok(GatedLease { held: self.held.clone(), tid: self.tid, ctl: self.ctl.clone() });
            }
            // blocked: wait for another turn
        }
    }
}
#[async_trait]
impl CommitLease for GatedLease {
    async fn release(&self, _success: bool) -> std::result::Result<(), CommitError> {
        let mode = self.ctl.turn(self.tid).await;
        let r = match mode {
            Mode::Fail => Err(()),
            Mode::Normal => {
                *self.held.lock().unwrap() = false;
                Ok(())
            }
            Mode::Lost => {
                *self.held.lock().unwrap() = false;
                Err(())
            }
        };
        self.ctl.call_done(self.tid);
        r.map_err(|_| CommitError::OtherError(lance_core::Error::Internal { message: "injected".into(), location: snafu::location!() }))
    }
}

/// The manifest writer handed to the handlers: writes the writer's tag as the file content.
fn tag_writer<'a>(
    object_store: &'a LanceStore,
    manifest: &'a mut Manifest,
    _indices: Option<Vec<IndexMetadata>>,
    path: &'a Path,
    _transaction: Option<Transaction>,
) -> BoxFuture<'a, lance_core::Result<WriteResult>> {
    async move {
        let tag = manifest.config.get("w").cloned().unwrap_or_default();
        let bytes = Bytes::from(tag.into_bytes());
        let n = bytes.len();
        let r = object_store.inner.put(path, bytes.into()).await?;
        Ok(WriteResult { size: n, e_tag: r.e_tag })
    }
    .boxed()
}

fn test_schema() -> lance_core::datatypes::Schema {
    let a = arrow_schema::Schema::new(vec![arrow_schema::Field::new("i", arrow_schema::DataType::Int32, true)]);
    lance_core::datatypes::Schema::try_from(&a).unwrap()
}

#[derive(Clone, Debug)]
struct Case {
    writers: Vec<(u64, u64, u64)>, // tid, version, handler code 0 condput 1 rename 2 lock 3 unsafe
    pre: Vec<u64>,
    evs: Vec<(u64, u64)>, // mode code 0 run 1 fail 2 lost, tid
    probe: Vec<u64>,
}

struct Outcome {
    results: Vec<u64>,
    finals: Vec<u64>,
    tmps: Vec<u64>,
    raw_finals: Vec<Option<String>>,
}

fn lance_store(inner: Arc<dyn ObjectStore>) -> LanceStore {
    LanceStore::new(inner, url::Url::parse("memory:///").unwrap(), None, None, false, true, 8, 3, None)
}

async fn run_case(c: &Case) -> Outcome {
    let mem = Arc::new(InMemory::new());
    let base = Path::from("t");
    let scheme = ManifestNamingScheme::V2;
    for v in &c.pre {
        mem.put(&scheme.manifest_path(&base, *v), Bytes::from_static(b"pre").into()).await.unwrap();
    }
    let (done_tx, mut done_rx) = mpsc::unbounded_channel::<Msg>();
    let ctl = Arc::new(Ctl { grants: Mutex::new(HashMap::new()), recv: Mutex::new(HashMap::new()), done: done_tx.clone() });
    let held = Arc::new(Mutex::new(false));
    let mut handles = vec![];
    for (tid, ver, kind) in c.writers.iter().cloned() {
        let (tx, rx) = mpsc::unbounded_channel::<Mode>();
        ctl.grants.lock().unwrap().insert(tid, tx);
        ctl.recv.lock().unwrap().insert(tid, Arc::new(tokio::sync::Mutex::new(rx)));
        let gated: Arc<dyn ObjectStore> = Arc::new(Gated { inner: mem.clone(), tid, ctl: ctl.clone() });
        let store = lance_store(gated);
        let ctl2 = ctl.clone();
        let held2 = held.clone();
        let done2 = done_tx.clone();
        let base2 = base.clone();
        handles.push(tokio::spawn(async move {
            let mut m = Manifest::new(test_schema(), Arc::new(vec![]), DataStorageFormat::default(), HashMap::new());
            m.version = ver;
            m.config.insert("w".into(), format!("w{tid}"));
            let r = match kind {
                0 => ConditionalPutCommitHandler.commit(&mut m, None, &base2, &store, tag_writer, scheme, None).await,
                1 => RenameCommitHandler.commit(&mut m, None, &base2, &store, tag_writer, scheme, None).await,
                2 => {
                    let h = GatedLock { held: held2, tid, ctl: ctl2 };
                    h.commit(&mut m, None, &base2, &store, tag_writer, scheme, None).await
                }
                _ => UnsafeCommitHandler.commit(&mut m, None, &base2, &store, tag_writer, scheme, None).await,
            };
            let code = match r {
                Ok(_) => 0,
                Err(CommitError::CommitConflict) => 1,
                Err(CommitError::OtherError(_)) => 2,
            };
            let _ = done2.send(Msg::Finished(tid, code));
        }));
    }
    let mut finished: HashMap<u64, u64> = HashMap::new();
    for (mode, tid) in &c.evs {
        if finished.contains_key(tid) || !c.writers.iter().any(|w| w.0 == *tid) {
            continue;
        }
        let m = match mode {
            0 => Mode::Normal,
            1 => Mode::Fail,
            _ => Mode::Lost,
        };
        ctl.grants.lock().unwrap().get(tid).unwrap().send(m).unwrap();
        // wait until that writer has used the turn (or finished without needing it)
        loop {
            match tokio::time::timeout(std::time::Duration::from_secs(20), done_rx.recv()).await {
                Ok(Some(Msg::CallDone(t))) if t == *tid => break,
                Ok(Some(Msg::Finished(t, code))) => {
                    finished.insert(t, code);
                    if t == *tid {
                        break;
                    }
                }
                Ok(Some(Msg::CallDone(_))) => {}
                _ => panic!("gated run stalled"),
            }
        }
        // let the writer run up to its next call / its end
        tokio::task::yield_now().await;
    }
    // drain: writers that finished right after their last call
    loop {
        match tokio::time::timeout(std::time::Duration::from_millis(30), done_rx.recv()).await {
            Ok(Some(Msg::Finished(t, code))) => {
                finished.insert(t, code);
            }
            Ok(Some(_)) => {}
            _ => break,
        }
    }
    for h in handles {
        h.abort();
    }
    let mut raw_finals = vec![];
    let mut finals = vec![];
    for v in &c.probe {
        let p = scheme.manifest_path(&base, *v);
        match mem.get(&p).await {
            Ok(g) => {
                let b = g.bytes().await.unwrap();
                let s = String::from_utf8_lossy(&b).to_string();
                finals.push(if s == "pre" { 1 } else { 2 + s[1..].parse::<u64>().unwrap() });
                raw_finals.push(Some(s));
            }
            Err(_) => {
                finals.push(0);
                raw_finals.push(None);
            }
        }
    }
    // leftover staging files, attributed by content
    let mut tmps = vec![];
    use futures::TryStreamExt;
    let all: Vec<ObjectMeta> = mem.list(None).try_collect().await.unwrap();
    let final_names: Vec<String> = (0..64u64).map(|v| scheme.manifest_path(&base, v).to_string()).collect();
    for o in all {
        if !final_names.contains(&o.location.to_string()) {
            let b = mem.get(&o.location).await.unwrap().bytes().await.unwrap();
            let s = String::from_utf8_lossy(&b).to_string();
            if let Some(t) = s.strip_prefix('w').and_then(|x| x.parse::<u64>().ok()) {
                tmps.push(t);
            }
        }
    }
    let tmps_ordered: Vec<u64> = c.writers.iter().map(|w| w.0).filter(|t| tmps.contains(t)).collect();
    let results = c.writers.iter().map(|w| *finished.get(&w.0).unwrap_or(&3)).collect();
    Outcome { results, finals, tmps: tmps_ordered, raw_finals }
}

fn coq_case(c: &Case) -> String {
    let writers = coq::list(c.writers.iter().map(|(t, v, k)| format!("({}, ({}, {}))", t, v, k)));
    let pre = coq::nlist(c.pre.iter());
    let evs = coq::list(c.evs.iter().map(|(m, t)| format!("({}, {})", m, t)));
    let probe = coq::nlist(c.probe.iter());
    format!("(({}, {}), ({}, {}))", writers, pre, evs, probe)
}

fn all_seqs(n_tids: &[u64], len: usize) -> Vec<Vec<u64>> {
    let mut out = vec![vec![]];
    for _ in 0..len {
        let mut next = vec![];
        for s in &out {
            for t in n_tids {
                let mut s2 = s.clone();
                s2.push(*t);
                next.push(s2);
            }
        }
        out = next;
    }
    out
}

fn main() {
    let (sub, args) = Args::parse();
    if sub != "c02" {
        eprintln!("unknown subcommand {sub}");
        std::process::exit(2);
    }
    let rt = tokio::runtime::Builder::new_multi_thread().worker_threads(4).enable_all().build().unwrap();
    let mut sink = Sink::new("C02", &args.out);
    let mut rng = Rng::new(args.seed);
    let mut cases: Vec<(String, Case)> = vec![];

    // (a) exhaustive: every interleaving of two writers on one version, per handler pairing
    for (k1, k2, len) in [(0u64, 0u64, 3usize), (1, 1, 6), (0, 1, 4), (1, 0, 4), (2, 2, 8)] {
        for s in all_seqs(&[1, 2], len) {
            cases.push((
                format!("exh2-{k1}{k2}"),
                Case { writers: vec![(1, 5, k1), (2, 5, k2)], pre: vec![], evs: s.iter().map(|t| (0, *t)).collect(), probe: vec![5] },
            ));
        }
    }
    // a version that is already published
    for k in [0u64, 1, 2] {
        for s in all_seqs(&[1, 2], if k == 2 { 6 } else { 4 }) {
            cases.push((
                "exh2-pre".into(),
                Case { writers: vec![(1, 5, k), (2, 6, k)], pre: vec![5], evs: s.iter().map(|t| (0, *t)).collect(), probe: vec![5, 6] },
            ));
        }
    }
    // (b) thorough: all interleavings of three writers
    if args.thorough() {
        for (k, len) in [(0u64, 4usize), (1, 8), (2, 9)] {
            for s in all_seqs(&[1, 2, 3], len) {
                cases.push((
                    format!("exh3-{k}"),
                    Case { writers: vec![(1, 5, k), (2, 5, k), (3, 5, k)], pre: vec![], evs: s.iter().map(|t| (0, *t)).collect(), probe: vec![5] },
                ));
            }
        }
    }
    // (c) random: 2-4 writers, 1-2 versions, faults at random positions, compatible handler sets
    for _ in 0..args.vol(600, 6000) {
        let n = rng.range(2, 4);
        let lockset = rng.chance(1, 3);
        let writers: Vec<(u64, u64, u64)> =
            (1..=n).map(|t| (t, 5 + rng.below(2), if lockset { 2 } else { rng.below(2) })).collect();
        let pre = if rng.chance(1, 5) { vec![5] } else { vec![] };
        let len = rng.range(4, 14);
        let faulty = rng.chance(2, 3);
        let evs: Vec<(u64, u64)> = (0..len)
            .map(|_| (if faulty && rng.chance(1, 4) { 1 + rng.below(2) } else { 0 }, 1 + rng.below(n)))
            .collect();
        cases.push(("random".into(), Case { writers, pre, evs, probe: vec![5, 6] }));
    }
    // (d) the unsafe handler (outside the theorems' hypothesis; correspondence only)
    for s in all_seqs(&[1, 2], 2) {
        cases.push((
            "unsafe".into(),
            Case { writers: vec![(1, 5, 3), (2, 5, 3)], pre: vec![], evs: s.iter().map(|t| (0, *t)).collect(), probe: vec![5] },
        ));
    }

    let mut st = Stream::new(
        "run",
        REQ,
        "chk_run",
        "(list (N * (N * N)) * list N) * (list (N * N) * list N)",
        "(list N * list N) * list N",
    );
    st.shard = 300;
    for (kind, c) in &cases {
        let o = rt.block_on(run_case(c));
        sink.count(kind);
        sink.nontrivial(&format!("{:?}", c));
        let human = json!({"kind": kind, "writers": c.writers, "pre": c.pre, "events": c.evs, "results": o.results, "finals": o.raw_finals, "tmps": o.tmps});
        st.push(
            coq_case(c),
            format!("(({}, {}), {})", coq::nlist(o.results.iter()), coq::nlist(o.finals.iter()), coq::nlist(o.tmps.iter())),
            human.clone(),
        );
        // direct oracle on the implementation (handlers with atomic create only)
        if c.writers.iter().all(|w| w.2 != 3) {
            let mut bad = None;
            for v in [5u64, 6] {
                let winners: Vec<u64> = c.writers.iter().zip(&o.results).filter(|(w, r)| w.1 == v && **r == 0).map(|(w, _)| w.0).collect();
                if winners.len() > 1 {
                    bad = Some(format!("two winners for version {v}: {:?}", winners));
                }
                if let Some(pi) = c.probe.iter().position(|p| *p == v) {
                    if let Some(w) = winners.first() {
                        if o.finals[pi] != 2 + *w {
                            bad = Some(format!("winner {w} of version {v} but path holds code {}", o.finals[pi]));
                        }
                    }
                    if c.pre.contains(&v) && o.finals[pi] != 1 {
                        bad = Some(format!("published manifest of version {v} was replaced (code {})", o.finals[pi]));
                    }
                    if c.pre.contains(&v) && !winners.is_empty() {
                        bad = Some(format!("writer {:?} won the already published version {v}", winners));
                    }
                }
            }
            if c.evs.iter().all(|e| e.0 == 0) && o.results.iter().any(|r| *r == 2) {
                bad = Some("OtherError without an injected fault".into());
            }
            match bad {
                Some(w) => sink.oracle_fail(None, &w, human),
                None => sink.oracle_ok(),
            }
        }
    }
    sink.add(st);

    // (e) end to end, real scheduling: concurrent appends through the public API never lose or duplicate a commit
    rt.block_on(e2e(&mut sink, &mut rng, args.vol(3, 12)));
    sink.notes.push("gated object store + gated lock service: one event = one store call of one writer; exhaustive 2-writer interleavings (3-writer in thorough), random faulty schedules; e2e concurrent appends".into());
    sink.finish();
}

async fn e2e(sink: &mut Sink, rng: &mut Rng, rounds: usize) {
    use arrow_array::{Int32Array, RecordBatch, RecordBatchIterator};
    use lance::dataset::{WriteMode, WriteParams};
    use lance::Dataset;
    let schema = Arc::new(arrow_schema::Schema::new(vec![arrow_schema::Field::new("w", arrow_schema::DataType::Int32, false)]));
    for round in 0..rounds {
        let dir = tempfile::tempdir().unwrap();
        let uri = dir.path().join("t").to_str().unwrap().to_string();
        let mk = |w: i32| {
            let b = RecordBatch::try_new(schema.clone(), vec![Arc::new(Int32Array::from(vec![w; 3]))]).unwrap();
            RecordBatchIterator::new(vec![Ok(b)], schema.clone())
        };
        Dataset::write(mk(0), &uri, None).await.unwrap();
        let n = 3 + rng.below(5) as i32;
        let mut hs = vec![];
        for w in 1..=n {
            let uri = uri.clone();
            let rb = mk(w);
            hs.push(tokio::spawn(async move {
                let params = WriteParams { mode: WriteMode::Append, ..Default::default() };
                Dataset::write(rb, &uri, Some(params)).await.map(|d| d.manifest().version)
            }));
        }
        let mut versions = vec![];
        let mut ok = 0;
        for h in hs {
            if let Ok(Ok(v)) = h.await {
                versions.push(v);
                ok += 1;
            }
        }
        versions.sort();
        let ds = Dataset::open(&uri).await.unwrap();
        let latest = ds.manifest().version;
        let rows = ds.count_rows(None).await.unwrap();
        let listed: Vec<u64> = ds.versions().await.unwrap().iter().map(|v| v.version).collect();
        let dense = listed == (1..=latest).collect::<Vec<u64>>();
        let distinct = {
            let mut v = versions.clone();
            v.dedup();
            v.len() == versions.len()
        };
        let case = json!({"round": round, "writers": n, "committed": ok, "versions": versions, "latest": latest, "rows": rows});
        sink.count("e2e-concurrent-append");
        if !distinct || !dense || latest != 1 + ok as u64 || rows != 3 * (1 + ok as usize) {
            sink.oracle_fail(None, "concurrent appends: versions not unique/dense or rows lost/duplicated", case);
        } else {
            sink.oracle_ok();
        }
    }
}
