//! C08: cleanup never removes anything a retained version needs.
//! Model: coq/theories/Table/Model_Cleanup.v.  Arms: unit (decision tree through its observable effect,
//! whole policy table), path helpers, e2e histories, auto cleanup, race with an append, finding F7.
mod e2e;
mod unit;
mod world;

use hxlib::util::{Args, Rng, Sink};

fn main() {
    let (sub, args) = Args::parse();
    if sub != "c08" {
        eprintln!("unknown subcommand {sub}");
        std::process::exit(2);
    }
    let rt = tokio::runtime::Builder::new_multi_thread().worker_threads(4).enable_all().build().unwrap();
    let mut sink = Sink::new("C08", &args.out);
    let mut rng = Rng::new(args.seed);
    let only: Option<String> = args.rest.iter().position(|a| a == "--only").and_then(|i| args.rest.get(i + 1).cloned());
    let want = |name: &str| only.as_deref().map(|o| o == name).unwrap_or(true);
    if want("unit") {
        unit::run(&args, &mut sink, &mut rng.fork(), &rt);
    }
    if want("paths") {
        unit::paths(&mut sink);
    }
    if want("e2e") {
        e2e::histories(&args, &mut sink, &mut rng.fork(), &rt);
    }
    if want("auto") {
        e2e::auto(&args, &mut sink, &mut rng.fork(), &rt);
    }
    if want("race") {
        e2e::race(&args, &mut sink, &mut rng.fork(), &rt);
    }
    if want("f7") {
        e2e::f7(&args, &mut sink, &mut rng.fork(), &rt);
    }
    sink.notes.push(
        "unit: real 7-version history + planted objects of every class at 4 ages, whole policy table (before_timestamp x before_version/retain_n x delete_unverified x error_if_tagged), tags and stale handles random; \
         manifest timestamps via a wrapping CommitHandler, mtimes via File::set_modified; e2e: random histories with cleanups; auto: config-triggered cleanup per commit; race: cleanup vs append; f7: branch / shallow clone"
            .into(),
    );
    sink.finish();
}
