//! Shared machinery of the C08 harness: a commit handler that stamps manifests with the harness's
//! logical clock, directory snapshots (files with mtimes, manifests with the paths they reference,
//! computed here independently of cleanup.rs), Coq printing, and the recording of one cleanup run.
use arrow_array::{Int32Array, RecordBatch, RecordBatchIterator};
use arrow_schema::{ArrowError, DataType, Field, Schema as ArrowSchema};
use async_trait::async_trait;
use futures::TryStreamExt;
use hxlib::util::{coq, Sink, Stream};
use lance::dataset::builder::DatasetBuilder;
use lance::dataset::cleanup::{CleanupPolicy, RemovalStats};
use lance::dataset::{WriteMode, WriteParams};
use lance::Dataset;
use lance_index::DatasetIndexExt;
use lance_io::object_store::ObjectStore;
use lance_table::format::{DeletionFileType, IndexMetadata, Manifest, Transaction};
use lance_table::io::commit::{
    CommitError, CommitHandler, ConditionalPutCommitHandler, ManifestLocation, ManifestNamingScheme, ManifestWriter,
};
use object_store::path::Path as OPath;
use serde_json::{json, Value};
use std::collections::{BTreeMap, BTreeSet};
use std::path::{Path, PathBuf};
use std::sync::{Arc, Mutex};
use std::time::{Duration, SystemTime, UNIX_EPOCH};

pub const REQ: &str = "Common.Base Table.Model_Cleanup";
pub const SEC: u128 = 1_000_000_000;
pub const MIN: u128 = 60 * SEC;
pub const HOUR: u128 = 3600 * SEC;
pub const DAY: u128 = 86400 * SEC;

pub fn now_ns() -> u128 {
    SystemTime::now().duration_since(UNIX_EPOCH).unwrap().as_nanos()
}
pub fn to_systime(ns: u128) -> SystemTime {
    UNIX_EPOCH + Duration::new((ns / SEC) as u64, (ns % SEC) as u32)
}
pub fn to_datetime(ns: u128) -> chrono::DateTime<chrono::Utc> {
    chrono::DateTime::from_timestamp((ns / SEC) as i64, (ns % SEC) as u32).unwrap()
}

/// Wraps the default local commit handler; every manifest committed through it carries the
/// logical time of the harness (`Manifest::set_timestamp` is public; commit() receives `&mut Manifest`
/// after write_manifest_file stamped it with the wall clock).  Each commit advances the clock by 1 s.
pub struct ClockHandler {
    inner: Arc<dyn CommitHandler>,
    pub clock: Arc<Mutex<Option<u128>>>,
}
impl std::fmt::Debug for ClockHandler {
    fn fmt(&self, f: &mut std::fmt::Formatter<'_>) -> std::fmt::Result {
        write!(f, "ClockHandler")
    }
}
impl ClockHandler {
    pub fn new() -> Arc<Self> {
        Arc::new(ClockHandler { inner: Arc::new(ConditionalPutCommitHandler), clock: Arc::new(Mutex::new(None)) })
    }
    pub fn set(&self, t: Option<u128>) {
        *self.clock.lock().unwrap() = t;
    }
}
#[async_trait]
impl CommitHandler for ClockHandler {
    async fn commit(
        &self,
        manifest: &mut Manifest,
        indices: Option<Vec<IndexMetadata>>,
        base_path: &OPath,
        object_store: &ObjectStore,
        manifest_writer: ManifestWriter,
        naming_scheme: ManifestNamingScheme,
        transaction: Option<Transaction>,
    ) -> std::result::Result<ManifestLocation, CommitError> {
        {
            let mut c = self.clock.lock().unwrap();
            if let Some(t) = *c {
                manifest.set_timestamp(t);
                *c = Some(t + SEC);
            }
        }
        self.inner.commit(manifest, indices, base_path, object_store, manifest_writer, naming_scheme, transaction).await
    }
}

pub fn schema() -> Arc<ArrowSchema> {
    Arc::new(ArrowSchema::new(vec![Field::new("id", DataType::Int32, false), Field::new("val", DataType::Int32, false)]))
}
pub fn batch(ids: &[i32], val: i32) -> RecordBatch {
    RecordBatch::try_new(schema(), vec![Arc::new(Int32Array::from(ids.to_vec())), Arc::new(Int32Array::from(vec![val; ids.len()]))]).unwrap()
}
pub fn reader(ids: &[i32], val: i32) -> RecordBatchIterator<std::vec::IntoIter<Result<RecordBatch, ArrowError>>> {
    RecordBatchIterator::new(vec![Ok(batch(ids, val))].into_iter(), schema())
}
pub fn wparams(h: &Arc<ClockHandler>, mode: WriteMode) -> WriteParams {
    WriteParams { mode, commit_handler: Some(h.clone() as Arc<dyn CommitHandler>), auto_cleanup: None, ..Default::default() }
}
pub async fn open(uri: &str, h: &Arc<ClockHandler>) -> lance::Result<Dataset> {
    DatasetBuilder::from_uri(uri).with_commit_handler(h.clone() as Arc<dyn CommitHandler>).load().await
}
pub fn short(e: impl std::fmt::Display) -> String {
    e.to_string().chars().take(200).collect()
}

/// all rows, sorted
pub async fn scan_rows(ds: &Dataset) -> Result<Vec<(i32, i32)>, String> {
    let st = ds.scan().try_into_stream().await.map_err(short)?;
    let bs: Vec<RecordBatch> = st.try_collect().await.map_err(|e: lance::Error| short(e))?;
    let mut out = vec![];
    for b in bs {
        let a = b.column_by_name("id").unwrap().as_any().downcast_ref::<Int32Array>().unwrap();
        let v = b.column_by_name("val").unwrap().as_any().downcast_ref::<Int32Array>().unwrap();
        for i in 0..b.num_rows() {
            out.push((a.value(i), v.value(i)));
        }
    }
    out.sort();
    Ok(out)
}

// ------------------------------------------------------------------------------------------------
// directory snapshots
// ------------------------------------------------------------------------------------------------
#[derive(Clone, Debug, PartialEq)]
pub struct FileEnt {
    pub rel: String,
    pub mtime: u128,
    pub size: u64,
}

pub fn list_dir(base: &Path) -> Vec<FileEnt> {
    fn walk(base: &Path, d: &Path, out: &mut Vec<FileEnt>) {
        if let Ok(rd) = std::fs::read_dir(d) {
            for e in rd.flatten() {
                let p = e.path();
                if p.is_dir() {
                    walk(base, &p, out);
                } else if let Ok(md) = e.metadata() {
                    let mtime = md.modified().unwrap().duration_since(UNIX_EPOCH).unwrap().as_nanos();
                    out.push(FileEnt { rel: p.strip_prefix(base).unwrap().to_string_lossy().to_string(), mtime, size: md.len() });
                }
            }
        }
    }
    let mut out = vec![];
    walk(base, base, &mut out);
    out.sort_by(|a, b| a.rel.cmp(&b.rel));
    out
}

pub fn set_mtime(base: &Path, rel: &str, ns: u128) {
    let f = std::fs::File::options().write(true).open(base.join(rel)).unwrap();
    f.set_modified(to_systime(ns)).unwrap();
}

pub fn plant(base: &Path, rel: &str, bytes: usize, ns: u128) {
    let p = base.join(rel);
    std::fs::create_dir_all(p.parent().unwrap()).unwrap();
    std::fs::write(&p, vec![7u8; bytes]).unwrap();
    set_mtime(base, rel, ns);
}

pub fn copy_tree(from: &Path, to: &Path) {
    std::fs::create_dir_all(to).unwrap();
    for e in std::fs::read_dir(from).unwrap().flatten() {
        let p = e.path();
        let t = to.join(e.file_name());
        if p.is_dir() {
            copy_tree(&p, &t);
        } else {
            std::fs::copy(&p, &t).unwrap();
        }
    }
}

#[derive(Clone, Debug, Default)]
pub struct Refs {
    pub data: Vec<String>,
    pub del: Vec<String>,
    pub tx: Vec<String>,
    pub idx: Vec<String>,
}
impl Refs {
    pub fn paths(&self) -> impl Iterator<Item = &String> {
        self.data.iter().chain(self.del.iter()).chain(self.tx.iter())
    }
}

#[derive(Clone, Debug)]
pub struct ManInfo {
    pub rel: String,
    pub version: u64,
    pub ts: u128,
    pub size: u64,
    pub refs: Refs,
}

/// The relative paths a manifest references, computed from the manifest as the format documents it
/// (data/<file.path>, _deletions/<frag>-<read_version>-<id>.<arrow|bin>, _transactions/<file>, index uuids).
/// `only_base`: None = files stored in the manifest's own dataset directory are listed whatever their
/// base_id (this is what cleanup of that dataset must protect); Some(ids) = only files whose base_id is
/// in `ids` (references of a branch / shallow clone into another dataset's directory).
pub async fn refs_of(ds: &Dataset, only_base: Option<&BTreeSet<u32>>) -> Refs {
    let m = ds.manifest();
    let mut r = Refs::default();
    let keep = |b: Option<u32>| match only_base {
        None => true,
        Some(ids) => b.map(|x| ids.contains(&x)).unwrap_or(false),
    };
    for f in m.fragments.iter() {
        for df in f.files.iter() {
            if keep(df.base_id) {
                r.data.push(format!("data/{}", df.path));
            }
        }
        if let Some(d) = &f.deletion_file {
            if keep(d.base_id) {
                let suffix = match d.file_type {
                    DeletionFileType::Array => "arrow",
                    DeletionFileType::Bitmap => "bin",
                };
                r.del.push(format!("_deletions/{}-{}-{}.{}", f.id, d.read_version, d.id, suffix));
            }
        }
    }
    if only_base.is_none() {
        if let Some(t) = &m.transaction_file {
            r.tx.push(format!("_transactions/{}", t));
        }
    }
    for ix in ds.load_indices().await.unwrap().iter() {
        if keep(ix.base_id) {
            r.idx.push(ix.uuid.to_string());
        }
    }
    r
}

/// manifests found under <base>/_versions (every file that the naming scheme parses)
pub async fn manifests_of(ds: &Dataset, base: &Path, files: &[FileEnt]) -> Vec<ManInfo> {
    let mut out = vec![];
    for f in files {
        let Some(name) = f.rel.strip_prefix("_versions/") else { continue };
        if name.contains('/') {
            continue;
        }
        let Some(scheme) = ManifestNamingScheme::detect_scheme(name) else { continue };
        let Some(version) = scheme.parse_version(name) else { continue };
        let _ = base;
        let old = ds.checkout_version(version).await.unwrap_or_else(|e| panic!("checkout {version}: {e}"));
        assert_eq!(old.manifest().version, version);
        out.push(ManInfo { rel: f.rel.clone(), version, ts: old.manifest().timestamp_nanos, size: f.size, refs: refs_of(&old, None).await });
    }
    out.sort_by_key(|m| m.version);
    out
}

// ------------------------------------------------------------------------------------------------
// Coq printing
// ------------------------------------------------------------------------------------------------
pub fn cseg(s: &str) -> String {
    assert!(s.bytes().all(|b| b.is_ascii_alphanumeric() || b"._-~#=+ ".contains(&b)), "segment {s:?} not printable");
    format!("sg \"{}\"", s)
}
pub fn cpath(p: &str) -> String {
    coq::list(p.split('/').map(cseg))
}
pub fn crefs(r: &Refs) -> String {
    format!(
        "(({}, {}), ({}, {}))",
        coq::list(r.data.iter().map(|p| cpath(p))),
        coq::list(r.del.iter().map(|p| cpath(p))),
        coq::list(r.tx.iter().map(|p| cpath(p))),
        coq::list(r.idx.iter().map(|p| cseg(p)))
    )
}
pub fn cmanifest(m: &ManInfo) -> String {
    format!("(({}, ({}, ({}, {}))), {})", cpath(&m.rel), m.version, m.ts, m.size, crefs(&m.refs))
}
pub fn cfile(f: &FileEnt) -> String {
    format!("({}, ({}, {}))", cpath(&f.rel), f.mtime, f.size)
}
#[derive(Clone, Debug)]
pub struct Pol {
    pub before_ts: Option<u128>,
    pub before_version: Option<u64>,
    pub du: bool,
    pub err_tagged: bool,
}
impl Pol {
    pub fn to_lance(&self) -> CleanupPolicy {
        CleanupPolicy {
            before_timestamp: self.before_ts.map(to_datetime),
            before_version: self.before_version,
            delete_unverified: self.du,
            error_if_tagged_old_versions: self.err_tagged,
        }
    }
    pub fn coq(&self) -> String {
        format!(
            "(({}, {}), ({}, {}))",
            coq::opt(self.before_ts.map(coq::n128)),
            coq::opt(self.before_version.map(coq::n)),
            coq::b(self.du),
            coq::b(self.err_tagged)
        )
    }
    pub fn json(&self) -> Value {
        json!({"before_ts": self.before_ts.map(|t| t.to_string()), "before_version": self.before_version, "delete_unverified": self.du, "error_if_tagged_old_versions": self.err_tagged})
    }
    /// model-independent restatement of "the policy selects this version"
    pub fn selects(&self, version: u64, ts: u128) -> bool {
        self.before_ts.map(|t| ts < t).unwrap_or(true) && self.before_version.map(|v| version < v).unwrap_or(true)
    }
}

/// the state a cleanup starts from
#[derive(Clone, Debug)]
pub struct World {
    pub dsv: u64,
    pub tags: Vec<u64>,
    pub now: u128,
    pub manifests: Vec<ManInfo>,
    pub files: Vec<FileEnt>,
}
impl World {
    pub async fn snapshot(ds: &Dataset, base: &Path) -> World {
        let files = list_dir(base);
        let manifests = manifests_of(ds, base, &files).await;
        let mut tags: Vec<u64> = ds.tags().list().await.unwrap().values().map(|t| t.version).collect();
        tags.sort();
        tags.dedup();
        World { dsv: ds.version().version, tags, now: now_ns(), manifests, files }
    }
    pub fn coq_state(&self) -> String {
        format!("({}, {})", coq::list(self.manifests.iter().map(cmanifest)), coq::list(self.files.iter().map(cfile)))
    }
    pub fn latest(&self) -> u64 {
        self.manifests.iter().map(|m| m.version).max().unwrap_or(0)
    }
    /// files must stay clear of the 7-day threshold (the wall clock moves during the run)
    pub fn in_domain(&self) -> bool {
        let thr = self.now.saturating_sub(7 * DAY);
        self.files.iter().all(|f| f.mtime.abs_diff(thr) > HOUR)
    }
    pub fn json(&self) -> Value {
        json!({
            "dataset_version": self.dsv, "tags": self.tags, "now": self.now.to_string(),
            "manifests": self.manifests.iter().map(|m| json!({"path": m.rel, "version": m.version, "age_s": (self.now.saturating_sub(m.ts) / SEC) as u64,
                "data": m.refs.data, "del": m.refs.del, "tx": m.refs.tx, "idx": m.refs.idx})).collect::<Vec<_>>(),
            "files": self.files.iter().map(|f| json!([f.rel, (self.now.saturating_sub(f.mtime) / SEC) as u64])).collect::<Vec<_>>(),
        })
    }
}

pub struct Observed {
    pub result: Result<(u64, u64), String>, // bytes_removed, old_versions
    pub gone_files: Vec<usize>,
    pub gone_manifests: Vec<usize>,
    pub after: Vec<FileEnt>,
}

pub fn diff_listing(w: &World, after: &[FileEnt]) -> (Vec<usize>, Vec<usize>) {
    let left: BTreeSet<&str> = after.iter().map(|f| f.rel.as_str()).collect();
    let gone_files = w.files.iter().enumerate().filter(|(_, f)| !left.contains(f.rel.as_str())).map(|(i, _)| i).collect();
    let gone_manifests = w.manifests.iter().enumerate().filter(|(_, m)| !left.contains(m.rel.as_str())).map(|(i, _)| i).collect();
    (gone_files, gone_manifests)
}

pub async fn observe_cleanup(ds: &Dataset, base: &Path, w: &World, pol: &Pol) -> Observed {
    let r = ds.cleanup_with_policy(pol.to_lance()).await;
    let after = list_dir(base);
    let (gone_files, gone_manifests) = diff_listing(w, &after);
    Observed { result: r.map(|s: RemovalStats| (s.bytes_removed, s.old_versions)).map_err(short), gone_files, gone_manifests, after }
}

pub fn cleanup_stream() -> Stream {
    let mut s = Stream::new(
        "chk_cleanup",
        REQ,
        "chk_cleanup",
        "((N * list N) * (cpolicy * N)) * (list cmanifest * list cfile)",
        "outcome ((list N * list N) * (N * N))",
    );
    s.shard = 30;
    s
}

pub fn idx_list(v: &[usize]) -> String {
    coq::list(v.iter().map(|i| coq::n(*i as u64)))
}

/// push one observed cleanup into the correspondence stream
pub fn record_cleanup(st: &mut Stream, sink: &mut Sink, kind: &str, w: &World, pol: &Pol, o: &Observed, extra: Value) -> Value {
    let input = format!("((({}, {}), ({}, {})), {})", w.dsv, coq::nlist(w.tags.iter()), pol.coq(), w.now, w.coq_state());
    let output = match &o.result {
        Ok((bytes, oldv)) => format!("(Ok (({}, {}), ({}, {})))", idx_list(&o.gone_files), idx_list(&o.gone_manifests), bytes, oldv),
        Err(_) => "Err".to_string(),
    };
    let human = json!({
        "kind": kind, "policy": pol.json(), "world": w.json(), "result": format!("{:?}", o.result),
        "deleted_files": o.gone_files.iter().map(|i| w.files[*i].rel.clone()).collect::<Vec<_>>(),
        "deleted_manifests": o.gone_manifests.iter().map(|i| w.manifests[*i].version).collect::<Vec<_>>(),
        "extra": extra,
    });
    sink.count(&format!("cleanup:{kind}:{}", if o.result.is_ok() { "ok" } else { "err" }));
    sink.nontrivial(&input);
    st.push(input, output, human.clone());
    human
}

/// Model-independent statement of the property on one observed cleanup (implementation only):
///  * an Err result removed nothing;
///  * deleted manifests are policy-selected, not the latest (nor any version >= the handle's), not tagged;
///  * no path referenced by a surviving manifest is missing afterwards if it existed before;
///  * with delete_unverified = false no object younger than 7 days that no manifest references is removed;
///  * only objects under data*/, _deletions*/, _transactions*/, _indices*/, _versions/ were removed.
/// Returns a description of the first failure.
pub fn oracle_cleanup(w: &World, pol: &Pol, o: &Observed) -> Option<String> {
    if o.result.is_err() {
        if !o.gone_files.is_empty() {
            return Some(format!("cleanup returned Err but removed {} objects", o.gone_files.len()));
        }
        return None;
    }
    let latest = w.latest();
    for i in &o.gone_manifests {
        let m = &w.manifests[*i];
        if m.version == latest {
            return Some("the latest manifest was deleted".into());
        }
        if m.version >= w.dsv {
            return Some(format!("manifest {} >= dataset version {} was deleted", m.version, w.dsv));
        }
        if w.tags.contains(&m.version) {
            return Some(format!("tagged version {} was deleted", m.version));
        }
        if !pol.selects(m.version, m.ts) {
            return Some(format!("version {} is not selected by the policy but was deleted", m.version));
        }
    }
    let before: BTreeMap<&str, &FileEnt> = w.files.iter().map(|f| (f.rel.as_str(), f)).collect();
    let after: BTreeSet<&str> = o.after.iter().map(|f| f.rel.as_str()).collect();
    let gone_m: BTreeSet<usize> = o.gone_manifests.iter().cloned().collect();
    let mut any_ref: BTreeSet<&str> = BTreeSet::new();
    let mut any_idx: BTreeSet<&str> = BTreeSet::new();
    for (i, m) in w.manifests.iter().enumerate() {
        for p in m.refs.paths() {
            any_ref.insert(p.as_str());
            if !gone_m.contains(&i) && before.contains_key(p.as_str()) && !after.contains(p.as_str()) {
                return Some(format!("{} referenced by surviving version {} was deleted", p, m.version));
            }
        }
        for u in &m.refs.idx {
            any_idx.insert(u.as_str());
            if !gone_m.contains(&i) {
                let pre = format!("_indices/{}/", u);
                for f in w.files.iter().filter(|f| f.rel.starts_with(&pre)) {
                    if !after.contains(f.rel.as_str()) {
                        return Some(format!("{} of index {} of surviving version {} was deleted", f.rel, u, m.version));
                    }
                }
            }
        }
    }
    let thr = w.now.saturating_sub(7 * DAY);
    for i in &o.gone_files {
        let f = &w.files[*i];
        let top = f.rel.split('/').next().unwrap_or("");
        // (the code tests string prefixes of the relative path, so look-alike directories count as the dataset's own)
        if !(top.starts_with("data") || top.starts_with("_deletions") || top.starts_with("_transactions") || top.starts_with("_indices") || top == "_versions") {
            return Some(format!("{} (outside the dataset's own directories) was deleted", f.rel));
        }
        let is_manifest = w.manifests.iter().any(|m| m.rel == f.rel);
        if !pol.du && !is_manifest && f.mtime >= thr {
            let idx_known = f.rel.strip_prefix("_indices/").and_then(|r| r.split('/').next()).map(|u| any_idx.contains(u)).unwrap_or(false);
            if !any_ref.contains(f.rel.as_str()) && !idx_known {
                return Some(format!("{} is referenced by no manifest and younger than 7 days but was deleted without delete_unverified", f.rel));
            }
        }
    }
    None
}

pub fn tmp_uri(dir: &tempfile::TempDir) -> (PathBuf, String) {
    let base = dir.path().join("ds");
    let uri = base.to_string_lossy().to_string();
    (base, uri)
}
