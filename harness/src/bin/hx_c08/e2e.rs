//! End-to-end arms through the public API:
//!  * random histories (append, delete, update, compaction, index creation, overwrite, restore, tags,
//!    failed writes leaving orphan files, stray objects) under a logical clock, with cleanups under random
//!    policies from fresh and stale handles; every cleanup is recorded for the model (stream chk_cleanup)
//!    and checked by direct oracles (every version that must survive still scans, validates and equals
//!    its snapshot; nothing a survivor references is missing; young unreferenced objects survive);
//!  * auto cleanup configured in the table config: after every commit the objects that disappeared are
//!    compared with `auto_cleanup_hook` + `run_cleanup` of the model (stream chk_auto);
//!  * cleanup racing with an append under the real scheduler;
//!  * finding F7 (references held by a branch / shallow clone are invisible to cleanup of the source).
use crate::world::*;
use hxlib::util::{catch, coq, Args, Rng, Sink, Stream};
use lance::dataset::optimize::{compact_files, CompactionOptions};
use lance::dataset::AutoCleanupParams;
use lance::dataset::{InsertBuilder, UpdateBuilder, WriteMode, WriteParams};
use lance::Dataset;
use lance_index::scalar::ScalarIndexParams;
use lance_index::{DatasetIndexExt, IndexType};
use lance_table::io::commit::CommitHandler;
use serde_json::{json, Value};
use std::collections::{BTreeMap, BTreeSet};
use std::path::PathBuf;
use std::sync::Arc;

pub const F7_CLASS: &str = "cleanup_ignores_branch_refs";

struct Hist {
    _dir: tempfile::TempDir,
    base: PathBuf,
    uri: String,
    h: Arc<ClockHandler>,
    ds: Dataset,
    now0: u128,
    t: u128,
    snaps: BTreeMap<u64, Vec<(i32, i32)>>,
    next_id: i32,
    known: BTreeSet<String>,
    ntags: usize,
    log: Vec<String>,
}

impl Hist {
    /// advance the logical clock; stays clear of the 7-day threshold and of the wall clock
    fn tick(&mut self, rng: &mut Rng) {
        let step = *rng.pick(&[10 * MIN, 3 * HOUR, DAY, 3 * DAY, 6 * DAY]);
        let mut t = self.t + step;
        let thr = self.now0 - 7 * DAY;
        if t + 3 * HOUR > thr && t < thr + 3 * HOUR {
            t = thr + 3 * HOUR + 10 * MIN;
        }
        if t > self.now0 - 30 * MIN {
            t = self.t + 61 * SEC;
        }
        assert!(t < self.now0 - 5 * MIN, "logical clock reached the wall clock");
        self.t = t;
        self.h.set(Some(t));
    }
    /// objects created since the last call get the logical time of the operation (just before its commit)
    fn settle(&mut self) {
        for f in list_dir(&self.base) {
            if self.known.insert(f.rel.clone()) {
                set_mtime(&self.base, &f.rel, self.t - SEC);
            }
        }
    }
    async fn snap(&mut self) {
        let v = self.ds.version().version;
        let rows = scan_rows(&self.ds).await.unwrap();
        self.snaps.insert(v, rows);
    }
    fn fresh(&mut self, n: usize) -> Vec<i32> {
        let v: Vec<i32> = (self.next_id..self.next_id + n as i32).collect();
        self.next_id += n as i32;
        v
    }
}

async fn new_hist(rng: &mut Rng, now0: u128) -> Hist {
    let dir = tempfile::tempdir().unwrap();
    let (base, uri) = tmp_uri(&dir);
    let h = ClockHandler::new();
    let t = now0 - (9 + rng.below(30)) as u128 * DAY - rng.below(20) as u128 * HOUR;
    h.set(Some(t));
    let ids: Vec<i32> = (0..8).collect();
    let ds = Dataset::write(reader(&ids, 0), &uri, Some(wparams(&h, WriteMode::Create))).await.unwrap();
    let mut hist = Hist { _dir: dir, base, uri, h, ds, now0, t, snaps: BTreeMap::new(), next_id: 8, known: BTreeSet::new(), ntags: 0, log: vec!["create".into()], };
    hist.settle();
    hist.snap().await;
    hist
}

async fn random_op(hs: &mut Hist, rng: &mut Rng, sink: &mut Sink) {
    hs.tick(rng);
    let k = rng.below(100);
    let h = hs.h.clone();
    let r: Result<&'static str, String> = async {
        if k < 22 {
            let ids = hs.fresh(3 + rng.below(6) as usize);
            hs.ds.append(reader(&ids, hs.log.len() as i32), Some(wparams(&h, WriteMode::Append))).await.map_err(short)?;
            Ok("append")
        } else if k < 36 {
            let m = 2 + rng.below(4);
            let pred = format!("id % {} = {}", m, rng.below(m));
            hs.ds.delete(&pred).await.map_err(short)?;
            Ok("delete")
        } else if k < 46 {
            let pred = format!("id % 3 = {}", rng.below(3));
            let ds = Arc::new(hs.ds.clone());
            let r = UpdateBuilder::new(ds).update_where(&pred).map_err(short)?.set("val", "val + 1000").map_err(short)?.build().map_err(short)?.execute().await.map_err(short)?;
            hs.ds = r.new_dataset.as_ref().clone();
            Ok("update")
        } else if k < 58 {
            let opts = CompactionOptions { target_rows_per_fragment: 1000, materialize_deletions: true, materialize_deletions_threshold: 0.0, num_threads: Some(1), ..Default::default() };
            compact_files(&mut hs.ds, opts, None).await.map_err(short)?;
            Ok("compact")
        } else if k < 68 {
            hs.ds.create_index(&["id"], IndexType::BTree, Some("id_idx".into()), &ScalarIndexParams::default(), true).await.map_err(short)?;
            Ok("index")
        } else if k < 74 {
            let ids = hs.fresh(4);
            hs.ds = Dataset::write(reader(&ids, 77), &hs.uri, Some(wparams(&h, WriteMode::Overwrite))).await.map_err(short)?;
            Ok("overwrite")
        } else if k < 79 {
            let vs: Vec<u64> = hs.snaps.keys().cloned().collect();
            let v = *rng.pick(&vs);
            let mut old = hs.ds.checkout_version(v).await.map_err(short)?;
            old.restore().await.map_err(short)?;
            hs.ds = old;
            Ok("restore")
        } else if k < 87 {
            let vs: Vec<u64> = hs.snaps.keys().cloned().collect();
            let v = *rng.pick(&vs);
            hs.ntags += 1;
            hs.ds.tags().create(&format!("tag{}", hs.ntags), v).await.map_err(short)?;
            Ok("tag")
        } else if k < 94 {
            // a write that never commits: data files without a manifest
            let ids = hs.fresh(3);
            let p = WriteParams { mode: WriteMode::Append, auto_cleanup: None, ..Default::default() };
            let _txn = InsertBuilder::new(Arc::new(hs.ds.clone())).with_params(&p).execute_uncommitted(vec![batch(&ids, -1)]).await.map_err(short)?;
            Ok("orphan-write")
        } else {
            // stray objects copied in
            let n = hs.log.len();
            for rel in [
                format!("data/copied-{n}.lance"),
                format!("_transactions/{n}-lost.txn"),
                format!("_deletions/0-{n}-77.arrow"),
                format!("_indices/00000000-0000-4000-9000-{:012}/index.idx", n),
                format!("_versions/.tmp_{n}.manifest_x"),
                format!("_versions/{n}.manifest-00000000-aaaa-4000-8000-000000000000"),
            ] {
                if rng.bool() {
                    plant(&hs.base, &rel, 13, hs.t);
                }
            }
            Ok("stray")
        }
    }
    .await;
    match r {
        Ok(name) => {
            hs.log.push(name.into());
            sink.count(&format!("op:{name}"));
            hs.settle();
            if !hs.snaps.contains_key(&hs.ds.version().version) {
                hs.snap().await;
            }
        }
        Err(e) => {
            hs.log.push(format!("failed({e})"));
            sink.count("op:failed");
            hs.settle();
            hs.ds = open(&hs.uri, &hs.h).await.unwrap();
        }
    }
    // operations with several commits (compaction, index remap): snapshot the intermediate versions too
    let latest = hs.ds.version().version;
    for v in 1..latest {
        if !hs.snaps.contains_key(&v) {
            if let Ok(old) = hs.ds.checkout_version(v).await {
                if let Ok(rows) = scan_rows(&old).await {
                    hs.snaps.insert(v, rows);
                }
            }
        }
    }
}

fn random_policy(hs: &Hist, w: &World, rng: &mut Rng) -> Pol {
    let before_ts = match rng.below(6) {
        0 => None,
        1 => Some(now_ns()),
        2 | 3 => Some(rng.pick(&w.manifests).ts + rng.below(2) as u128),
        4 => Some(hs.t.saturating_sub(rng.below(5) as u128 * DAY)),
        _ => Some(hs.now0 - 14 * DAY),
    };
    let before_version = match rng.below(5) {
        0 | 1 => None,
        2 => Some(rng.pick(&w.manifests).version),
        _ => {
            // retain_n: versions sorted, `len <= n ? first : versions[len - n]`
            let n = 1 + rng.below(4) as usize;
            let vs: Vec<u64> = w.manifests.iter().map(|m| m.version).collect();
            Some(if vs.len() <= n { vs[0] } else { vs[vs.len() - n] })
        }
    };
    Pol { before_ts, before_version, du: rng.chance(1, 3), err_tagged: rng.chance(1, 3) }
}

async fn do_cleanup(hs: &mut Hist, rng: &mut Rng, sink: &mut Sink, st: &mut Stream) {
    // handle: latest, or a stale checkout
    let fresh = open(&hs.uri, &hs.h).await.unwrap();
    let mut handle = fresh.clone();
    if rng.chance(1, 4) {
        let vs: Vec<u64> = hs.snaps.keys().cloned().collect();
        if let Ok(d) = fresh.checkout_version(*rng.pick(&vs)).await {
            handle = d;
        }
    }
    let w = World::snapshot(&handle, &hs.base).await;
    if !w.in_domain() {
        sink.count("cleanup:skipped-out-of-domain");
        return;
    }
    let pol = random_policy(hs, &w, rng);
    let o = observe_cleanup(&handle, &hs.base, &w, &pol).await;
    let human = record_cleanup(st, sink, "e2e", &w, &pol, &o, json!({"history": hs.log}));
    hs.log.push(format!("cleanup({:?}) -> {:?}", pol.json().to_string(), o.result));
    let mut bad = oracle_cleanup(&w, &pol, &o);
    // every version that must survive is readable and unchanged
    let gone: BTreeSet<u64> = o.gone_manifests.iter().map(|i| w.manifests[*i].version).collect();
    let ds = open(&hs.uri, &hs.h).await.unwrap();
    for m in &w.manifests {
        let must_survive = o.result.is_err() || m.version >= w.dsv || w.tags.contains(&m.version) || !pol.selects(m.version, m.ts);
        if must_survive && gone.contains(&m.version) && bad.is_none() {
            bad = Some(format!("version {} must survive but its manifest is gone", m.version));
        }
        if gone.contains(&m.version) {
            hs.snaps.remove(&m.version);
            continue;
        }
        let r: Result<(), String> = async {
            let old = ds.checkout_version(m.version).await.map_err(short)?;
            let rows = scan_rows(&old).await?;
            old.validate().await.map_err(short)?;
            if let Some(exp) = hs.snaps.get(&m.version) {
                if *exp != rows {
                    return Err(format!("rows differ from the snapshot ({} vs {})", rows.len(), exp.len()));
                }
            }
            Ok(())
        }
        .await;
        if let Err(e) = r {
            if bad.is_none() {
                bad = Some(format!("surviving version {} is not readable after cleanup: {}", m.version, e));
            }
        }
    }
    match bad {
        None => sink.oracle_ok(),
        Some(what) => sink.oracle_fail(None, &what, human),
    }
    hs.known = list_dir(&hs.base).into_iter().map(|f| f.rel).collect();
    hs.ds = ds;
}

pub fn histories(args: &Args, sink: &mut Sink, rng: &mut Rng, rt: &tokio::runtime::Runtime) {
    let now0 = (now_ns() / SEC) * SEC;
    let mut st = cleanup_stream();
    st.name = "chk_cleanup_e2e".into();
    for _ in 0..args.vol(12, 60) {
        rt.block_on(async {
            let mut hs = new_hist(rng, now0).await;
            let nops = 6 + rng.below(8);
            for i in 0..nops {
                random_op(&mut hs, rng, sink).await;
                if rng.chance(1, 5) || i + 1 == nops {
                    do_cleanup(&mut hs, rng, sink, &mut st).await;
                }
            }
            // a second cleanup right after the last one must find the survivors intact as well
            do_cleanup(&mut hs, rng, sink, &mut st).await;
        });
    }
    sink.add(st);
}

// ------------------------------------------------------------------------------------------------
// auto cleanup
// ------------------------------------------------------------------------------------------------
fn cfg_code(v: &Option<Result<u128, ()>>) -> String {
    match v {
        None => "(0, 0)".into(),
        Some(Err(())) => "(1, 0)".into(),
        Some(Ok(x)) => format!("(2, {})", x),
    }
}

pub fn auto(args: &Args, sink: &mut Sink, rng: &mut Rng, rt: &tokio::runtime::Runtime) {
    let now0 = (now_ns() / SEC) * SEC;
    let mut st = Stream::new(
        "chk_auto",
        REQ,
        "chk_auto",
        "(((N * N) * ((N * N) * (N * N))) * N) * (((N * list N) * N) * (list cmanifest * list cfile))",
        "bool * (list N * list N)",
    );
    st.shard = 60;
    for round in 0..args.vol(6, 30) {
        // configuration: interval, older_than, retain_versions (set later through update_config)
        let interval: usize = if round == 0 { 2 } else { 1 + rng.below(4) as usize };
        let older_days: u64 = *rng.pick(&[0u64, 5, 12]);
        let retain: Option<Result<u128, ()>> = match rng.below(6) {
            0 | 1 | 2 => None,
            3 => Some(Ok(1 + rng.below(3) as u128)),
            4 => Some(Ok(0)),
            _ => Some(Err(())),
        };
        let bad_interval: Option<Result<u128, ()>> = match if round == 1 { 1 } else { rng.below(8) } {
            0 => Some(Err(())),
            1 => Some(Ok(0)),
            _ => None,
        };
        rt.block_on(async {
            let dir = tempfile::tempdir().unwrap();
            let (base, uri) = tmp_uri(&dir);
            let h = ClockHandler::new();
            let mut t = now0 - 25 * DAY - 7 * HOUR;
            h.set(Some(t));
            let p = WriteParams {
                mode: WriteMode::Create,
                commit_handler: Some(h.clone() as Arc<dyn CommitHandler>),
                auto_cleanup: Some(AutoCleanupParams { interval, older_than: chrono::TimeDelta::days(older_days as i64) }),
                ..Default::default()
            };
            let mut ds = Dataset::write(reader(&[0, 1, 2, 3], 0), &uri, Some(p)).await.unwrap();
            let mut known: BTreeSet<String> = BTreeSet::new();
            let mut cur_interval: Option<Result<u128, ()>> = Some(Ok(interval as u128));
            let mut cur_retain: Option<Result<u128, ()>> = None;
            let older = Some(Ok(older_days as u128 * DAY));
            let mut snaps: BTreeMap<u64, Vec<(i32, i32)>> = BTreeMap::new();
            snaps.insert(1, scan_rows(&ds).await.unwrap());
            let mut next_id = 4;
            let mut tagged = false;
            let nsteps = 7 + rng.below(5);
            for step in 0..nsteps {
                for f in list_dir(&base) {
                    if known.insert(f.rel.clone()) {
                        set_mtime(&base, &f.rel, t - SEC);
                    }
                }
                t += *rng.pick(&[3 * HOUR, DAY, 2 * DAY]);
                if t > now0 - 7 * DAY - 4 * HOUR {
                    t = t.max(now0 - 7 * DAY + 4 * HOUR);
                }
                if t > now0 - HOUR {
                    break;
                }
                h.set(Some(t));
                let pre = World::snapshot(&ds, &base).await;
                if !pre.in_domain() {
                    break;
                }
                // what this commit will see in the config
                let mut set_cfg: Option<(String, String)> = None;
                if step == 2 {
                    if let Some(r) = &retain {
                        let val = match r { Ok(n) => n.to_string(), Err(()) => "many".to_string() };
                        set_cfg = Some(("lance.auto_cleanup.retain_versions".into(), val));
                        cur_retain = retain.clone();
                    }
                } else if step == 4 {
                    if let Some(r) = &bad_interval {
                        let val = match r { Ok(n) => n.to_string(), Err(()) => "often".to_string() };
                        set_cfg = Some(("lance.auto_cleanup.interval".into(), val));
                        cur_interval = bad_interval.clone();
                    }
                } else if step == 3 && !tagged && rng.chance(1, 3) {
                    ds.tags().create("keep", 1 + rng.below(ds.version().version)).await.ok();
                    tagged = true;
                    continue;
                }
                let dsv = ds.version().version;
                let what;
                let params = wparams(&h, WriteMode::Append);
                let mut dsc = ds.clone();
                let sc = set_cfg.clone();
                let ids: Vec<i32> = (next_id..next_id + 3).collect();
                let kind = rng.below(3);
                let r = catch(|| {
                    tokio::task::block_in_place(|| {
                        tokio::runtime::Handle::current().block_on(async {
                            if let Some((k, v)) = sc {
                                dsc.update_config([(k.as_str(), v.as_str())]).await.map(|_| ())?;
                            } else if kind == 0 {
                                dsc.delete(&format!("id = {}", ids[0] - 2)).await?;
                            } else {
                                dsc.append(reader(&ids, 9), Some(params)).await?;
                            }
                            Ok::<Dataset, lance::Error>(dsc)
                        })
                    })
                });
                let panicked = r.is_err();
                match r {
                    Ok(Ok(d)) => {
                        ds = d;
                        what = "ok";
                    }
                    Ok(Err(e)) => {
                        sink.count("auto:commit-error");
                        sink.notes.push(format!("auto: commit failed: {}", short(e)));
                        break;
                    }
                    Err(_) => {
                        ds = open(&uri, &h).await.unwrap();
                        what = "panic";
                    }
                }
                next_id += 3;
                let version = ds.version().version;
                if version != dsv + 1 {
                    sink.count("auto:not-one-commit");
                    break;
                }
                snaps.insert(version, scan_rows(&ds).await.unwrap());
                // state the hook saw = objects before the commit + objects the commit created
                let after = list_dir(&base);
                let mut files = pre.files.clone();
                for f in &after {
                    if !pre.files.iter().any(|g| g.rel == f.rel) {
                        files.push(f.clone());
                    }
                }
                files.sort_by(|a, b| a.rel.cmp(&b.rel));
                let manifests = {
                    let mut ms = pre.manifests.clone();
                    let newm = manifests_of(&ds, &base, &after).await.into_iter().find(|m| m.version == version).expect("new manifest");
                    ms.push(newm);
                    ms
                };
                let hook_w = World { dsv, tags: pre.tags.clone(), now: pre.now, manifests, files };
                let (gone_files, gone_manifests) = diff_listing(&hook_w, &after);
                let input = format!(
                    "((({}, ({}, {})), {}), ((({}, {}), {}), {}))",
                    cfg_code(&cur_interval), cfg_code(&older), cfg_code(&cur_retain), version,
                    hook_w.dsv, coq::nlist(hook_w.tags.iter()), now_ns(), hook_w.coq_state()
                );
                let output = format!("({}, ({}, {}))", coq::b(panicked), idx_list(&gone_files), idx_list(&gone_manifests));
                let human: Value = json!({"round": round, "step": step, "interval": format!("{cur_interval:?}"), "older_than_days": older_days, "retain": format!("{cur_retain:?}"),
                    "version": version, "commit": what, "deleted_manifests": gone_manifests.iter().map(|i| hook_w.manifests[*i].version).collect::<Vec<_>>(),
                    "deleted_files": gone_files.iter().map(|i| hook_w.files[*i].rel.clone()).collect::<Vec<_>>(), "world": hook_w.json()});
                sink.count(&format!("auto:{}:{}", what, if gone_manifests.is_empty() { "nothing" } else { "cleaned" }));
                sink.nontrivial(&input);
                st.push(input, output, human.clone());
                // direct oracle: the hook fires only when version % interval == 0; survivors are readable
                let mut bad = None;
                if let Some(Ok(i)) = cur_interval {
                    if i > 0 && (version as u128) % i != 0 && !gone_files.is_empty() {
                        bad = Some(format!("objects removed at version {version} although version % interval = {}", (version as u128) % i));
                    }
                }
                let gone: BTreeSet<u64> = gone_manifests.iter().map(|i| hook_w.manifests[*i].version).collect();
                if gone.contains(&version) || gone.contains(&dsv) || gone.iter().any(|v| hook_w.tags.contains(v)) {
                    bad = Some("auto cleanup removed the new, the previous or a tagged version".into());
                }
                for m in &hook_w.manifests {
                    if gone.contains(&m.version) {
                        continue;
                    }
                    let r: Result<(), String> = async {
                        let old = ds.checkout_version(m.version).await.map_err(short)?;
                        let rows = scan_rows(&old).await?;
                        if snaps.get(&m.version).map(|e| *e != rows).unwrap_or(false) {
                            return Err("rows differ from the snapshot".into());
                        }
                        Ok(())
                    }
                    .await;
                    if let Err(e) = r {
                        bad = Some(format!("version {} unreadable after auto cleanup: {e}", m.version));
                    }
                }
                match bad {
                    None => sink.oracle_ok(),
                    Some(wh) => sink.oracle_fail(None, &wh, human),
                }
                if panicked {
                    break;
                }
            }
        });
    }
    sink.add(st);
}

// ------------------------------------------------------------------------------------------------
// race: cleanup concurrent with an append (real scheduler)
// ------------------------------------------------------------------------------------------------
pub fn race(args: &Args, sink: &mut Sink, rng: &mut Rng, rt: &tokio::runtime::Runtime) {
    let now0 = (now_ns() / SEC) * SEC;
    for round in 0..args.vol(8, 40) {
        rt.block_on(async {
            let dir = tempfile::tempdir().unwrap();
            let (base, uri) = tmp_uri(&dir);
            let h = ClockHandler::new();
            let mut t = now0 - 20 * DAY;
            h.set(Some(t));
            let mut ds = Dataset::write(reader(&[0, 1, 2, 3], 0), &uri, Some(wparams(&h, WriteMode::Create))).await.unwrap();
            let mut next = 4;
            for _ in 0..(2 + rng.below(3)) {
                t += DAY;
                h.set(Some(t));
                if rng.chance(1, 3) {
                    ds = Dataset::write(reader(&[next, next + 1], 1), &uri, Some(wparams(&h, WriteMode::Overwrite))).await.unwrap();
                } else {
                    ds.append(reader(&[next, next + 1], 1), Some(wparams(&h, WriteMode::Append))).await.unwrap();
                }
                next += 2;
            }
            for f in list_dir(&base) {
                set_mtime(&base, &f.rel, t - SEC);
            }
            // the racing writers run on the wall clock: their files are young, their manifests "now"
            h.set(None);
            let expected_before = scan_rows(&ds).await.unwrap();
            let writers = 1 + rng.below(2);
            let mut hs = vec![];
            for wtr in 0..writers {
                let uri = uri.clone();
                let hh = h.clone();
                let ids = vec![1000 + 10 * wtr as i32, 1001 + 10 * wtr as i32];
                let delay = rng.below(4);
                hs.push(tokio::spawn(async move {
                    for _ in 0..delay {
                        tokio::task::yield_now().await;
                    }
                    let d = open(&uri, &hh).await?;
                    let mut d = d;
                    d.append(reader(&ids, 5), Some(wparams(&hh, WriteMode::Append))).await?;
                    Ok::<(u64, Vec<i32>), lance::Error>((d.version().version, ids))
                }));
            }
            let cds = open(&uri, &h).await.unwrap();
            let delay = rng.below(4);
            let pol = Pol { before_ts: Some(now_ns()), before_version: None, du: false, err_tagged: false };
            let lp = pol.to_lance();
            let cl = tokio::spawn(async move {
                for _ in 0..delay {
                    tokio::task::yield_now().await;
                }
                cds.cleanup_with_policy(lp).await.map(|s| s.old_versions)
            });
            let cres = cl.await.unwrap();
            let mut committed = vec![];
            let mut failed = 0;
            for hnd in hs {
                match hnd.await.unwrap() {
                    Ok(x) => committed.push(x),
                    Err(_) => failed += 1,
                }
            }
            sink.count(&format!("race:cleanup-{}", if cres.is_ok() { "ok" } else { "err" }));
            sink.count_n("race:append-committed", committed.len() as u64);
            sink.count_n("race:append-failed", failed);
            // every committed append published a fully readable version; the latest holds all of them
            let mut bad = None;
            let latest = open(&uri, &h).await.unwrap();
            for (v, ids) in &committed {
                let r: Result<(), String> = async {
                    let d = latest.checkout_version(*v).await.map_err(short)?;
                    let rows = scan_rows(&d).await?;
                    d.validate().await.map_err(short)?;
                    for i in ids {
                        if !rows.iter().any(|r| r.0 == *i) {
                            return Err(format!("row {i} missing"));
                        }
                    }
                    for r in &expected_before {
                        if !rows.contains(r) {
                            return Err(format!("row {:?} of the version the append was based on is missing", r));
                        }
                    }
                    Ok(())
                }
                .await;
                if let Err(e) = r {
                    bad = Some(format!("append committed version {v} racing with cleanup, but the version is not readable: {e}"));
                }
            }
            match scan_rows(&latest).await {
                Ok(rows) => {
                    if rows.len() != expected_before.len() + 2 * committed.len() {
                        bad = Some(format!("latest has {} rows, expected {}", rows.len(), expected_before.len() + 2 * committed.len()));
                    }
                }
                Err(e) => bad = Some(format!("latest unreadable after the race: {e}")),
            }
            let case = json!({"round": round, "cleanup": format!("{cres:?}"), "committed": committed.iter().map(|c| c.0).collect::<Vec<_>>(), "failed": failed});
            match bad {
                None => sink.oracle_ok(),
                Some(w) => sink.oracle_fail(None, &w, case),
            }
        });
    }
}

// ------------------------------------------------------------------------------------------------
// F7: branches / shallow clones
// ------------------------------------------------------------------------------------------------
/// Rust copy of Known_C08_cleanup_ignores_branch_refs (tied to the Coq predicate by stream chk_class)
fn known_class(w: &World, pol: &Pol, ext: &[Refs]) -> bool {
    let kept: Vec<&ManInfo> = w.manifests.iter().filter(|m| m.version >= w.dsv || !pol.selects(m.version, m.ts) || w.tags.contains(&m.version)).collect();
    let kept_needs = |p: &String| kept.iter().any(|m| m.refs.paths().any(|q| q == p) || index_uuid(p).map(|u| m.refs.idx.iter().any(|x| x == u)).unwrap_or(false));
    let kept_idx = |u: &String| kept.iter().any(|m| m.refs.idx.contains(u));
    ext.iter().any(|r| !r.paths().all(|p| kept_needs(p)) || !r.idx.iter().all(|u| kept_idx(u)))
}
fn index_uuid(p: &str) -> Option<&str> {
    let mut it = p.split('/');
    if it.next() == Some("_indices") { it.next() } else { None }
}

pub fn f7(args: &Args, sink: &mut Sink, rng: &mut Rng, rt: &tokio::runtime::Runtime) {
    let now0 = (now_ns() / SEC) * SEC;
    let mut st = cleanup_stream();
    st.name = "chk_cleanup_f7".into();
    let mut st_class = Stream::new("chk_class", REQ, "chk_class", "((N * list N) * cpolicy) * (list cmanifest * list crefs)", "bool");
    st_class.shard = 100;
    let variants = args.vol(6, 16);
    for variant in 0..variants {
        rt.block_on(async {
            let dir = tempfile::tempdir().unwrap();
            let (base, uri) = tmp_uri(&dir);
            let h = ClockHandler::new();
            let mut t = now0 - 20 * DAY;
            h.set(Some(t));
            let mut ds = Dataset::write(reader(&[1, 2, 3], 0), &uri, Some(wparams(&h, WriteMode::Create))).await.unwrap();
            // variant bits: how the referrer is made, what main does afterwards, whether the policy keeps v1
            let use_clone = variant % 2 == 1;
            let main_op = (variant / 2) % 3; // 0 overwrite, 1 append (v1's file stays referenced), 2 delete rows + compaction
            let keep_all = variant >= 6 && rng.chance(1, 3);
            let clone_dir = dir.path().join("clone");
            let clone_uri = clone_dir.to_string_lossy().to_string();
            let referrer: Dataset = if use_clone {
                ds.shallow_clone(&clone_uri, 1u64, None).await.unwrap()
            } else {
                ds.create_branch("dev", 1u64, None).await.unwrap()
            };
            let ref_rows = scan_rows(&referrer).await.unwrap();
            t += DAY;
            h.set(Some(t));
            match main_op {
                0 => {
                    ds = Dataset::write(reader(&[7, 8], 1), &uri, Some(wparams(&h, WriteMode::Overwrite))).await.unwrap();
                }
                1 => {
                    ds.append(reader(&[7, 8], 1), Some(wparams(&h, WriteMode::Append))).await.unwrap();
                }
                _ => {
                    ds.delete("id = 1").await.unwrap();
                    let opts = CompactionOptions { target_rows_per_fragment: 1000, materialize_deletions: true, materialize_deletions_threshold: 0.0, num_threads: Some(1), ..Default::default() };
                    compact_files(&mut ds, opts, None).await.unwrap();
                }
            }
            for f in list_dir(&base) {
                set_mtime(&base, &f.rel, t - SEC);
            }
            let ds = open(&uri, &h).await.unwrap();
            let w = World::snapshot(&ds, &base).await;
            let pol = Pol { before_ts: if keep_all { Some(w.manifests[0].ts) } else { Some(now_ns()) }, before_version: None, du: false, err_tagged: false };
            // the references the referrer holds into main's directory: files whose base_id resolves to main's root
            let main_ids: BTreeSet<u32> = referrer.manifest().base_paths.iter().filter(|(_, b)| b.path.trim_end_matches('/') == uri.trim_end_matches('/') || b.path.trim_end_matches('/').ends_with(uri.trim_end_matches('/'))).map(|(k, _)| *k).collect();
            let ext = vec![refs_of(&referrer, Some(&main_ids)).await];
            let in_class = known_class(&w, &pol, &ext);
            st_class.push(
                format!("((({}, {}), {}), ({}, {}))", w.dsv, coq::nlist(w.tags.iter()), pol.coq(), coq::list(w.manifests.iter().map(cmanifest)), coq::list(ext.iter().map(crefs))),
                coq::b(in_class),
                json!({"variant": variant, "referrer": if use_clone { "shallow_clone" } else { "branch" }, "main_op": main_op, "keep_all": keep_all, "external_refs": ext[0].data, "in_class": in_class}),
            );
            let o = observe_cleanup(&ds, &base, &w, &pol).await;
            let human = record_cleanup(&mut st, sink, "f7", &w, &pol, &o, json!({"variant": variant, "referrer": if use_clone { "shallow_clone" } else { "branch" }, "main_op": main_op, "external_refs": ext[0].data.clone(), "in_class": in_class}));
            // main itself obeys the property
            match oracle_cleanup(&w, &pol, &o) {
                None => sink.oracle_ok(),
                Some(what) => sink.oracle_fail(None, &what, human.clone()),
            }
            // direct oracle: the referrer still reads what it read before
            let again = if use_clone { Dataset::open(&clone_uri).await } else { ds.checkout_branch("dev").await };
            let r = match again {
                Ok(d) => scan_rows(&d).await,
                Err(e) => Err(short(e)),
            };
            sink.count(&format!("f7:{}:{}:{}", if use_clone { "clone" } else { "branch" }, main_op, if in_class { "in-class" } else { "outside" }));
            match r {
                Ok(rows) if rows == ref_rows => sink.oracle_ok(),
                Ok(_) => sink.oracle_fail(if in_class { Some(F7_CLASS) } else { None }, "branch / clone reads different rows after cleanup of its source", human),
                Err(e) => sink.oracle_fail(
                    if in_class { Some(F7_CLASS) } else { None },
                    &format!("{} created from version 1 is unreadable after cleanup_old_versions on its source: {}", if use_clone { "shallow clone" } else { "branch" }, e),
                    human,
                ),
            }
            if in_class && ext[0].data.is_empty() {
                sink.notes.push("f7: class predicate true with no external data refs".into());
            }
        });
    }
    sink.add(st);
    sink.add(st_class);
}
