//! Decision-tree arm.  `path_if_not_referenced` is private, so the tree is tied through its observable
//! effect: a real 7-version history (create, append, delete, index, overwrite, append, delete) with
//! manifest timestamps set through the commit handler, plus planted objects of every class
//! (unreferenced data / deletion / transaction / index objects, `_versions/.tmp*`, `*.manifest-<uuid>`
//! staging files, unknown extensions, objects in the wrong directory, string-prefix look-alikes) at
//! seven ages (incl. 7 days -/+ 2 h and exactly a manifest's time), file mtimes set by `File::set_modified`; then the real `cleanup_with_policy` under the
//! whole policy table.  The set of deleted objects and RemovalStats must equal the model's.
use crate::world::*;
use hxlib::util::{catch, coq, Args, Rng, Sink, Stream};
use lance::dataset::cleanup::CleanupPolicyBuilder;
use lance::dataset::WriteMode;
use lance::Dataset;
use lance_index::scalar::ScalarIndexParams;
use lance_index::{DatasetIndexExt, IndexType};
use serde_json::json;
use std::collections::BTreeMap;
use std::path::PathBuf;

pub struct BaseState {
    pub _dir: tempfile::TempDir,
    pub base: PathBuf,
    pub ts: Vec<u128>,                  // ts[k] = manifest time of version k+1
    pub origin: BTreeMap<String, usize>, // file -> version whose operation created it (1-based)
    pub strays: Vec<(String, usize)>,   // planted file -> age level 0..6
    pub manifests: Vec<ManInfo>,
    pub timeline: &'static str,
}

pub fn timeline(name: &str, now0: u128, k: usize) -> u128 {
    let k = k as u128;
    match name {
        "old" => now0 - 30 * DAY + k * DAY,
        "young" => now0 - 6 * HOUR + k * 10 * MIN,
        _ => {
            if k <= 3 {
                now0 - 20 * DAY + k * DAY
            } else {
                now0 - 3 * DAY + k * HOUR
            }
        }
    }
}

const STRAY_UUID: [&str; 7] = [
    "00000000-0000-4000-8000-000000000000",
    "00000000-0000-4000-8000-000000000001",
    "00000000-0000-4000-8000-000000000002",
    "00000000-0000-4000-8000-000000000003",
    "00000000-0000-4000-8000-000000000004",
    "00000000-0000-4000-8000-000000000005",
    "00000000-0000-4000-8000-000000000006",
];

/// the removable kinds only, for the boundary ages (7 days -/+ 2 hours, exactly the time of version 5)
fn stray_core(l: usize) -> Vec<String> {
    vec![
        format!("data/stray-L{l}.lance"),
        format!("_deletions/9-9-{l}.arrow"),
        format!("_transactions/9-stray{l}.txn"),
        format!("_indices/{}/index.idx", STRAY_UUID[l]),
        format!("_versions/.tmp_5.manifest_{l}"),
    ]
}

fn stray_names(l: usize) -> Vec<String> {
    vec![
        format!("data/stray-L{l}.lance"),
        format!("_deletions/9-9-{l}.arrow"),
        format!("_deletions/8-8-{l}.bin"),
        format!("_transactions/9-stray{l}.txn"),
        format!("_indices/{}/index.idx", STRAY_UUID[l]),
        format!("_indices/{}/sub/page.lance", STRAY_UUID[l]),
        format!("_indices/solo{l}"),
        format!("_versions/.tmp_5.manifest_{l}"),
        format!("_versions/9.manifest-stray{l}"),
        format!("data/stray{l}.txt"),
        format!("data/noext{l}"),
        format!("data/trailingdot{l}."),
        format!("stray{l}.lance"),
        format!("other/x{l}.lance"),
        format!("data/x{l}.arrow"),
        format!("_deletions/x{l}.txn"),
        format!("_deletions/x{l}.lance"),
        format!("_transactions/x{l}.bin"),
        format!("database/q{l}.lance"),
        format!("_indicesX/u{l}/f.idx"),
        format!("_deletionsX/d{l}.arrow"),
        format!("_transactionsX/t{l}.txn"),
        format!("_versions/.tmpdir/inner{l}.lance"),
    ]
}

pub async fn build_base(tl: &'static str, now0: u128) -> BaseState {
    let dir = tempfile::tempdir().unwrap();
    let (base, uri) = tmp_uri(&dir);
    let h = ClockHandler::new();
    let mut origin: BTreeMap<String, usize> = BTreeMap::new();
    let mut ts = vec![];
    let mark = |origin: &mut BTreeMap<String, usize>, v: usize, base: &PathBuf| {
        for f in list_dir(base) {
            origin.entry(f.rel).or_insert(v);
        }
    };
    let mut step = |v: usize| {
        let t = timeline(tl, now0, v);
        h.set(Some(t));
        ts.push(t);
    };
    step(1);
    let mut ds = Dataset::write(reader(&(0..10).collect::<Vec<_>>(), 1), &uri, Some(wparams(&h, WriteMode::Create))).await.unwrap();
    mark(&mut origin, 1, &base);
    step(2);
    ds.append(reader(&(10..20).collect::<Vec<_>>(), 2), Some(wparams(&h, WriteMode::Append))).await.unwrap();
    mark(&mut origin, 2, &base);
    step(3);
    ds.delete("id < 3").await.unwrap();
    mark(&mut origin, 3, &base);
    step(4);
    ds.create_index(&["id"], IndexType::BTree, Some("id_idx".into()), &ScalarIndexParams::default(), true).await.unwrap();
    mark(&mut origin, 4, &base);
    step(5);
    let mut ds = Dataset::write(reader(&(100..106).collect::<Vec<_>>(), 5), &uri, Some(wparams(&h, WriteMode::Overwrite))).await.unwrap();
    mark(&mut origin, 5, &base);
    step(6);
    ds.append(reader(&(106..110).collect::<Vec<_>>(), 6), Some(wparams(&h, WriteMode::Append))).await.unwrap();
    mark(&mut origin, 6, &base);
    step(7);
    ds.delete("id = 100").await.unwrap();
    mark(&mut origin, 7, &base);
    assert_eq!(ds.version().version, 7, "history shape changed");
    let files = list_dir(&base);
    let manifests = manifests_of(&ds, &base, &files).await;
    assert_eq!(manifests.len(), 7);
    for (k, m) in manifests.iter().enumerate() {
        assert_eq!(m.ts, ts[k], "manifest timestamp of version {} not under harness control", k + 1);
    }
    let mut strays = vec![];
    for l in 0..4 {
        for n in stray_names(l) {
            plant(&base, &n, 11 + l, now0);
            strays.push((n, l));
        }
    }
    for l in 4..7 {
        for n in stray_core(l) {
            plant(&base, &n, 11 + l, now0);
            strays.push((n, l));
        }
    }
    BaseState { _dir: dir, base, ts, origin, strays, manifests, timeline: tl }
}

/// mtimes of one case: real files at the time of the version that created them (+ delta), strays by level
fn mtime_plan(b: &BaseState, now0: u128, delta: i64) -> Vec<(String, u128)> {
    let mut out = vec![];
    for (f, v) in &b.origin {
        let t = b.ts[*v - 1];
        let t = if delta < 0 { t - SEC } else if delta > 0 { t + SEC } else { t };
        out.push((f.clone(), t));
    }
    let levels = [b.ts[0] - 10 * DAY, b.ts[3] + (b.ts[4] - b.ts[3]) / 2, now0 - DAY, now0 - 10 * MIN, now0 - 7 * DAY - 2 * HOUR, now0 - 7 * DAY + 2 * HOUR, b.ts[4]];
    for (f, l) in &b.strays {
        out.push((f.clone(), levels[*l]));
    }
    out
}

#[derive(Clone, Debug)]
enum BV {
    None,
    Retain(usize),
    Direct(u64),
}

pub fn run(args: &Args, sink: &mut Sink, rng: &mut Rng, rt: &tokio::runtime::Runtime) {
    let now0 = (now_ns() / SEC) * SEC;
    let mut st = cleanup_stream();
    let mut st_retain = Stream::new("chk_retain", REQ, "chk_retain", "list N * N", "outcome N");
    let combos: Vec<(&'static str, i64)> = if args.thorough() {
        ["old", "young", "mixed"].iter().flat_map(|t| [-1i64, 0, 1].into_iter().map(move |d| (*t, d))).collect()
    } else {
        // three of the nine (timeline x mtime offset) pairings, rotated by the seed
        let r = (args.seed % 3) as usize;
        let ds = [-1i64, 0, 1];
        vec![("old", ds[r]), ("young", ds[(r + 1) % 3]), ("mixed", ds[(r + 2) % 3])]
    };
    let mut bases: BTreeMap<&'static str, BaseState> = BTreeMap::new();
    for (tl, _) in &combos {
        if !bases.contains_key(tl) {
            bases.insert(tl, rt.block_on(build_base(tl, now0)));
        }
    }
    for (tl, delta) in combos {
        let b = &bases[tl];
        let plan = mtime_plan(b, now0, delta);
        let t = &b.ts;
        let bts: Vec<Option<u128>> = vec![None, Some(t[0]), Some(t[2]), Some(t[2] + 1), Some(t[6] + SEC)];
        let bvs = vec![BV::None, BV::Retain(1), BV::Retain(3), BV::Retain(99), BV::Direct(4)];
        for bt in &bts {
            for bv in &bvs {
                for du in [false, true] {
                    for err in [false, true] {
                        let tags: Vec<u64> = match rng.below(5) {
                            0 | 1 => vec![],
                            2 => vec![2],
                            3 => vec![5],
                            _ => vec![1, 3],
                        };
                        let dsv = if rng.chance(1, 4) { 5 } else { 7 };
                        let case = rt.block_on(one_case(b, &plan, bt.clone(), bv.clone(), du, err, &tags, dsv));
                        let (w, pol, o) = case;
                        assert!(w.in_domain(), "mtime too close to the 7-day threshold");
                        let kind = format!("unit-{tl}{delta:+}");
                        let human = record_cleanup(&mut st, sink, &kind, &w, &pol, &o, json!({"tags": tags, "bv": format!("{bv:?}")}));
                        match oracle_cleanup(&w, &pol, &o) {
                            None => sink.oracle_ok(),
                            Some(what) => sink.oracle_fail(None, &what, human),
                        }
                    }
                }
            }
        }
    }
    // retain_n_versions with n = 0 indexes one past the end (model: Panic)
    {
        let b = bases.values().next().unwrap();
        let dir = tempfile::tempdir().unwrap();
        let (cbase, curi) = tmp_uri(&dir);
        copy_tree(&b.base, &cbase);
        let h = ClockHandler::new();
        for n in [0usize, 1, 3, 6, 7, 8, 99] {
            let r = catch(|| {
                rt.block_on(async {
                    let ds = open(&curi, &h).await.unwrap();
                    CleanupPolicyBuilder::default().retain_n_versions(&ds, n).await.map(|b| b.build().before_version)
                })
            });
            let o: Result<String, bool> = match r {
                Err(_) => Err(true),
                Ok(Err(_)) => Err(false),
                Ok(Ok(v)) => Ok(coq::n(v.unwrap())),
            };
            sink.count(&format!("retain:{}", if o.is_ok() { "ok" } else { "panic-or-err" }));
            st_retain.push(format!("({}, {})", coq::nlist([1u64, 2, 3, 4, 5, 6, 7].iter()), n), coq::outcome(&o), json!({"versions": 7, "n": n, "out": format!("{o:?}")}));
        }
    }
    sink.add(st);
    sink.add(st_retain);
}

#[allow(clippy::too_many_arguments)]
async fn one_case(
    b: &BaseState,
    plan: &[(String, u128)],
    bt: Option<u128>,
    bv: BV,
    du: bool,
    err: bool,
    tags: &[u64],
    dsv: u64,
) -> (World, Pol, Observed) {
    let dir = tempfile::tempdir().unwrap();
    let (cbase, curi) = tmp_uri(&dir);
    copy_tree(&b.base, &cbase);
    let h = ClockHandler::new();
    let ds = open(&curi, &h).await.unwrap();
    for (i, v) in tags.iter().enumerate() {
        ds.tags().create(&format!("t{i}"), *v).await.unwrap();
    }
    let ds = if dsv != 7 { ds.checkout_version(dsv).await.unwrap() } else { ds };
    // every object gets its planned mtime; the tag files are old
    for f in list_dir(&cbase) {
        match plan.iter().find(|(p, _)| *p == f.rel) {
            Some((_, t)) => set_mtime(&cbase, &f.rel, *t),
            None => set_mtime(&cbase, &f.rel, b.ts[0] - 10 * DAY),
        }
    }
    let before_version = match bv {
        BV::None => None,
        BV::Direct(v) => Some(v),
        BV::Retain(n) => {
            CleanupPolicyBuilder::default().retain_n_versions(&ds, n).await.unwrap().build().before_version
        }
    };
    let pol = Pol { before_ts: bt, before_version, du, err_tagged: err };
    let files = list_dir(&cbase);
    let mut tv: Vec<u64> = tags.to_vec();
    tv.sort();
    let w = World { dsv, tags: tv, now: now_ns(), manifests: b.manifests.clone(), files };
    let o = observe_cleanup(&ds, &cbase, &w, &pol).await;
    (w, pol, o)
}

/// The path helpers of object_store that the decision tree uses (Path::extension, as_ref().starts_with,
/// parts().nth(1)), on every path of up to 3 segments over a small segment vocabulary: exhaustive on that domain.
pub fn paths(sink: &mut Sink) {
    use object_store::path::Path as OPath;
    let vocab = [
        "data", "database", "_indices", "_indicesX", "_versions", "_deletions", "_transactions", ".tmp", ".tmp_5.manifest", "a.lance", "x.", ".hidden",
        "noext", "a.b.txn", "7.manifest", "7.manifest-u", "d.arrow", "d.bin", "u",
    ];
    let mut st = Stream::new("chk_path", REQ, "chk_path", "path", "option seg * (list bool * option seg)");
    st.shard = 400;
    let mut all: Vec<Vec<&str>> = vec![];
    for a in vocab {
        all.push(vec![a]);
        for b in vocab {
            all.push(vec![a, b]);
            for c in ["a.lance", "x.", "noext", "7.manifest", "d.bin", ".tmp"] {
                all.push(vec![a, b, c]);
            }
        }
    }
    for segs in all {
        let s = segs.join("/");
        let p = OPath::from(s.as_str());
        assert_eq!(p.as_ref(), s, "object_store normalised the path");
        let ext = p.extension().map(|e| e.to_string());
        let flags: Vec<bool> = ["_versions/.tmp", "_indices", "data", "_deletions", "_transactions"].iter().map(|pre| p.as_ref().starts_with(pre)).collect();
        let second = p.parts().nth(1).map(|x| x.as_ref().to_string());
        let out = format!(
            "({}, ({}, {}))",
            coq::opt(ext.as_ref().map(|e| format!("({})", cseg(e)))),
            coq::list(flags.iter().map(|b| coq::b(*b))),
            coq::opt(second.as_ref().map(|e| format!("({})", cseg(e))))
        );
        sink.count("path");
        st.push(cpath(&s), out, json!({"path": s, "extension": ext, "starts_with": flags, "second": second}));
    }
    sink.add(st);
}
