//! Scripted histories (run with `hx_c05 probe`): reproductions of the defects the generated histories found.
use crate::e2e::*;
use hxlib::util::Rng;
use lance_index::DatasetIndexExt;
use lance_table::io::manifest::read_manifest_indexes;

pub fn run_probe() {
    let rt = tokio::runtime::Builder::new_multi_thread().worker_threads(4).enable_all().build().unwrap();
    rt.block_on(async {
        let mut rng = Rng::new(4);
        for (stable, with_index) in [(true, false), (true, true), (false, true)] {
            println!("=========== stable_row_ids={stable} with_index={with_index}: create 15 rows (4 per file); compact_files(defer_index_remap=true)");
            let mut t = Tbl::create_with(stable, lance_file::version::LanceFileVersion::V2_1, 4, 15).await;
            if with_index {
                t.create_index(&mut rng).await.unwrap();
            }
            show(&t, "before").await;
            t.compact_with(20, 0.1, true).await.unwrap();
            show(&t, "after compact defer_index_remap").await;
        }
    });
}

async fn show(t: &Tbl, what: &str) {
    let ds = &t.ds;
    println!("--- {what}: version {} fragments {:?} max_fragment_id {:?}", ds.version().version, ds.manifest.fragments.iter().map(|f| f.id).collect::<Vec<_>>(), ds.manifest.max_fragment_id);
    let raw = read_manifest_indexes(&ds.object_store, ds.manifest_location(), &ds.manifest).await.unwrap();
    for i in &raw {
        println!("    raw index {} fields {:?} v{} bitmap {:?}", i.name, i.fields, i.dataset_version, i.fragment_bitmap.as_ref().map(|b| b.iter().collect::<Vec<_>>()));
    }
    let d = ds.clone();
    let r = guarded(async move { d.load_indices().await }).await;
    println!("    load_indices: {:?}", r.map(|v| v.len()));
    let d = ds.clone();
    println!("    validate: {:?}", guarded(async move { d.validate().await }).await);
}
