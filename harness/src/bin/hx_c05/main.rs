//! hx_c05: property C05 "every committed version is internally well formed".
//! unit arm (unit.rs): the real Transaction::build_manifest / validate_operation through the verif hook;
//! e2e arm (e2e.rs): random histories on temp-dir datasets, every committed manifest exported.
mod e2e;
mod model;
mod probe;
mod unit;

use hxlib::util::{Rng, Sink};

fn main() {
    let (sub, args) = hxlib::util::Args::parse();
    let code = match sub.as_str() {
        "c05" => {
            let mut sink = Sink::new("C05", &args.out);
            let mut rng = Rng::new(args.seed);
            let mut ctx = model::Ctx::default();
            if !args.rest.iter().any(|a| a == "--no-unit") {
                unit::run_unit(&args, &mut sink, &mut rng, &mut ctx);
            }
            if !args.rest.iter().any(|a| a == "--no-e2e") {
                e2e::run_e2e(&args, &mut sink, &mut rng);
            }
            sink.finish();
            0
        }
        "probe" => {
            probe::run_probe();
            0
        }
        _ => {
            eprintln!("unknown subcommand {sub}");
            2
        }
    };
    std::process::exit(code);
}
