//! End-to-end arm: random histories (length <= 12) of the public write API on temp-dir datasets.  After every
//! step each newly committed version is read back: its manifest (+ data file lengths, deletion vectors, decoded
//! row id / version sequences, indices) is exported as a Coq term together with the transaction that produced it
//! and the previous manifest.  Streams: `wf` (wf_manifest holds), `commit` / `create` / `restore` (the model's
//! commit_step on the previous manifest and the committed transaction gives exactly the manifest read back),
//! `opok` (the committed transaction satisfies the hypotheses of C05_build_preserves_wf).  Direct oracles:
//! Dataset::validate(), count_rows / scan against the harness's own key->value table, the Rust restatement
//! `wf_check`.
#![allow(dead_code)]
use crate::model::*;
use arrow_array::{Array, Int64Array, RecordBatch, RecordBatchIterator, StringArray};
use arrow_schema::{DataType, Field, Schema as ArrowSchema};
use futures::TryStreamExt;
use hxlib::util::{coq, Args, Rng, Sink, Stream};
use lance::dataset::optimize::{compact_files, CompactionOptions};
use lance::dataset::transaction::{Operation, Transaction};
use lance::dataset::{MergeInsertBuilder, NewColumnTransform, UpdateBuilder, WhenMatched, WhenNotMatched, WriteMode, WriteParams};
use lance::Dataset;
use lance_file::version::LanceFileVersion;
use lance_index::optimize::OptimizeOptions;
use lance_index::scalar::ScalarIndexParams;
use lance_index::{DatasetIndexExt, IndexType};
use lance_table::format::Fragment;
use lance_table::io::deletion::read_deletion_file;
use serde_json::json;
use std::collections::BTreeMap;
use std::future::Future;
use std::sync::Arc;

pub struct Tbl {
    pub _dir: tempfile::TempDir,
    pub uri: String,
    pub ds: Dataset,
    pub stable: bool,
    pub ver: LanceFileVersion,
    pub max_rows_per_file: usize,
    pub next_k: i64,
    /// extra Int64 columns added by add_columns (each holds k + 1)
    pub extra: Vec<String>,
    /// the table as the harness believes it to be: k -> x
    pub expect: BTreeMap<i64, i64>,
    pub hist: Vec<String>,
    pub verified: u64,
    /// expectations of older versions (for restore)
    pub expect_at: BTreeMap<u64, (BTreeMap<i64, i64>, Vec<String>)>,
    pub indexed: bool,
    /// Some(keys): the handle in use is stale and sees only these keys (a predicate evaluated through it cannot
    /// touch rows committed after it was opened)
    pub scope: Option<std::collections::BTreeSet<i64>>,
    /// the history contains compact_files(defer_index_remap = true) on a table with stable row ids
    /// (known finding C05 stable_rowids_deferred_remap_unassigned_fragment_ids)
    pub deferred_remap_on_stable: bool,
    /// false: compaction never uses defer_index_remap (hx_c18: with stable row ids that path is C05's known
    /// finding and makes every later version unloadable)
    pub allow_deferred_remap: bool,
}

/// Run a fallible async operation on its own task: Ok | Err((is_panic, message)).
pub async fn guarded<T: Send + 'static>(fut: impl Future<Output = lance::Result<T>> + Send + 'static) -> Result<T, (bool, String)> {
    match tokio::spawn(fut).await {
        Ok(Ok(v)) => Ok(v),
        Ok(Err(e)) => Err((false, e.to_string().chars().take(300).collect())),
        Err(e) => {
            let is_panic = e.is_panic();
            let msg = if is_panic {
                let p = e.into_panic();
                if let Some(s) = p.downcast_ref::<String>() {
                    s.clone()
                } else if let Some(s) = p.downcast_ref::<&str>() {
                    s.to_string()
                } else {
                    "panic".into()
                }
            } else {
                "cancelled".into()
            };
            Err((is_panic, msg.chars().take(300).collect()))
        }
    }
}

pub fn x_of(k: i64) -> i64 {
    k * 10
}

pub fn mk_schema(extra: &[String]) -> Arc<ArrowSchema> {
    let mut f = vec![Field::new("k", DataType::Int64, false), Field::new("x", DataType::Int64, true), Field::new("s", DataType::Utf8, true)];
    for e in extra {
        f.push(Field::new(e, DataType::Int64, true));
    }
    Arc::new(ArrowSchema::new(f))
}
pub fn mk_batch(extra: &[String], rows: &[(i64, i64)]) -> RecordBatch {
    let mut cols: Vec<Arc<dyn Array>> = vec![
        Arc::new(Int64Array::from(rows.iter().map(|r| r.0).collect::<Vec<_>>())),
        Arc::new(Int64Array::from(rows.iter().map(|r| r.1).collect::<Vec<_>>())),
        Arc::new(StringArray::from(rows.iter().map(|r| if r.0 % 5 == 4 { None } else { Some(format!("s{}", r.0)) }).collect::<Vec<_>>())),
    ];
    for _ in extra {
        cols.push(Arc::new(Int64Array::from(rows.iter().map(|r| r.0 + 1).collect::<Vec<_>>())));
    }
    RecordBatch::try_new(mk_schema(extra), cols).unwrap()
}

impl Tbl {
    fn schema(&self) -> Arc<ArrowSchema> {
        mk_schema(&self.extra)
    }
    fn batch(&self, rows: &[(i64, i64)]) -> RecordBatch {
        mk_batch(&self.extra, rows)
    }
    fn params(&self, mode: WriteMode) -> WriteParams {
        WriteParams { max_rows_per_file: self.max_rows_per_file, max_rows_per_group: 1024, mode, data_storage_version: Some(self.ver), enable_stable_row_ids: self.stable, ..Default::default() }
    }
    fn fresh(&mut self, n: usize) -> Vec<(i64, i64)> {
        let r: Vec<(i64, i64)> = (0..n as i64).map(|i| (self.next_k + i, x_of(self.next_k + i))).collect();
        self.next_k += n as i64;
        r
    }

    pub async fn create(rng: &mut Rng, stable: bool) -> Tbl {
        let ver = if stable { *rng.pick(&[LanceFileVersion::V2_0, LanceFileVersion::V2_1]) } else { *rng.pick(&[LanceFileVersion::Legacy, LanceFileVersion::V2_0, LanceFileVersion::V2_0, LanceFileVersion::V2_1]) };
        let max_rows_per_file = *rng.pick(&[3usize, 4, 5, 8, 10, 1000]);
        let n = rng.range(1, 24) as usize;
        Self::create_with(stable, ver, max_rows_per_file, n).await
    }
    pub async fn create_with(stable: bool, ver: LanceFileVersion, max_rows_per_file: usize, n: usize) -> Tbl {
        let dir = tempfile::tempdir().unwrap();
        let uri = dir.path().join("t.lance").to_str().unwrap().to_string();
        let rows: Vec<(i64, i64)> = (0..n as i64).map(|k| (k, x_of(k))).collect();
        let params = WriteParams { max_rows_per_file, max_rows_per_group: 1024, mode: WriteMode::Create, data_storage_version: Some(ver), enable_stable_row_ids: stable, ..Default::default() };
        let ds = Dataset::write(RecordBatchIterator::new(vec![Ok(mk_batch(&[], &rows))], mk_schema(&[])), &uri, Some(params)).await.unwrap();
        Tbl { _dir: dir, uri, ds, stable, ver, max_rows_per_file, next_k: n as i64, extra: vec![], expect: rows.into_iter().collect(), hist: vec![format!("create n={n} max_rows_per_file={max_rows_per_file} version={ver} stable_row_ids={stable}")], verified: 0, expect_at: BTreeMap::new(), indexed: false, scope: None, deferred_remap_on_stable: false, allow_deferred_remap: true }
    }

    fn pred(&self, rng: &mut Rng) -> (String, Box<dyn Fn(i64) -> bool + Send>) {
        let n = self.next_k.max(1);
        match rng.below(5) {
            0 => {
                let m = rng.range(2, 5) as i64;
                let r = rng.below(m as u64) as i64;
                (format!("k % {m} = {r}"), Box::new(move |k| k % m == r))
            }
            1 => {
                let a = rng.below(n as u64) as i64;
                let b = a + rng.range(1, 12) as i64;
                (format!("k >= {a} AND k < {b}"), Box::new(move |k| k >= a && k < b))
            }
            2 => {
                let c = rng.range(1, 5);
                let sel: Vec<i64> = (0..c).map(|_| rng.below(n as u64) as i64).collect();
                (format!("k IN ({})", sel.iter().map(|x| x.to_string()).collect::<Vec<_>>().join(", ")), Box::new(move |k| sel.contains(&k)))
            }
            3 => {
                let a = rng.below(n as u64 / 2 + 1) as i64;
                (format!("k < {a}"), Box::new(move |k| k < a))
            }
            _ => {
                // a whole fragment's worth of the first rows
                let a = self.max_rows_per_file.min(1000) as i64 * rng.range(1, 2) as i64;
                (format!("k < {a} OR k = {}", n - 1), Box::new(move |k| k < a || k == n - 1))
            }
        }
    }

    pub async fn append(&mut self, rng: &mut Rng) -> Result<(), (bool, String)> {
        let n = rng.range(1, 12) as usize;
        let rows = self.fresh(n);
        let b = self.batch(&rows);
        let (schema, uri, params) = (self.schema(), self.uri.clone(), self.params(WriteMode::Append));
        self.hist.push(format!("append n={n}"));
        let ds = guarded(async move { Dataset::write(RecordBatchIterator::new(vec![Ok(b)], schema), &uri, Some(params)).await }).await?;
        self.ds = ds;
        self.expect.extend(rows);
        Ok(())
    }
    pub async fn delete(&mut self, rng: &mut Rng) -> Result<(), (bool, String)> {
        let (p, f) = self.pred(rng);
        self.hist.push(format!("delete {p}"));
        let mut ds = self.ds.clone();
        let ds = guarded(async move {
            ds.delete(&p).await?;
            Ok(ds)
        })
        .await?;
        self.ds = ds;
        let scope = self.scope.clone();
        self.expect.retain(|k, _| !(f(*k) && scope.as_ref().map(|s| s.contains(k)).unwrap_or(true)));
        Ok(())
    }
    pub async fn delete_where(&mut self, p: &str, f: impl Fn(i64) -> bool) -> Result<(), (bool, String)> {
        self.hist.push(format!("delete {p}"));
        let mut ds = self.ds.clone();
        let ps = p.to_string();
        let ds = guarded(async move {
            ds.delete(&ps).await?;
            Ok(ds)
        })
        .await?;
        self.ds = ds;
        self.expect.retain(|k, _| !f(*k));
        Ok(())
    }
    pub async fn update_where(&mut self, p: &str, f: impl Fn(i64) -> bool) -> Result<(), (bool, String)> {
        self.hist.push(format!("update x = x + 1 where {p}"));
        let ds = Arc::new(self.ds.clone());
        let ps = p.to_string();
        let res = guarded(async move { UpdateBuilder::new(ds).update_where(&ps)?.set("x", "x + 1")?.build()?.execute().await }).await?;
        self.ds = (*res.new_dataset).clone();
        for (k, x) in self.expect.iter_mut() {
            if f(*k) {
                *x += 1;
            }
        }
        Ok(())
    }
    pub async fn update(&mut self, rng: &mut Rng) -> Result<(), (bool, String)> {
        let (p, f) = self.pred(rng);
        self.hist.push(format!("update x = x + 1 where {p}"));
        let ds = Arc::new(self.ds.clone());
        let res = guarded(async move { UpdateBuilder::new(ds).update_where(&p)?.set("x", "x + 1")?.build()?.execute().await }).await?;
        self.ds = (*res.new_dataset).clone();
        let scope = self.scope.clone();
        for (k, x) in self.expect.iter_mut() {
            if f(*k) && scope.as_ref().map(|s| s.contains(k)).unwrap_or(true) {
                *x += 1;
            }
        }
        Ok(())
    }
    pub async fn merge_insert(&mut self, rng: &mut Rng) -> Result<(), (bool, String)> {
        let mut keys: Vec<i64> = vec![];
        let existing: Vec<i64> = self.expect.keys().cloned().collect();
        for _ in 0..rng.range(0, 6) {
            if !existing.is_empty() {
                let k = *rng.pick(&existing);
                if !keys.contains(&k) {
                    keys.push(k);
                }
            }
        }
        let n_new = rng.range(0, 4) as usize;
        let mut rows: Vec<(i64, i64)> = keys.iter().map(|k| (*k, 100000 + *k)).collect();
        rows.extend(self.fresh(n_new));
        if rows.is_empty() {
            rows = self.fresh(1);
        }
        self.hist.push(format!("merge_insert upsert keys={:?}", rows.iter().map(|r| r.0).collect::<Vec<_>>()));
        let b = self.batch(&rows);
        let schema = self.schema();
        let ds = Arc::new(self.ds.clone());
        let out = guarded(async move {
            let mut mb = MergeInsertBuilder::try_new(ds, vec!["k".to_string()])?;
            mb.when_matched(WhenMatched::UpdateAll).when_not_matched(WhenNotMatched::InsertAll);
            let (d, _) = mb.try_build()?.execute_reader(Box::new(RecordBatchIterator::new(vec![Ok(b)], schema))).await?;
            Ok(d)
        })
        .await?;
        self.ds = (*out).clone();
        self.expect.extend(rows);
        Ok(())
    }
    /// merge_insert whose source has only (k, x): matched rows get the new x (Update in RewriteColumns mode)
    pub async fn merge_update_columns(&mut self, rng: &mut Rng) -> Result<(), (bool, String)> {
        let existing: Vec<i64> = self.expect.keys().cloned().collect();
        let mut keys: Vec<i64> = vec![];
        for _ in 0..rng.range(1, 8) {
            if !existing.is_empty() {
                let k = *rng.pick(&existing);
                if !keys.contains(&k) {
                    keys.push(k);
                }
            }
        }
        if keys.is_empty() {
            return Ok(());
        }
        self.hist.push(format!("merge_insert (k,x) only, update matched, keys={keys:?}"));
        let schema = Arc::new(ArrowSchema::new(vec![Field::new("k", DataType::Int64, false), Field::new("x", DataType::Int64, true)]));
        let b = RecordBatch::try_new(schema.clone(), vec![Arc::new(Int64Array::from(keys.clone())), Arc::new(Int64Array::from(keys.iter().map(|k| 200000 + k).collect::<Vec<_>>()))]).unwrap();
        let ds = Arc::new(self.ds.clone());
        let out = guarded(async move {
            let mut mb = MergeInsertBuilder::try_new(ds, vec!["k".to_string()])?;
            mb.when_matched(WhenMatched::UpdateAll).when_not_matched(WhenNotMatched::DoNothing);
            let (d, _) = mb.try_build()?.execute_reader(Box::new(RecordBatchIterator::new(vec![Ok(b)], schema))).await?;
            Ok(d)
        })
        .await?;
        self.ds = (*out).clone();
        for k in keys {
            self.expect.insert(k, 200000 + k);
        }
        Ok(())
    }
    pub async fn overwrite(&mut self, rng: &mut Rng) -> Result<(), (bool, String)> {
        let n = rng.range(0, 14) as usize;
        self.overwrite_n(n).await
    }
    pub async fn overwrite_n(&mut self, n: usize) -> Result<(), (bool, String)> {
        self.extra.clear();
        let rows = self.fresh(n);
        let b = self.batch(&rows);
        let (schema, uri, params) = (self.schema(), self.uri.clone(), self.params(WriteMode::Overwrite));
        self.hist.push(format!("overwrite n={n}"));
        let ds = guarded(async move { Dataset::write(RecordBatchIterator::new(vec![Ok(b)], schema), &uri, Some(params)).await }).await?;
        self.ds = ds;
        self.expect = rows.into_iter().collect();
        self.indexed = false;
        Ok(())
    }
    pub async fn compact(&mut self, rng: &mut Rng) -> Result<(), (bool, String)> {
        let (a, b, c) = (*rng.pick(&[4usize, 8, 20, 64, 1024]), *rng.pick(&[0.0f32, 0.1, 0.5]), rng.chance(1, 4));
        self.compact_with(a, b, c && self.allow_deferred_remap).await
    }
    pub async fn compact_with(&mut self, target: usize, threshold: f32, defer: bool) -> Result<(), (bool, String)> {
        let opts = CompactionOptions { target_rows_per_fragment: target, materialize_deletions: true, materialize_deletions_threshold: threshold, defer_index_remap: defer, ..Default::default() };
        self.hist.push(format!("compact target_rows_per_fragment={} materialize_deletions_threshold={} defer_index_remap={}", opts.target_rows_per_fragment, opts.materialize_deletions_threshold, opts.defer_index_remap));
        let mut ds = self.ds.clone();
        let ds = guarded(async move {
            compact_files(&mut ds, opts, None).await?;
            Ok(ds)
        })
        .await?;
        self.ds = ds;
        if defer && self.stable {
            self.deferred_remap_on_stable = true;
        }
        Ok(())
    }
    pub async fn add_column(&mut self, rng: &mut Rng) -> Result<(), (bool, String)> {
        let name = format!("z{}", self.extra.len() + self.hist.len());
        let all_null = rng.chance(1, 4);
        self.hist.push(format!("add_columns {name} {}", if all_null { "all nulls" } else { "= k + 1" }));
        let mut ds = self.ds.clone();
        let nm = name.clone();
        let ds = guarded(async move {
            let tr = if all_null { NewColumnTransform::AllNulls(Arc::new(ArrowSchema::new(vec![Field::new(&nm, DataType::Int64, true)]))) } else { NewColumnTransform::SqlExpressions(vec![(nm.clone(), "k + 1".into())]) };
            ds.add_columns(tr, None, None).await?;
            Ok(ds)
        })
        .await?;
        self.ds = ds;
        self.extra.push(name);
        Ok(())
    }
    pub async fn drop_column(&mut self, rng: &mut Rng) -> Result<(), (bool, String)> {
        let name = if self.extra.is_empty() || rng.chance(1, 6) {
            // dropping a base column is not supported by the harness' batch generator: drop an extra one only
            if self.extra.is_empty() {
                return Ok(());
            }
            self.extra[0].clone()
        } else {
            rng.pick(&self.extra).clone()
        };
        self.hist.push(format!("drop_columns {name}"));
        let mut ds = self.ds.clone();
        let nm = name.clone();
        let ds = guarded(async move {
            ds.drop_columns(&[&nm]).await?;
            Ok(ds)
        })
        .await?;
        self.ds = ds;
        self.extra.retain(|e| *e != name);
        Ok(())
    }
    pub async fn restore(&mut self, rng: &mut Rng) -> Result<(), (bool, String)> {
        let latest = self.ds.version().version;
        let v = rng.range(1, latest);
        let Some((exp, extra)) = self.expect_at.get(&v).cloned() else { return Ok(()) };
        self.hist.push(format!("restore version {v}"));
        let ds = self.ds.clone();
        let ds = guarded(async move {
            let mut old = ds.checkout_version(v).await?;
            old.restore().await?;
            Ok(old)
        })
        .await?;
        self.ds = ds;
        self.expect = exp;
        self.extra = extra;
        Ok(())
    }
    pub async fn create_index(&mut self, _rng: &mut Rng) -> Result<(), (bool, String)> {
        self.hist.push("create_index BTree(x) replace".into());
        let mut ds = self.ds.clone();
        let ds = guarded(async move {
            ds.create_index(&["x"], IndexType::BTree, Some("x_idx".into()), &ScalarIndexParams::default(), true).await?;
            Ok(ds)
        })
        .await?;
        self.ds = ds;
        self.indexed = true;
        Ok(())
    }
    pub async fn optimize_indices(&mut self, _rng: &mut Rng) -> Result<(), (bool, String)> {
        self.hist.push("optimize_indices".into());
        let mut ds = self.ds.clone();
        let ds = guarded(async move {
            ds.optimize_indices(&OptimizeOptions::default()).await?;
            Ok(ds)
        })
        .await?;
        self.ds = ds;
        Ok(())
    }
    pub async fn update_config(&mut self, rng: &mut Rng) -> Result<(), (bool, String)> {
        let v = rng.below(100).to_string();
        self.hist.push(format!("update_config a={v}"));
        let mut ds = self.ds.clone();
        let ds = guarded(async move {
            ds.update_config([("a", v.as_str())]).await?;
            Ok(ds)
        })
        .await?;
        self.ds = ds;
        Ok(())
    }

    /// op B through a handle that has not seen op A (exercises the rebase path of commit_transaction)
    pub async fn stale_pair(&mut self, rng: &mut Rng) -> Result<(), (bool, String)> {
        let stale = self.ds.clone();
        let stale_keys: std::collections::BTreeSet<i64> = self.expect.keys().cloned().collect();
        let a = rng.below(4);
        let b = rng.below(3);
        self.hist.push(format!("-- concurrent: A={} then B={} from a handle at version {}", ["append", "delete", "update", "compact"][a as usize], ["append", "delete", "update"][b as usize], stale.version().version));
        match a {
            0 => self.append(rng).await?,
            1 => self.delete(rng).await?,
            2 => self.update(rng).await?,
            _ => self.compact(rng).await?,
        }
        let latest = self.ds.clone();
        let expect_before = self.expect.clone();
        let next_before = self.next_k;
        self.ds = stale;
        self.scope = Some(stale_keys);
        let r = match b {
            0 => self.append(rng).await,
            1 => self.delete(rng).await,
            _ => self.update(rng).await,
        };
        self.scope = None;
        match r {
            Ok(()) => {
                let mut d = self.ds.clone();
                d.checkout_latest().await.map_err(|e| (false, e.to_string()))?;
                self.ds = d;
                Ok(())
            }
            Err((false, msg)) => {
                // a retryable / incompatible conflict: nothing was committed by B
                self.hist.push(format!("   B refused: {}", msg.chars().take(120).collect::<String>()));
                self.ds = latest;
                self.expect = expect_before;
                let _ = next_before;
                Ok(())
            }
            Err(e) => {
                self.ds = latest;
                self.expect = expect_before;
                Err(e)
            }
        }
    }
}

// ---------------------------------------------------------------- reading a committed version back
/// make sure the storage facts (file lengths, deletion vectors) of these fragments are known to `ctx`
pub async fn load_facts(ctx: &mut Ctx, ds: &Dataset, frags: &[Fragment]) -> Result<(), String> {
    let dsa = Arc::new(ds.clone());
    for f in frags {
        for d in &f.files {
            let key = file_key(d);
            if ctx.file_rows.contains_key(&key) {
                continue;
            }
            let mut meta = Fragment::new(f.id);
            meta.files = vec![d.clone()];
            let ff = lance::dataset::fragment::FileFragment::new(dsa.clone(), meta);
            let rows = guarded(async move { ff.physical_rows().await }).await.map_err(|e| format!("cannot read length of data file {}: {}", d.path, e.1))?;
            ctx.file_rows.insert(key, rows as u64);
        }
        if let Some(d) = &f.deletion_file {
            let k = del_key(f.id, d);
            if ctx.del_rows.contains_key(&k) {
                continue;
            }
            let dv = read_deletion_file(f.id, d, &ds.branch_location().path, &ds.object_store).await.map_err(|e| format!("cannot read deletion file of fragment {}: {}", f.id, e))?;
            let mut rows: Vec<u64> = dv.iter().map(|x| x as u64).collect();
            rows.sort();
            ctx.del_rows.insert(k, rows);
        }
    }
    Ok(())
}

pub fn op_fragments(op: &Operation) -> Vec<Fragment> {
    match op {
        Operation::Append { fragments } | Operation::Overwrite { fragments, .. } | Operation::Merge { fragments, .. } => fragments.clone(),
        Operation::Delete { updated_fragments, .. } => updated_fragments.clone(),
        Operation::Update { updated_fragments, new_fragments, .. } => updated_fragments.iter().chain(new_fragments).cloned().collect(),
        Operation::Rewrite { groups, .. } => groups.iter().flat_map(|g| g.new_fragments.clone()).collect(),
        Operation::DataReplacement { replacements } => replacements
            .iter()
            .map(|r| {
                let mut f = Fragment::new(r.0);
                f.files = vec![r.1.clone()];
                f
            })
            .collect(),
        _ => vec![],
    }
}

/// load_indices on its own task (it can panic: `remap_fragment_bitmap(..).unwrap()`)
pub async fn load_idx(ds: &Dataset) -> Result<Arc<Vec<lance_table::format::IndexMetadata>>, String> {
    let d = ds.clone();
    guarded(async move { d.load_indices().await }).await.map_err(|(p, e)| format!("load_indices of version {} {}: {}", ds.version().version, if p { "PANICKED" } else { "failed" }, e))
}

pub struct Streams {
    pub wf: Stream,
    pub commit: Stream,
    pub create: Stream,
    pub restore: Stream,
    pub opok: Stream,
    pub dsvalidate: Stream,
}
impl Streams {
    pub fn new() -> Self {
        let mut s = Streams {
            wf: Stream::new("wf", REQ, "chk_wf", "Manifest", "bool"),
            commit: Stream::new("commit", REQ, "chk_commit", "Manifest * Operation * option fver", "Manifest"),
            create: Stream::new("create", REQ, "chk_create", "Operation * (bool * option fver)", "Manifest"),
            restore: Stream::new("restore", REQ, "chk_restore", "Manifest * Manifest", "Manifest"),
            opok: Stream::new("opok", REQ, "chk_op_ok", "option Manifest * Operation * bool", "bool"),
            dsvalidate: Stream::new("dsvalidate", REQ, "chk_dataset_validate", "Manifest", "bool"),
        };
        s.dsvalidate.shard = 200;
        s.wf.shard = 200;
        s.commit.shard = 100;
        s.create.shard = 200;
        s.restore.shard = 100;
        s.opok.shard = 200;
        s
    }
    pub fn add_to(self, sink: &mut Sink) {
        for s in [self.wf, self.commit, self.create, self.restore, self.opok, self.dsvalidate] {
            if !s.is_empty() {
                sink.add(s);
            }
        }
    }
}

pub struct Exported {
    pub version: u64,
    pub manifest: MManifest,
    pub prev: Option<MManifest>,
    pub op: Option<MOp>,
    pub tx_kind: String,
}

/// Read version `v` of the table back and push it to the streams.  Returns the exported manifest.
pub async fn export_version(ctx: &mut Ctx, t: &Tbl, v: u64, st: &mut Streams, sink: &mut Sink, prop: &str) -> Result<Exported, String> {
    let ds = t.ds.checkout_version(v).await.map_err(|e| format!("checkout {v}: {e}"))?;
    // the index section as written (build_manifest's output); `load_indices` additionally remaps the bitmaps
    // through the fragment-reuse index and is what build_manifest receives as current_indices (see `load_idx`)
    let idx = lance_table::io::manifest::read_manifest_indexes(&ds.object_store, ds.manifest_location(), &ds.manifest).await.map_err(|e| format!("index section of version {v}: {e}"))?;
    load_facts(ctx, &ds, &ds.manifest.fragments).await?;
    let m = conv_manifest(ctx, &ds.manifest, &idx);
    let hist = json!(t.hist);
    let tx: Option<Transaction> = ds.read_transaction().await.map_err(|e| format!("read_transaction {v}: {e}"))?;
    let Some(tx) = tx else { return Err(format!("version {v} has no transaction file")) };
    let tx_kind = tx.operation.to_string();
    sink.count(&format!("e2e:tx:{tx_kind}"));
    st.wf.push(m.coq(), "true".into(), json!({"history": hist, "version": v, "transaction": tx_kind, "manifest": m}));
    let storage = Some(m.storage.clone());
    let mut out = Exported { version: v, manifest: m.clone(), prev: None, op: None, tx_kind: tx_kind.clone() };
    if let Operation::Restore { version } = &tx.operation {
        let latest = t.ds.checkout_version(v - 1).await.map_err(|e| e.to_string())?;
        let li = load_idx(&latest).await?;
        load_facts(ctx, &latest, &latest.manifest.fragments).await?;
        let old = t.ds.checkout_version(*version).await.map_err(|e| e.to_string())?;
        let oi = load_idx(&old).await?;
        load_facts(ctx, &old, &old.manifest.fragments).await?;
        let ml = conv_manifest(ctx, &latest.manifest, &li);
        let mo = conv_manifest(ctx, &old.manifest, &oi);
        st.restore.push(format!("({}, {})", ml.coq(), mo.coq()), m.coq(), json!({"history": hist, "version": v, "restored": version}));
        out.prev = Some(ml);
        return Ok(out);
    }
    load_facts(ctx, &ds, &op_fragments(&tx.operation)).await?;
    let Some(op) = conv_op(ctx, &tx.operation) else {
        sink.count(&format!("e2e:tx-outside-model:{tx_kind}"));
        return Ok(out);
    };
    if v == 1 || ds.manifest.version == 1 {
        st.create.push(format!("({}, ({}, {}))", op.coq(), coq::b(t.stable), storage_opt_coq(&storage)), m.coq(), json!({"history": hist, "version": v, "operation": op, "manifest": m}));
        st.opok.push(format!("(None, {}, {})", op.coq(), coq::b(t.stable)), "true".into(), json!({"history": hist, "version": v, "operation": op}));
        out.op = Some(op);
        return Ok(out);
    }
    let prev = t.ds.checkout_version(v - 1).await.map_err(|e| e.to_string())?;
    let pi = load_idx(&prev).await?;
    load_facts(ctx, &prev, &prev.manifest.fragments).await?;
    let mp = conv_manifest(ctx, &prev.manifest, &pi);
    // transaction files do not record Rewrite.frag_reuse_index (dropped by the protobuf conversion): it is
    // recovered from the committed index section (a fragment-reuse index that the previous version did not have)
    let op = match op {
        MOp::Rewrite(g, r, None) => {
            let fri = m.indices.iter().find(|i| i.name == 0 && !mp.indices.iter().any(|j| j.uuid == i.uuid)).cloned();
            if fri.is_some() {
                sink.count("e2e:rewrite-with-frag-reuse-index");
            }
            MOp::Rewrite(g, r, fri)
        }
        o => o,
    };
    let sf = if matches!(op, MOp::Overwrite(..)) { storage.clone() } else { None };
    let recorded = if std::env::args().any(|a| a == "--plant") && st.commit.is_empty() {
        // sanity test of the check itself: record a wrong manifest once (next_row_id / version off by one)
        let mut w = m.clone();
        w.version += 1;
        w
    } else {
        m.clone()
    };
    st.commit.push(format!("({}, {}, {})", mp.coq(), op.coq(), storage_opt_coq(&sf)), recorded.coq(), json!({"history": hist, "version": v, "previous": mp, "operation": op, "manifest": m}));
    st.opok.push(format!("(Some {}, {}, {})", mp.coq(), op.coq(), coq::b(mp.next_row_id.is_some())), "true".into(), json!({"history": hist, "version": v, "previous": mp, "operation": op}));
    sink.nontrivial(&format!("{prop}:{}:{}", op.coq(), mp.coq()));
    out.prev = Some(mp);
    out.op = Some(op);
    Ok(out)
}

pub async fn scan_kx(ds: &Dataset) -> Result<BTreeMap<i64, i64>, (bool, String)> {
    let ds = ds.clone();
    guarded(async move {
        let mut sc = ds.scan();
        sc.project(&["k", "x"])?;
        let bs: Vec<RecordBatch> = sc.try_into_stream().await?.try_collect().await?;
        let mut out = BTreeMap::new();
        let mut n = 0usize;
        for b in bs {
            let k = b.column_by_name("k").unwrap().as_any().downcast_ref::<Int64Array>().unwrap().clone();
            let x = b.column_by_name("x").unwrap().as_any().downcast_ref::<Int64Array>().unwrap().clone();
            for i in 0..b.num_rows() {
                out.insert(k.value(i), if x.is_null(i) { i64::MIN } else { x.value(i) });
                n += 1;
            }
        }
        if n != out.len() {
            out.insert(i64::MIN, n as i64); // duplicate keys: make the comparison fail visibly
        }
        Ok(out)
    })
    .await
}

/// The direct oracles of C05 on the latest version.
pub async fn oracles_c05(t: &Tbl, m: &MManifest, st: &mut Streams, sink: &mut Sink) {
    let case = json!({"history": t.hist, "version": m.version});
    // 1. Dataset::validate(): must succeed on every committed version; its verdict is also compared with the
    //    model's transcription validate_dataset on the exported manifest (indices as load_indices returns them)
    let ds = t.ds.clone();
    let verdict = guarded(async move { ds.validate().await }).await;
    let fri_panic = matches!(&verdict, Err((true, e)) if e.contains("split of indexed and non-indexed"));
    match &verdict {
        Ok(()) => sink.oracle_ok(),
        Err((p, e)) => {
            let legacy_tombstone = m.fragments.iter().any(|f| f.files.iter().any(|d| d.ver.0 == 0 && d.ver.1 < 3 && d.fields.contains(&-2)));
            let class = if fri_panic && t.deferred_remap_on_stable {
                Some("stable_rowids_deferred_remap_unassigned_fragment_ids")
            } else if !*p && legacy_tombstone && e.contains("contained unsorted or duplicate field ids") {
                Some("validate_rejects_tombstone_in_legacy_file")
            } else {
                None
            };
            sink.oracle_fail(class, &format!("Dataset::validate() {} on a committed version: {}", if *p { "panicked" } else { "failed" }, e.chars().take(260).collect::<String>()), case.clone())
        }
    }
    if !fri_panic {
        if let Ok(idx) = load_idx(&t.ds).await {
            let mut ctx = Ctx::default();
            let mut m2 = m.clone();
            // same uuid / name tags are irrelevant for validate_dataset: only equality between them matters
            m2.indices = conv_indices(&mut ctx, &idx);
            st.dsvalidate.push(m2.coq(), coq::b(verdict.is_ok()), json!({"history": t.hist, "version": m.version, "validate_ok": verdict.is_ok(), "manifest": m2}));
        }
    }
    // 2. count_rows == sum over the exported manifest == the harness' own table
    let by_manifest: u64 = m.fragments.iter().map(|f| f.phys.unwrap_or(0) - f.deletion.as_ref().map(|d| d.rows.len() as u64).unwrap_or(0)).sum();
    let ds = t.ds.clone();
    match guarded(async move { ds.count_rows(None).await }).await {
        Ok(n) if n as u64 == by_manifest && n == t.expect.len() => sink.oracle_ok(),
        Ok(n) => sink.oracle_fail(None, &format!("count_rows = {n}, manifest says {by_manifest}, {} rows were written and not deleted", t.expect.len()), case.clone()),
        Err((_, e)) => sink.oracle_fail(None, &format!("count_rows failed: {e}"), case.clone()),
    }
    // 3. the version can be opened and fully read, and holds what was written
    match scan_kx(&t.ds).await {
        Ok(rows) if rows == t.expect => sink.oracle_ok(),
        Ok(rows) => {
            let diff: Vec<_> = t.expect.iter().filter(|(k, x)| rows.get(k) != Some(x)).take(5).collect();
            sink.oracle_fail(None, &format!("scan returns {} rows, expected {}; first differences {:?}", rows.len(), t.expect.len(), diff), case.clone())
        }
        Err((p, e)) => sink.oracle_fail(None, &format!("scan of a committed version {}: {e}", if p { "panicked" } else { "failed" }), case.clone()),
    }
    // 4. the statement of C05 on the exported manifest
    match wf_check(m) {
        Ok(()) => sink.oracle_ok(),
        Err(e) => sink.oracle_fail(None, &format!("committed manifest is not well formed: {e}"), json!({"history": t.hist, "version": m.version, "manifest": m})),
    }
}

/// Read back every version committed since the last call, push it to the streams, run the direct oracles on
/// the latest one.
pub async fn after_step(ctx: &mut Ctx, t: &mut Tbl, st: &mut Streams, sink: &mut Sink) {
    let latest = t.ds.version().version;
    let mut last = None;
    for v in (t.verified + 1)..=latest {
        match export_version(ctx, t, v, st, sink, "C05").await {
            Ok(e) => last = Some(e),
            Err(e) => {
                let class = if t.deferred_remap_on_stable && e.contains("split of indexed and non-indexed") { Some("stable_rowids_deferred_remap_unassigned_fragment_ids") } else { None };
                sink.oracle_fail(class, &format!("committed version {v} cannot be read back: {}", e.chars().take(260).collect::<String>()), json!({"history": t.hist, "version": v}))
            }
        }
    }
    t.verified = latest;
    t.expect_at.insert(latest, (t.expect.clone(), t.extra.clone()));
    if let Some(e) = last {
        oracles_c05(t, &e.manifest, st, sink).await;
    }
}

/// Fixed regression histories that run before the generated ones.
pub async fn corpus(st: &mut Streams, sink: &mut Sink) {
    // (1) former finding validate_rejects_tombstoned_field (repaired: /repo 77d5a8a): a partial-schema
    //     merge_insert leaves a tombstoned field in the old data file; validate() must accept that version
    {
        let mut ctx = Ctx::default();
        let mut t = Tbl::create_with(false, LanceFileVersion::V2_0, 1000, 3).await;
        after_step(&mut ctx, &mut t, st, sink).await;
        let mut rng = Rng::new(7);
        if let Err((p, e)) = t.merge_update_columns(&mut rng).await {
            sink.oracle_fail(None, &format!("corpus: partial-schema merge_insert {}: {e}", if p { "panicked" } else { "failed" }), json!({"history": t.hist}));
        }
        after_step(&mut ctx, &mut t, st, sink).await;
        sink.count("e2e:corpus:tombstoned-field-validates");
    }
    // (1b) known finding validate_rejects_tombstone_in_legacy_file: the same history on a legacy (0.1) table
    {
        let mut ctx = Ctx::default();
        let mut t = Tbl::create_with(false, LanceFileVersion::Legacy, 1000, 3).await;
        after_step(&mut ctx, &mut t, st, sink).await;
        let mut rng = Rng::new(7);
        if let Err((p, e)) = t.merge_update_columns(&mut rng).await {
            sink.oracle_fail(None, &format!("corpus: partial-schema merge_insert {}: {e}", if p { "panicked" } else { "failed" }), json!({"history": t.hist}));
        }
        after_step(&mut ctx, &mut t, st, sink).await;
        sink.count("e2e:corpus:tombstoned-field-in-legacy-file");
    }
    // (2) known finding stable_rowids_deferred_remap_unassigned_fragment_ids
    {
        let mut ctx = Ctx::default();
        let mut t = Tbl::create_with(true, LanceFileVersion::V2_1, 4, 15).await;
        after_step(&mut ctx, &mut t, st, sink).await;
        if let Err((p, e)) = t.compact_with(20, 0.1, true).await {
            sink.oracle_fail(None, &format!("corpus: compaction {}: {e}", if p { "panicked" } else { "failed" }), json!({"history": t.hist}));
        }
        after_step(&mut ctx, &mut t, st, sink).await;
        sink.count("e2e:corpus:deferred-remap-on-stable");
    }
}

pub const STEP_NAMES: [&str; 14] = ["append", "delete", "update", "merge_insert", "overwrite", "compact", "add_column", "drop_column", "restore", "create_index", "optimize_indices", "update_config", "stale_pair", "merge_update_columns"];

pub async fn step(t: &mut Tbl, rng: &mut Rng, which: usize) -> Result<(), (bool, String)> {
    match which {
        0 => t.append(rng).await,
        1 => t.delete(rng).await,
        2 => t.update(rng).await,
        3 => t.merge_insert(rng).await,
        4 => t.overwrite(rng).await,
        5 => t.compact(rng).await,
        6 => t.add_column(rng).await,
        7 => t.drop_column(rng).await,
        8 => t.restore(rng).await,
        9 => t.create_index(rng).await,
        10 => t.optimize_indices(rng).await,
        11 => t.update_config(rng).await,
        13 => t.merge_update_columns(rng).await,
        _ => t.stale_pair(rng).await,
    }
}

pub fn pick_step(rng: &mut Rng) -> usize {
    // weights: the data operations dominate
    *rng.pick(&[0usize, 0, 0, 1, 1, 1, 2, 2, 2, 3, 3, 4, 5, 5, 5, 6, 7, 8, 9, 10, 11, 12, 12, 12, 13, 13])
}

pub fn run_e2e(args: &Args, sink: &mut Sink, rng: &mut Rng) {
    let rt = tokio::runtime::Builder::new_multi_thread().worker_threads(4).enable_all().build().unwrap();
    let n_hist = args.vol(14, 160);
    let mut st = Streams::new();
    rt.block_on(async {
        corpus(&mut st, sink).await;
        for h in 0..n_hist {
            let mut ctx = Ctx::default();
            let stable = h % 2 == 1;
            let mut t = Tbl::create(rng, stable).await;
            let len = rng.range(4, 12);
            for s in 0..=len {
                if s > 0 {
                    let which = pick_step(rng);
                    sink.count(&format!("e2e:step:{}", STEP_NAMES[which]));
                    if let Err((p, e)) = step(&mut t, rng, which).await {
                        sink.count(&format!("e2e:step-{}:{}", if p { "panicked" } else { "refused" }, STEP_NAMES[which]));
                        t.hist.push(format!("   -> {}: {}", if p { "PANIC" } else { "error" }, e.chars().take(160).collect::<String>()));
                        // a failed operation commits nothing; resynchronise the harness' table with the latest version
                        let mut d = t.ds.clone();
                        if d.checkout_latest().await.is_ok() {
                            t.ds = d;
                        }
                        if let Ok(rows) = scan_kx(&t.ds).await {
                            t.expect = rows;
                        }
                    }
                }
                after_step(&mut ctx, &mut t, &mut st, sink).await;
            }
            sink.count(if stable { "e2e:history:stable-row-ids" } else { "e2e:history:plain" });
        }
    });
    st.add_to(sink);
    sink.notes.push(format!("e2e: {n_hist} histories of <= 12 steps, every committed version exported"));
}
