//! Unit correspondence: the REAL `Transaction::build_manifest` (through `lance::dataset::verif_hooks::build_manifest`)
//! and `validate_operation` on generated manifests / transactions, no I/O.  The result manifest is exported as a
//! canonical Coq term and compared with `Table.Model_Manifest.build_manifest` inside coqc.
//! Generators are structured: mostly well formed manifests and operations a writer could produce, with the
//! boundary choices the proof's side conditions name (id 0 sentinel, caller supplied ids, partial / complete /
//! excess row ids, missing physical_rows, duplicated updates, non contiguous / dangling rewrite groups, ...).
use crate::model::*;
use hxlib::util::{catch, coq, Args, Rng, Sink, Stream};
use lance::dataset::transaction::{validate_operation, DataReplacementGroup, Operation, RewriteGroup, RewrittenIndex, Transaction, UpdateMode};
use lance::dataset::verif_hooks::build_manifest;
use lance_core::datatypes::Schema;
use lance_file::version::LanceFileVersion;
use lance_table::format::{DataFile, DataStorageFormat, DeletionFile, DeletionFileType, Fragment, IndexMetadata, Manifest, RowDatasetVersionMeta, RowDatasetVersionRun, RowDatasetVersionSequence, RowIdMeta};
use lance_table::rowids::segment::U64Segment;
use lance_table::rowids::{write_row_ids, RowIdSequence};
use roaring::RoaringBitmap;
use serde_json::json;
use std::collections::HashMap;
use std::sync::Arc;

pub struct Gen<'a> {
    pub rng: &'a mut Rng,
    pub ctx: &'a mut Ctx,
    pub file_no: u64,
    pub del_no: u64,
    pub uuid_no: u128,
    /// false as soon as a deliberately inconsistent choice was made
    pub valid: bool,
    pub ver: (u32, u32),
}

pub fn lance_schema(ids: &[i32]) -> Schema {
    let a = arrow_schema::Schema::new(ids.iter().enumerate().map(|(i, _)| arrow_schema::Field::new(format!("c{i}"), arrow_schema::DataType::Int32, true)).collect::<Vec<_>>());
    let mut s = Schema::try_from(&a).unwrap();
    for (f, id) in s.fields.iter_mut().zip(ids) {
        f.id = *id;
    }
    s
}

pub fn row_id_meta(ids: &[u64]) -> RowIdMeta {
    RowIdMeta::Inline(write_row_ids(&RowIdSequence::from(ids)))
}

pub fn version_meta(vs: &[u64]) -> RowDatasetVersionMeta {
    let mut runs = vec![];
    let mut i = 0;
    while i < vs.len() {
        let mut j = i + 1;
        while j < vs.len() && vs[j] == vs[i] {
            j += 1;
        }
        runs.push(RowDatasetVersionRun { span: U64Segment::Range(i as u64..j as u64), version: vs[i] });
        i = j;
    }
    RowDatasetVersionMeta::from_sequence(&RowDatasetVersionSequence { runs }).unwrap()
}

impl<'a> Gen<'a> {
    fn odd(&mut self, num: u64, den: u64) -> bool {
        // a deliberately unusual choice
        self.rng.chance(num, den)
    }

    pub fn file(&mut self, fields: Vec<i32>, ver: (u32, u32), rows: u64) -> DataFile {
        self.file_no += 1;
        let path = format!("f{}.lance", self.file_no);
        let n = fields.len() as i32;
        let d = DataFile::new(path, fields, (0..n).collect(), ver.0, ver.1, None, None);
        self.ctx.file_rows.insert(file_key(&d), rows);
        d
    }

    fn deletion(&mut self, frag_id: u64, phys: u64, min: &[u64]) -> DeletionFile {
        self.del_no += 1;
        let mut rows: Vec<u64> = (0..phys).filter(|_| self.rng.chance(1, 3)).collect();
        for r in min {
            if !rows.contains(r) {
                rows.push(*r);
            }
        }
        if self.odd(1, 30) {
            self.valid = false;
            rows.push(phys + self.rng.below(2));
        }
        rows.sort();
        rows.dedup();
        let num = if self.rng.chance(1, 6) {
            None
        } else if self.odd(1, 40) {
            self.valid = false;
            Some(rows.len() + 1)
        } else if rows.is_empty() {
            None
        } else {
            Some(rows.len())
        };
        let d = DeletionFile { read_version: self.rng.below(5), id: self.del_no, file_type: if self.rng.bool() { DeletionFileType::Array } else { DeletionFileType::Bitmap }, num_deleted_rows: num, base_id: None };
        let _ = frag_id;
        self.ctx.del_rows.insert(del_key(u64::MAX, &d), rows);
        d
    }

    /// data files of one fragment covering `schema`
    fn files(&mut self, schema: &[i32], rows: u64) -> Vec<DataFile> {
        let ver = self.ver;
        let mut groups: Vec<Vec<i32>> = vec![];
        let k = self.rng.range(1, 3).min(schema.len().max(1) as u64) as usize;
        for _ in 0..k {
            groups.push(vec![]);
        }
        for (i, id) in schema.iter().enumerate() {
            let g = if i < k { i } else { self.rng.below(k as u64) as usize };
            groups[g].push(*id);
        }
        // a dropped column still present in the file; a tombstoned column rewritten into its own file
        if self.rng.chance(1, 6) {
            groups[0].push(40 + self.rng.below(3) as i32);
        }
        let mut extra: Vec<Vec<i32>> = vec![];
        if self.rng.chance(1, 5) && !groups[0].is_empty() {
            let i = self.rng.below(groups[0].len() as u64) as usize;
            let old = groups[0][i];
            groups[0][i] = -2;
            if self.rng.chance(3, 4) {
                extra.push(vec![old]);
            }
        }
        if self.odd(1, 25) && schema.len() > 1 {
            // the same field in two files
            self.valid = false;
            extra.push(vec![schema[0]]);
        }
        if self.rng.chance(1, 12) {
            extra.push(vec![-2]);
        }
        if self.odd(1, 40) {
            extra.push(vec![]);
        }
        let mut out = vec![];
        for g in groups.into_iter().chain(extra) {
            let r = if self.odd(1, 40) {
                self.valid = false;
                rows + 1
            } else {
                rows
            };
            let v = if self.odd(1, 50) { (2, 1 - ver.1.min(1)) } else { ver };
            out.push(self.file(g, v, r));
        }
        out
    }

    /// `row_ids`: None = no row id meta, Some(k) = the first k rows carry ids drawn from `next`
    fn fragment(&mut self, id: u64, schema: &[i32], rows: Option<u64>, row_ids: Option<Vec<u64>>, with_versions: bool) -> Fragment {
        let phys = rows.unwrap_or(3);
        let mut f = Fragment::new(id);
        f.physical_rows = rows.map(|r| r as usize);
        f.files = self.files(schema, phys);
        if self.rng.chance(1, 3) {
            f.deletion_file = Some(self.deletion(id, phys, &[]));
        }
        if let Some(ids) = &row_ids {
            f.row_id_meta = Some(row_id_meta(ids));
            if with_versions && self.rng.chance(4, 5) {
                let n = if self.odd(1, 30) { phys + 1 } else { phys };
                let c: Vec<u64> = (0..n).map(|i| 1 + (i / 2) % 3).collect();
                let u: Vec<u64> = (0..n).map(|_| 1 + self.rng.below(4)).collect();
                f.created_at_version_meta = Some(version_meta(&c));
                f.last_updated_at_version_meta = Some(version_meta(&u));
            }
        }
        f
    }

    fn rows(&mut self) -> Option<u64> {
        if self.odd(1, 30) {
            None
        } else {
            Some(*self.rng.pick(&[0u64, 1, 2, 3, 3, 4, 5, 6]))
        }
    }

    pub fn index(&mut self, schema: &[i32], frag_ids: &[u64], name: Option<&str>) -> IndexMetadata {
        self.uuid_no += 1;
        let names = ["ia", "ib", "ic"];
        let name = name.map(|s| s.to_string()).unwrap_or_else(|| self.rng.pick(&names).to_string());
        let mut fields: Vec<i32> = vec![];
        if !schema.is_empty() {
            fields.push(*self.rng.pick(schema));
        }
        if self.rng.chance(1, 5) {
            fields.push(40 + self.rng.below(3) as i32); // a dropped column
        }
        if self.odd(1, 40) {
            fields.insert(0, -1);
        }
        let bitmap = if self.rng.chance(1, 8) {
            None
        } else {
            let mut b = RoaringBitmap::new();
            for id in frag_ids {
                if self.rng.chance(2, 3) {
                    b.insert(*id as u32);
                }
            }
            if self.rng.chance(1, 4) {
                b.insert(90 + self.rng.below(3) as u32); // a fragment that no longer exists
            }
            Some(b)
        };
        let details = match self.rng.below(4) {
            0 => None,
            1 => Some(Arc::new(prost_types::Any { type_url: "/lance.table.VectorIndexDetails".into(), value: vec![] })),
            _ => Some(Arc::new(prost_types::Any { type_url: "/lance.table.BTreeIndexDetails".into(), value: vec![] })),
        };
        IndexMetadata { uuid: uuid::Uuid::from_u128(self.uuid_no), fields, name, dataset_version: self.rng.below(4), fragment_bitmap: bitmap, index_details: details, index_version: 0, created_at: None, base_id: None }
    }

    pub fn schema_ids(&mut self) -> Vec<i32> {
        let c: [&[i32]; 6] = [&[0, 1, 2], &[0, 1, 2, 3], &[0, 2, 5], &[1], &[3, 1, 0], &[0, 1]];
        let mut s = self.rng.pick(&c).to_vec();
        if self.odd(1, 40) {
            self.valid = false;
            s.push(s[0]);
        }
        s
    }

    /// a table state: (manifest, its indices, the row ids handed out so far)
    pub fn manifest(&mut self, stable: bool) -> (Manifest, Vec<IndexMetadata>) {
        let schema = self.schema_ids();
        let storage = match self.rng.below(6) {
            0 => LanceFileVersion::Legacy,
            1 | 2 => LanceFileVersion::V2_1,
            _ => LanceFileVersion::V2_0,
        };
        self.ver = storage.to_numbers();
        let nfrag = *self.rng.pick(&[0usize, 1, 2, 3, 3, 4]);
        let mut frags = vec![];
        let mut id = if self.rng.chance(1, 3) { self.rng.below(3) } else { 0 };
        let mut next = self.rng.below(3);
        let shuffled = self.rng.chance(1, 4);
        for _ in 0..nfrag {
            let rows = self.rows();
            let row_ids = if stable {
                let n = rows.unwrap_or(3);
                let mut ids: Vec<u64> = (next..next + n).collect();
                next += n + self.rng.below(2);
                if shuffled && ids.len() > 1 {
                    ids.reverse();
                    let k = self.rng.below(ids.len() as u64) as usize;
                    ids.swap(0, k);
                }
                if self.odd(1, 40) && !ids.is_empty() {
                    self.valid = false;
                    ids.pop();
                }
                Some(ids)
            } else {
                None
            };
            frags.push(self.fragment(id, &schema, rows, row_ids, true));
            id += 1 + if self.rng.chance(1, 4) { self.rng.below(3) } else { 0 };
        }
        if self.odd(1, 40) && frags.len() > 1 {
            // unsorted / duplicated ids
            self.valid = false;
            frags[0].id = frags[1].id;
        }
        for f in frags.iter_mut() {
            // Manifest::new itself computes len - num_deleted_rows: keep the generated state constructible
            if let (Some(p), Some(d)) = (f.physical_rows, f.deletion_file.as_mut()) {
                if d.num_deleted_rows.map(|n| n > p).unwrap_or(false) {
                    d.num_deleted_rows = Some(p);
                }
            }
        }
        let max_id = frags.iter().map(|f| f.id).max();
        let ids: Vec<u64> = frags.iter().map(|f| f.id).collect();
        let mut m = Manifest::new(lance_schema(&schema), Arc::new(frags), DataStorageFormat::new(storage), HashMap::new());
        m.version = self.rng.range(1, 6);
        m.max_fragment_id = match self.rng.below(8) {
            0 => None,
            1 if max_id.unwrap_or(0) > 0 && self.odd(1, 3) => {
                self.valid = false;
                Some(max_id.unwrap() as u32 - 1)
            }
            2 | 3 => Some(max_id.unwrap_or(0) as u32 + self.rng.range(1, 3) as u32),
            _ => max_id.map(|x| x as u32),
        };
        if m.max_fragment_id.is_none() && max_id.is_some() {
            self.valid = false; // a pre-max_fragment_id manifest: legal for the implementation, not what it writes
        }
        if stable {
            m.reader_feature_flags |= 2;
            m.writer_feature_flags |= 2;
            m.next_row_id = next + self.rng.below(3);
        }
        let n_idx = *self.rng.pick(&[0usize, 0, 1, 2, 3]);
        let mut indices = vec![];
        for _ in 0..n_idx {
            let sys = match self.rng.below(12) {
                0 => Some(lance_index::frag_reuse::FRAG_REUSE_INDEX_NAME),
                1 => Some(lance_index::mem_wal::MEM_WAL_INDEX_NAME),
                _ => None,
            };
            indices.push(self.index(&schema, &ids, sys));
        }
        (m, indices)
    }

    fn new_fragments(&mut self, m: Option<&Manifest>, schema: &[i32], stable: bool, carried: &mut Vec<u64>) -> Vec<Fragment> {
        let n = *self.rng.pick(&[0usize, 1, 1, 2, 3]);
        let mut out = vec![];
        for _ in 0..n {
            let rows = self.rows();
            let p = rows.unwrap_or(3);
            let row_ids = if stable || self.odd(1, 20) {
                match self.rng.below(6) {
                    0 | 1 | 2 => None,
                    3 => {
                        // partial: ids carried over from rewritten rows
                        let k = self.rng.below(p + 1);
                        let ids: Vec<u64> = (0..k).filter_map(|_| carried.pop()).collect();
                        Some(ids)
                    }
                    4 => {
                        let ids: Vec<u64> = (0..p).filter_map(|_| carried.pop()).collect();
                        Some(ids)
                    }
                    _ => {
                        if self.odd(1, 3) {
                            Some((1000..1000 + p + 1).collect()) // more ids than rows
                        } else {
                            Some((1000..1000 + p).collect())
                        }
                    }
                }
            } else {
                None
            };
            let id = if self.odd(1, 12) {
                // caller supplied id
                let base = m.and_then(|m| m.max_fragment_id()).unwrap_or(0);
                match self.rng.below(3) {
                    0 => base + 1 + self.rng.below(2),
                    1 => m.and_then(|m| m.fragments.first().map(|f| f.id)).unwrap_or(7),
                    _ => base + 5,
                }
            } else {
                0
            };
            let wv = self.rng.chance(1, 3);
            let mut f = self.fragment(id, schema, rows, row_ids, wv);
            if self.rng.chance(3, 4) {
                f.deletion_file = None;
            }
            out.push(f);
        }
        out
    }

    fn updated(&mut self, f: &Fragment) -> Fragment {
        let mut u = f.clone();
        let phys = f.physical_rows.unwrap_or(3) as u64;
        let old: Vec<u64> = f.deletion_file.as_ref().map(|d| self.ctx.del_rows[&del_key(u64::MAX, d)].clone()).unwrap_or_default();
        u.deletion_file = Some(self.deletion(f.id, phys, &old));
        u
    }

    pub fn operation(&mut self, cur: Option<&(Manifest, Vec<IndexMetadata>)>, stable: bool) -> Operation {
        let m = cur.map(|c| &c.0);
        let schema: Vec<i32> = m.map(|m| schema_ids(&m.schema)).unwrap_or_else(|| vec![0, 1, 2]);
        let frags: Vec<Fragment> = m.map(|m| m.fragments.as_ref().clone()).unwrap_or_default();
        let ids: Vec<u64> = frags.iter().map(|f| f.id).collect();
        let mut carried: Vec<u64> = frags.iter().flat_map(|f| f.row_id_meta.as_ref().map(decode_row_ids).unwrap_or_default()).collect();
        if self.rng.bool() {
            carried.reverse();
        }
        let kind = if cur.is_none() { *self.rng.pick(&[2u64, 2, 2, 2, 0, 9, 6]) } else { self.rng.below(11) };
        match kind {
            0 => Operation::Append { fragments: self.new_fragments(m, &schema, stable, &mut vec![]) },
            1 => {
                let mut updated = vec![];
                let mut deleted = vec![];
                for f in &frags {
                    match self.rng.below(4) {
                        0 => updated.push(self.updated(f)),
                        1 => deleted.push(f.id),
                        _ => {}
                    }
                }
                if self.rng.chance(1, 8) && !updated.is_empty() {
                    let again = self.updated(&updated[0].clone());
                    updated.push(again);
                }
                if self.rng.chance(1, 10) {
                    deleted.push(77);
                }
                Operation::Delete { updated_fragments: updated, deleted_fragment_ids: deleted, predicate: "p".into() }
            }
            2 => {
                let s = if self.rng.chance(1, 3) { self.schema_ids() } else { schema.clone() };
                if cur.is_none() {
                    let storage = *self.rng.pick(&[LanceFileVersion::V2_0, LanceFileVersion::V2_0, LanceFileVersion::V2_1, LanceFileVersion::Legacy]);
                    self.ver = storage.to_numbers();
                }
                let with_m = self.rng.chance(1, 3);
                Operation::Overwrite { fragments: self.new_fragments(if with_m { m } else { None }, &s, stable, &mut vec![]), schema: lance_schema(&s), config_upsert_values: if self.rng.chance(1, 5) { Some(HashMap::from([("k".to_string(), "v".to_string())])) } else { None }, initial_bases: None }
            }
            3 => {
                let n = self.rng.range(1, 2);
                let new_indices: Vec<IndexMetadata> = (0..n).map(|_| self.index(&schema, &ids, None)).collect();
                let removed: Vec<IndexMetadata> = cur.map(|c| c.1.iter().filter(|_| self.rng.chance(1, 3)).cloned().collect()).unwrap_or_default();
                Operation::CreateIndex { new_indices, removed_indices: removed }
            }
            4 => {
                // Rewrite
                let mut groups = vec![];
                let mut pos = 0usize;
                let ng = self.rng.range(1, 2);
                let base = m.and_then(|m| m.max_fragment_id()).unwrap_or(0);
                let mut reserved = base.saturating_sub(1);
                for _ in 0..ng {
                    if frags.is_empty() {
                        break;
                    }
                    let start = pos + self.rng.below(2) as usize;
                    if start >= frags.len() {
                        break;
                    }
                    let len = self.rng.range(1, 2) as usize;
                    let mut old: Vec<Fragment> = frags[start..(start + len).min(frags.len())].to_vec();
                    pos = start + len;
                    match self.rng.below(12) {
                        0 if frags.len() > start + 2 => old = vec![frags[start].clone(), frags[start + 2].clone()], // not contiguous
                        1 => old.push(Fragment::new(55)),                                                         // runs past / dangling
                        2 => old[0] = Fragment::new(66),                                                          // first one missing
                        3 => old.clear(),
                        _ => {}
                    }
                    let live: Vec<u64> = old.iter().flat_map(|f| f.row_id_meta.as_ref().map(decode_row_ids).unwrap_or_default()).collect();
                    let nn = self.rng.range(0, 2);
                    let mut new = vec![];
                    let mut off = 0usize;
                    for i in 0..nn {
                        let rows = if i + 1 == nn { (live.len() - off) as u64 } else { (live.len() - off) as u64 / 2 };
                        let rids = if stable { Some(live[off..off + rows as usize].to_vec()) } else { None };
                        off += rows as usize;
                        let id = match self.rng.below(4) {
                            0 => {
                                reserved += 1;
                                reserved
                            }
                            _ => 0,
                        };
                        let rows = if stable { rows } else { self.rows().unwrap_or(2) };
                        let mut f = self.fragment(id, &schema, Some(rows), rids, true);
                        f.deletion_file = None;
                        new.push(f);
                    }
                    groups.push(RewriteGroup { old_fragments: old, new_fragments: new });
                }
                let rewritten: Vec<RewrittenIndex> = cur
                    .map(|c| {
                        c.1.iter()
                            .filter(|_| self.rng.chance(if stable { 1 } else { 3 }, 6))
                            .map(|i| {
                                self.uuid_no += 1;
                                RewrittenIndex { old_id: i.uuid, new_id: uuid::Uuid::from_u128(self.uuid_no), new_index_details: prost_types::Any { type_url: "x".into(), value: vec![] }, new_index_version: 0 }
                            })
                            .collect()
                    })
                    .unwrap_or_default();
                let mut rewritten = rewritten;
                if self.odd(1, 15) && !rewritten.is_empty() {
                    rewritten.push(rewritten[0].clone());
                }
                if self.odd(1, 15) {
                    self.uuid_no += 2;
                    rewritten.push(RewrittenIndex { old_id: uuid::Uuid::from_u128(self.uuid_no - 1), new_id: uuid::Uuid::from_u128(self.uuid_no), new_index_details: prost_types::Any { type_url: "x".into(), value: vec![] }, new_index_version: 0 });
                }
                let fri = if self.rng.chance(1, 4) { Some(self.index(&[], &ids, Some(lance_index::frag_reuse::FRAG_REUSE_INDEX_NAME))) } else { None };
                Operation::Rewrite { groups, rewritten_indices: rewritten, frag_reuse_index: fri }
            }
            5 => {
                // DataReplacement
                let mut repl = vec![];
                let newcol = 20 + self.rng.below(2) as i32;
                let target_fields: Option<Vec<i32>> = frags.first().and_then(|f| f.files.first().map(|d| d.fields.clone()));
                let mode = self.rng.below(5);
                for f in &frags {
                    if self.rng.chance(1, 3) {
                        continue;
                    }
                    let rows = f.physical_rows.unwrap_or(3) as u64;
                    let fields = match mode {
                        0 | 1 => target_fields.clone().unwrap_or(vec![newcol]),
                        2 => vec![newcol],
                        3 => f.files.last().map(|d| d.fields.clone()).unwrap_or(vec![newcol]),
                        _ => vec![],
                    };
                    let ver = if self.odd(1, 12) { (0, 3) } else if self.odd(1, 20) { (7, 7) } else { f.files.first().map(|d| (d.file_major_version, d.file_minor_version)).unwrap_or(self.ver) };
                    let nf = self.file(fields, ver, rows);
                    repl.push(DataReplacementGroup(f.id, nf));
                }
                if self.rng.chance(1, 10) {
                    let nf = self.file(target_fields.clone().unwrap_or(vec![newcol]), self.ver, 3);
                    repl.push(DataReplacementGroup(88, nf));
                }
                if self.rng.chance(1, 10) && !repl.is_empty() {
                    repl.push(repl[0].clone());
                }
                Operation::DataReplacement { replacements: repl }
            }
            6 => {
                // Merge: the final fragment list with one more column, or fewer
                let mut s = schema.clone();
                let add = self.rng.chance(2, 3);
                let newcol = 30 + self.rng.below(2) as i32;
                if add {
                    s.push(newcol);
                } else if s.len() > 1 {
                    s.pop();
                }
                let mut out = vec![];
                for f in &frags {
                    if self.rng.chance(1, 12) {
                        continue; // a fragment goes missing
                    }
                    let mut g = f.clone();
                    if add {
                        let rows = f.physical_rows.unwrap_or(3) as u64;
                        let v = f.files.first().map(|d| (d.file_major_version, d.file_minor_version)).unwrap_or(self.ver);
                        g.files.push(self.file(vec![newcol], v, rows));
                    }
                    if self.odd(1, 20) {
                        g.physical_rows = Some(g.physical_rows.unwrap_or(0) + 1);
                    }
                    out.push(g);
                }
                if self.rng.chance(1, 8) {
                    let base = m.and_then(|m| m.max_fragment_id()).unwrap_or(0);
                    let rids = if stable { Some(vec![]) } else { None };
                    out.push(self.fragment(base + 1, &s, Some(0), rids, false));
                }
                if self.rng.chance(1, 10) {
                    out.reverse();
                }
                Operation::Merge { fragments: out, schema: lance_schema(&s) }
            }
            7 => {
                let huge = self.odd(1, 20);
                let n = self.rng.below(5) as u32;
                Operation::ReserveFragments { num_fragments: if huge { u32::MAX } else { n } }
            }
            8 => {
                // Update
                let mut updated = vec![];
                let mut removed = vec![];
                let columns = self.rng.chance(1, 3);
                for f in &frags {
                    match self.rng.below(4) {
                        0 => {
                            let mut u = self.updated(f);
                            if columns && !u.files.is_empty() && !u.files[0].fields.is_empty() {
                                // RewriteColumns: tombstone a column and add a file carrying it
                                let old = u.files[0].fields[0];
                                if old >= 0 {
                                    u.files[0].fields[0] = -2;
                                    let v = (u.files[0].file_major_version, u.files[0].file_minor_version);
                                    let rows = f.physical_rows.unwrap_or(3) as u64;
                                    let nf = self.file(vec![old], v, rows);
                                    u.files.push(nf);
                                }
                            }
                            updated.push(u)
                        }
                        1 => removed.push(f.id),
                        _ => {}
                    }
                }
                if self.rng.chance(1, 8) && !updated.is_empty() {
                    let again = self.updated(&updated[0].clone());
                    updated.push(again);
                }
                let new = if columns { vec![] } else { self.new_fragments(m, &schema, stable, &mut carried) };
                let pick = |g: &mut Gen| -> Vec<u32> { schema.iter().filter(|_| g.rng.chance(1, 3)).map(|x| *x as u32).collect() };
                let fields_modified = if columns || self.rng.chance(1, 4) { pick(self) } else { vec![] };
                let preserving = pick(self);
                Operation::Update { removed_fragment_ids: removed, updated_fragments: updated, new_fragments: new, fields_modified, mem_wal_to_merge: None, fields_for_preserving_frag_bitmap: preserving, update_mode: match self.rng.below(3) {
                    0 => None,
                    1 => Some(UpdateMode::RewriteRows),
                    _ => Some(UpdateMode::RewriteColumns),
                } }
            }
            9 => {
                let mut s: Vec<i32> = schema.iter().filter(|_| self.rng.chance(2, 3)).cloned().collect();
                if self.rng.chance(1, 6) {
                    s.reverse();
                }
                if self.rng.chance(1, 8) {
                    s.push(41);
                }
                Operation::Project { schema: lance_schema(&s) }
            }
            _ => Operation::UpdateConfig { config_updates: None, table_metadata_updates: None, schema_metadata_updates: None, field_metadata_updates: HashMap::new() },
        }
    }
}

pub fn run_unit(args: &Args, sink: &mut Sink, rng: &mut Rng, ctx: &mut Ctx) {
    let mut sb = Stream::new("build", REQ, "chk_build", "option Manifest * Operation * (bool * option fver)", "outcome Manifest");
    let mut sv = Stream::new("validate", REQ, "chk_validate", "option Manifest * Operation", "bool");
    sb.shard = 150;
    sv.shard = 300;
    let n = args.vol(900, 12000);
    let mut planted = false;
    for case in 0..n {
        let stable = rng.chance(1, 2);
        let mut g = Gen { rng, ctx, file_no: case as u64 * 1000, del_no: case as u64 * 1000, uuid_no: case as u128 * 1000, valid: true, ver: (2, 0) };
        let cur = if g.rng.chance(1, 9) { None } else { Some(g.manifest(stable)) };
        let state_valid = g.valid;
        let op = g.operation(cur.as_ref(), stable);
        let valid = g.valid;
        let cfg_stable = if g.rng.chance(1, 10) { !stable } else { stable };
        let cfg_storage = match g.rng.below(8) {
            0 => Some(LanceFileVersion::V2_0),
            1 => Some(LanceFileVersion::V2_1),
            2 if cur.is_none() => Some(LanceFileVersion::Legacy),
            _ => None,
        };
        drop(g);
        let tx = Transaction::new(cur.as_ref().map(|c| c.0.version).unwrap_or(0), op.clone(), None);
        let cur_m = cur.as_ref().map(|c| &c.0);
        let idx = cur.as_ref().map(|c| c.1.clone()).unwrap_or_default();
        let res = catch(|| build_manifest(&tx, cur_m, idx.clone(), "tx", cfg_stable, cfg_storage.map(DataStorageFormat::new)));
        let val = validate_operation(cur_m, &op).is_ok();
        let m_in = cur.as_ref().map(|c| conv_manifest(ctx, &c.0, &c.1));
        let Some(m_op) = conv_op(ctx, &op) else { continue };
        let mut out: Result<MManifest, bool> = match &res {
            Ok(Ok((m, i))) => Ok(conv_manifest(ctx, m, i)),
            Ok(Err(_)) => Err(false),
            Err(_) => Err(true),
        };
        let kind = m_op.kind();
        // sanity test of the check itself (`--plant`): record a wrong implementation output once
        if args.rest.iter().any(|a| a == "--plant") && !planted {
            if let Ok(m) = out.as_mut() {
                m.max_fragment_id = Some(m.max_fragment_id.unwrap_or(0) + 1);
                planted = true;
            }
        }
        sink.count(&format!("unit:{}:{}", kind, match &out {
            Ok(_) => "ok",
            Err(false) => "err",
            Err(true) => "panic",
        }));
        if cur.is_none() {
            sink.count("unit:create");
        }
        // direct oracle: a well formed state + an operation a writer could have produced, accepted by the
        // validation, must give a well formed manifest (checked by the Rust restatement, not by the model)
        if let Ok(mo) = &out {
            let in_ok = state_valid && m_in.as_ref().map(|m| wf_check(m).is_ok()).unwrap_or(true);
            if in_ok && valid && val && cfg_stable == stable && op_plausible(m_in.as_ref(), &m_op, stable) {
                match wf_check(mo) {
                    Ok(()) => sink.oracle_ok(),
                    Err(e) => sink.oracle_fail(None, &format!("build_manifest produced an ill formed manifest from a well formed one: {e}"), json!({"kind": kind, "manifest": m_in, "operation": m_op, "result": mo})),
                }
                sink.count("unit:oracle-wf-checked");
            }
        }
        let input = format!("({}, {}, ({}, {}))", coq::opt(m_in.as_ref().map(|m| m.coq())), m_op.coq(), coq::b(cfg_stable), coq::opt(cfg_storage.map(fver_name)));
        sink.nontrivial(&input);
        let human = json!({"kind": kind, "cfg_stable": cfg_stable, "cfg_storage": cfg_storage.map(fver_name), "manifest": m_in, "operation": m_op, "result": match &out { Ok(m) => json!(m), Err(false) => json!("Err"), Err(true) => json!("Panic") }});
        sb.push(input, coq::outcome(&out.as_ref().map(|m| m.coq()).map_err(|e| *e)), human);
        sv.push(format!("({}, {})", coq::opt(m_in.as_ref().map(|m| m.coq())), m_op.coq()), coq::b(val), json!({"kind": kind, "manifest": m_in, "operation": m_op, "validate_ok": val}));
    }
    sink.add(sb);
    sink.add(sv);
}

/// The side conditions of C05_build_preserves_wf that are about the operation (what the writers guarantee),
/// restated on the Rust side for the unit oracle only (the Coq predicate `op_ok` is the reference).
pub fn op_plausible(m: Option<&MManifest>, op: &MOp, stable: bool) -> bool {
    let frag_ok = |f: &MFrag, complete: bool| -> bool {
        let Some(p) = f.phys else { return false };
        let mut seen = std::collections::BTreeSet::new();
        for d in &f.files {
            if d.rows != p {
                return false;
            }
            for x in &d.fields {
                if *x != -2 && !seen.insert(*x) {
                    return false;
                }
            }
        }
        if let Some(d) = &f.deletion {
            if d.rows.iter().any(|r| *r >= p) || d.num.map(|n| n != d.rows.len() as u64).unwrap_or(false) {
                return false;
            }
        }
        let vers_ok = |v: &Option<Vec<u64>>| v.as_ref().map(|v| v.len() as u64 == p).unwrap_or(true);
        match &f.row_ids {
            None => !(complete && stable) && (!complete || (vers_ok(&f.created_at) && vers_ok(&f.updated_at))),
            Some(ids) => stable && if complete { ids.len() as u64 == p && vers_ok(&f.created_at) && vers_ok(&f.updated_at) } else { ids.len() as u64 <= p },
        }
    };
    let existing: Vec<u64> = m.map(|m| m.fragments.iter().map(|f| f.id).collect()).unwrap_or_default();
    let unassigned = |l: &[MFrag]| l.iter().all(|f| f.id == 0);
    let nodup = |l: &[i32]| l.iter().collect::<std::collections::BTreeSet<_>>().len() == l.len() && l.iter().all(|x| *x >= 0);
    match op {
        MOp::Append(f) => unassigned(f) && f.iter().all(|f| frag_ok(f, false)),
        MOp::Overwrite(f, s, _) => unassigned(f) && f.iter().all(|f| frag_ok(f, false)) && nodup(s),
        MOp::Delete(u, _) => u.iter().all(|f| frag_ok(f, true)),
        MOp::Update { updated, new, .. } => updated.iter().all(|f| frag_ok(f, true)) && unassigned(new) && new.iter().all(|f| frag_ok(f, false)),
        MOp::Rewrite(g, ..) => {
            let mx = m.and_then(|m| m.max_fragment_id).unwrap_or(0);
            let mut seen = std::collections::BTreeSet::new();
            g.iter().all(|g| g.new.iter().all(|f| frag_ok(f, true) && (f.id == 0 || (!existing.contains(&f.id) && f.id <= mx && seen.insert(f.id)))))
        }
        MOp::Merge(f, s) => {
            let ids: std::collections::BTreeSet<u64> = f.iter().map(|f| f.id).collect();
            ids.len() == f.len() && f.iter().all(|f| frag_ok(f, true)) && nodup(s)
        }
        MOp::Project(s) => nodup(s),
        MOp::DataReplacement(r) => {
            let ids: std::collections::BTreeSet<u64> = r.iter().map(|x| x.0).collect();
            ids.len() == r.len()
                && r.iter().all(|(id, d)| {
                    m.and_then(|m| m.fragments.iter().find(|f| f.id == *id)).map(|f| Some(d.rows) == f.phys).unwrap_or(false) && d.fields.iter().filter(|x| **x != -2).collect::<std::collections::BTreeSet<_>>().len() == d.fields.iter().filter(|x| **x != -2).count()
                })
        }
        MOp::CreateIndex(n, _) => m.map(|m| n.iter().all(|i| i.name < 2 || i.fields.iter().all(|x| m.schema.contains(x)))).unwrap_or(false),
        MOp::ReserveFragments(_) | MOp::UpdateConfig => true,
    }
}
