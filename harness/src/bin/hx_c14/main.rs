//! hx_c14: property C14 "schema evolution preserves untouched data".
//! e2e (the main detector): random temp-dir histories of add_columns (SQL expression, all-null, batch UDF),
//! Dataset::merge (key join, NULL where no match), alter_columns (rename, nullability, cast), drop_columns -
//! re-using dropped names - interleaved with append, delete and compact_files.  Direct oracle after every step:
//! the full scan equals the harness' own table (every column that the step did not name keeps its cells, added
//! columns hold exactly the requested values, a re-added name shows only the new values), field ids of
//! `schema()` are pairwise distinct.  Correspondence: every committed schema operation is exported as
//! (table before, operation, table after) and compared with Table/Model_Evolve.apply_op; Manifest::max_field_id
//! against the model's.  One handle per table: no concurrent writers (finding F14 / C03 is kept out).
//! `--plant evolve|oracle` records a wrong output once (sanity test of the check).
use arrow_array::{Array, Int32Array, Int64Array, RecordBatch, RecordBatchIterator, StringArray};
use arrow_schema::{DataType, Field, Schema as ArrowSchema};
use futures::TryStreamExt;
use hxlib::util::{coq, Args, Rng, Sink, Stream};
use lance::dataset::optimize::{compact_files, CompactionOptions};
use lance::dataset::{BatchUDF, ColumnAlteration, NewColumnTransform, WriteMode, WriteParams};
use lance::Dataset;
use lance_file::version::LanceFileVersion;
use serde_json::json;
use std::collections::{BTreeMap, BTreeSet, HashMap};
use std::future::Future;
use std::sync::Arc;

const REQ: &str = "Common.Base Table.Model_Evolve";

async fn guarded<T: Send + 'static>(fut: impl Future<Output = lance::Result<T>> + Send + 'static) -> Result<T, (bool, String)> {
    match tokio::spawn(fut).await {
        Ok(Ok(v)) => Ok(v),
        Ok(Err(e)) => Err((false, e.to_string().chars().take(300).collect())),
        Err(e) => Err((e.is_panic(), format!("{e}").chars().take(300).collect())),
    }
}

/// what a column holds for key k
#[derive(Clone, Debug, PartialEq)]
enum Spec {
    Key,            // k itself (int64, the key)
    Lin(i64, i64),  // m * k + c  (int64)
    LinNull(i64, i64, i64), // m * k + c, NULL when k % p == 0
    Null,           // all NULL (int64)
    Join(i64),      // "j<k>" (utf8) for k % m == 0, NULL otherwise (rows of the join's right side; the hash joiner
                    // fills NULLs only for the types the legacy format could store as null)
    Str,            // "s<k>" (utf8), NULL when k % 5 == 4
}
#[derive(Clone, Debug, PartialEq, PartialOrd)]
enum Cell {
    I(Option<i64>),
    S(Option<String>),
}
impl Spec {
    fn is_str(&self) -> bool {
        matches!(self, Spec::Str | Spec::Join(_))
    }
    fn at(&self, k: i64) -> Cell {
        match self {
            Spec::Key => Cell::I(Some(k)),
            Spec::Lin(m, c) => Cell::I(Some(m * k + c)),
            Spec::LinNull(m, c, p) => Cell::I(if k % p == 0 { None } else { Some(m * k + c) }),
            Spec::Null => Cell::I(None),
            Spec::Join(m) => Cell::S(if k % m == 0 { Some(format!("j{k}")) } else { None }),
            Spec::Str => Cell::S(if k % 5 == 4 { None } else { Some(format!("s{k}")) }),
        }
    }
}

#[derive(Clone, Debug)]
struct Col {
    name: String,
    /// per key: the expected cell (rows written before / after an operation may follow different rules)
    cells: BTreeMap<i64, Cell>,
    /// the rule for rows appended from now on
    spec: Spec,
    int32: bool,
    nullable: bool,
}

struct Tbl {
    _dir: tempfile::TempDir,
    uri: String,
    ds: Dataset,
    cols: Vec<Col>,
    keys: BTreeSet<i64>,
    next_k: i64,
    mrpf: usize,
    ver: LanceFileVersion,
    hist: Vec<String>,
    dropped: Vec<String>,
    fresh: u64,
    ids_seen: HashMap<i32, String>,
}

fn arrow_schema(cols: &[Col]) -> Arc<ArrowSchema> {
    Arc::new(ArrowSchema::new(cols.iter().map(|c| Field::new(&c.name, if c.spec.is_str() { DataType::Utf8 } else if c.int32 { DataType::Int32 } else { DataType::Int64 }, c.nullable)).collect::<Vec<_>>()))
}
fn batch(cols: &[Col], keys: &[i64]) -> RecordBatch {
    let arrays: Vec<Arc<dyn Array>> = cols
        .iter()
        .map(|c| -> Arc<dyn Array> {
            let cells: Vec<Cell> = keys.iter().map(|k| c.spec.at(*k)).collect();
            if c.spec.is_str() {
                Arc::new(StringArray::from(cells.iter().map(|x| if let Cell::S(s) = x { s.clone() } else { None }).collect::<Vec<_>>()))
            } else if c.int32 {
                Arc::new(Int32Array::from(cells.iter().map(|x| if let Cell::I(v) = x { v.map(|v| v as i32) } else { None }).collect::<Vec<_>>()))
            } else {
                Arc::new(Int64Array::from(cells.iter().map(|x| if let Cell::I(v) = x { *v } else { None }).collect::<Vec<_>>()))
            }
        })
        .collect();
    RecordBatch::try_new(arrow_schema(cols), arrays).unwrap()
}

// ---------------------------------------------------------------- model export
#[derive(Clone, Debug, PartialEq, serde::Serialize)]
struct ETable {
    schema: Vec<(i32, u64)>,
    frags: Vec<(u64, u64, Vec<(u64, Vec<i32>)>)>,
}
struct Tags {
    names: HashMap<String, u64>,
    paths: HashMap<String, u64>,
}
impl Tags {
    fn name(&mut self, s: &str) -> u64 {
        let n = self.names.len() as u64 + 10;
        *self.names.entry(s.to_string()).or_insert(n)
    }
    fn path(&mut self, s: &str) -> u64 {
        let n = self.paths.len() as u64 + 100;
        *self.paths.entry(s.to_string()).or_insert(n)
    }
}
fn export(tags: &mut Tags, ds: &Dataset) -> ETable {
    ETable {
        schema: ds.schema().fields.iter().map(|f| (f.id, tags.name(&f.name))).collect(),
        frags: ds.manifest.fragments.iter().map(|f| (f.id, f.physical_rows.unwrap_or(0) as u64, f.files.iter().map(|d| (tags.path(&d.path), d.fields.clone())).collect())).collect(),
    }
}
fn etable_coq(t: &ETable) -> String {
    format!(
        "(mkEtable {} {})",
        coq::list(t.schema.iter().map(|(i, n)| format!("({}, {})", coq::z(*i as i128), n))),
        coq::list(t.frags.iter().map(|(id, rows, files)| format!("(mkEfrag {} {} {})", id, rows, coq::list(files.iter().map(|(p, fs)| format!("(mkEfile {} {})", p, coq::list(fs.iter().map(|x| coq::z(*x as i128)))))))))
    )
}
/// per fragment of `before`, the path tag of the data file `after` added to it (None: no new file)
fn new_files(before: &ETable, after: &ETable) -> Vec<Option<u64>> {
    before
        .frags
        .iter()
        .map(|(id, _, files)| {
            let old: BTreeSet<u64> = files.iter().map(|f| f.0).collect();
            after.frags.iter().find(|g| g.0 == *id).and_then(|g| g.2.iter().find(|f| !old.contains(&f.0)).map(|f| f.0))
        })
        .collect()
}

#[derive(Clone, Debug)]
enum SOp {
    Add(Vec<String>),
    Drop(Vec<String>),
    Rename(String, String),
    Cast(String),
}

// ---------------------------------------------------------------- scan
async fn scan(ds: &Dataset, cols: &[Col]) -> lance::Result<BTreeMap<i64, Vec<Cell>>> {
    let mut sc = ds.scan();
    sc.scan_in_order(true);
    let bs: Vec<RecordBatch> = sc.try_into_stream().await?.try_collect().await?;
    let mut out = BTreeMap::new();
    for b in bs {
        if b.num_columns() != cols.len() || b.schema().fields().iter().zip(cols).any(|(f, c)| f.name() != &c.name) {
            return Err(lance::Error::invalid_input(format!("scan schema {:?}, expected columns {:?}", b.schema().fields().iter().map(|f| f.name().clone()).collect::<Vec<_>>(), cols.iter().map(|c| c.name.clone()).collect::<Vec<_>>()), snafu::location!()));
        }
        let kcol = cols.iter().position(|c| c.spec == Spec::Key).unwrap();
        for i in 0..b.num_rows() {
            let mut row = vec![];
            for (j, _c) in cols.iter().enumerate() {
                let a = b.column(j);
                row.push(if let Some(x) = a.as_any().downcast_ref::<Int64Array>() {
                    Cell::I(if x.is_null(i) { None } else { Some(x.value(i)) })
                } else if let Some(x) = a.as_any().downcast_ref::<Int32Array>() {
                    Cell::I(if x.is_null(i) { None } else { Some(x.value(i) as i64) })
                } else if let Some(x) = a.as_any().downcast_ref::<StringArray>() {
                    Cell::S(if x.is_null(i) { None } else { Some(x.value(i).to_string()) })
                } else {
                    Cell::S(Some(format!("<{:?}>", a.data_type())))
                });
            }
            let k = if let Cell::I(Some(k)) = row[kcol] { k } else { -1 };
            if out.insert(k, row).is_some() {
                return Err(lance::Error::invalid_input(format!("key {k} twice in the scan"), snafu::location!()));
            }
        }
    }
    Ok(out)
}

impl Tbl {
    fn expected(&self) -> BTreeMap<i64, Vec<Cell>> {
        self.keys.iter().map(|k| (*k, self.cols.iter().map(|c| c.cells[k].clone()).collect())).collect()
    }
    fn new_name(&mut self, rng: &mut Rng) -> String {
        // re-use a dropped name half of the time
        if !self.dropped.is_empty() && rng.bool() {
            let n = rng.pick(&self.dropped).clone();
            if !self.cols.iter().any(|c| c.name == n) {
                return n;
            }
        }
        self.fresh += 1;
        format!("c{}", self.fresh)
    }
    fn params(&self, mode: WriteMode) -> WriteParams {
        WriteParams { max_rows_per_file: self.mrpf, mode, data_storage_version: Some(self.ver), ..Default::default() }
    }
}

async fn step(t: &mut Tbl, rng: &mut Rng, tags: &mut Tags, st: &mut Stream, sink: &mut Sink) -> Result<(), (bool, String)> {
    let which = *rng.pick(&["add_sql", "add_sql", "add_null", "add_udf", "join", "rename", "nullable", "cast", "drop", "drop", "append", "append", "delete", "compact"]);
    sink.count(&format!("step:{which}"));
    let before = export(tags, &t.ds);
    let mut sop: Option<SOp> = None;
    match which {
        "add_sql" | "add_null" | "add_udf" => {
            let name = t.new_name(rng);
            let (m, c) = (rng.range(1, 4) as i64, rng.range(0, 50) as i64);
            let spec = match which {
                "add_sql" => Spec::Lin(m, c),
                "add_null" => Spec::Null,
                _ => Spec::LinNull(m, c, 3),
            };
            t.hist.push(format!("add_columns {name} := {spec:?} ({which})"));
            let kname = t.cols.iter().find(|c| c.spec == Spec::Key).unwrap().name.clone();
            let tr = match which {
                "add_sql" => NewColumnTransform::SqlExpressions(vec![(name.clone(), format!("{m} * {kname} + {c}"))]),
                "add_null" => NewColumnTransform::AllNulls(Arc::new(ArrowSchema::new(vec![Field::new(&name, DataType::Int64, true)]))),
                _ => {
                    let out = Arc::new(ArrowSchema::new(vec![Field::new(&name, DataType::Int64, true)]));
                    let (o2, kn) = (out.clone(), kname.clone());
                    NewColumnTransform::BatchUDF(BatchUDF {
                        mapper: Box::new(move |b: &RecordBatch| {
                            let k = b.column_by_name(&kn).unwrap().as_any().downcast_ref::<Int64Array>().unwrap();
                            let v: Int64Array = k.iter().map(|k| k.and_then(|k| if k % 3 == 0 { None } else { Some(m * k + c) })).collect();
                            Ok(RecordBatch::try_new(o2.clone(), vec![Arc::new(v)])?)
                        }),
                        output_schema: out,
                        result_checkpoint: None,
                    })
                }
            };
            let mut ds = t.ds.clone();
            let read_cols = if which == "add_udf" { Some(vec![kname.clone()]) } else { None };
            t.ds = guarded(async move {
                ds.add_columns(tr, read_cols, None).await?;
                Ok(ds)
            })
            .await?;
            let cells = t.keys.iter().map(|k| (*k, spec.at(*k))).collect();
            t.cols.push(Col { name: name.clone(), cells, spec, int32: false, nullable: true });
            sop = Some(SOp::Add(vec![name]));
        }
        "join" => {
            let name = t.new_name(rng);
            let m = rng.range(2, 3) as i64;
            t.hist.push(format!("merge on key: {name} = \"j<k>\" for k % {m} = 0 (and a key that does not exist)"));
            let kname = t.cols.iter().find(|c| c.spec == Spec::Key).unwrap().name.clone();
            let mut rk: Vec<i64> = t.keys.iter().cloned().filter(|k| k % m == 0).collect();
            rk.push(t.next_k + 100); // no such row on the left
            let sch = Arc::new(ArrowSchema::new(vec![Field::new("rk", DataType::Int64, false), Field::new(&name, DataType::Utf8, true)]));
            let b = RecordBatch::try_new(sch.clone(), vec![Arc::new(Int64Array::from(rk.clone())), Arc::new(StringArray::from(rk.iter().map(|k| format!("j{k}")).collect::<Vec<_>>()))]).unwrap();
            let mut ds = t.ds.clone();
            t.ds = guarded(async move {
                ds.merge(RecordBatchIterator::new(vec![Ok(b)], sch), &kname, "rk").await?;
                Ok(ds)
            })
            .await?;
            let spec = Spec::Join(m);
            let cells = t.keys.iter().map(|k| (*k, spec.at(*k))).collect();
            t.cols.push(Col { name: name.clone(), cells, spec, int32: false, nullable: true });
            sop = Some(SOp::Add(vec![name]));
        }
        "rename" | "nullable" | "cast" => {
            let cands: Vec<usize> = (0..t.cols.len()).filter(|i| which != "cast" || (t.cols[*i].spec != Spec::Str && t.cols[*i].spec != Spec::Key)).collect();
            if cands.is_empty() {
                return Ok(());
            }
            let i = *rng.pick(&cands);
            let old = t.cols[i].name.clone();
            let (alt, op) = match which {
                "rename" => {
                    let new = t.new_name(rng);
                    t.hist.push(format!("alter_columns rename {old} -> {new}"));
                    (ColumnAlteration::new(old.clone()).rename(new.clone()), SOp::Rename(old.clone(), new))
                }
                "nullable" => {
                    t.hist.push(format!("alter_columns {old} set nullable"));
                    (ColumnAlteration::new(old.clone()).set_nullable(true), SOp::Rename(old.clone(), old.clone()))
                }
                _ => {
                    let to32 = !t.cols[i].int32;
                    t.hist.push(format!("alter_columns cast {old} to {}", if to32 { "int32" } else { "int64" }));
                    (ColumnAlteration::new(old.clone()).cast_to(if to32 { DataType::Int32 } else { DataType::Int64 }), SOp::Cast(old.clone()))
                }
            };
            let mut ds = t.ds.clone();
            t.ds = guarded(async move {
                ds.alter_columns(&[alt]).await?;
                Ok(ds)
            })
            .await?;
            match &op {
                SOp::Rename(_, new) => {
                    if which == "rename" {
                        t.dropped.push(old.clone());
                    }
                    t.cols[i].name = new.clone();
                    if which == "nullable" {
                        t.cols[i].nullable = true;
                    }
                }
                SOp::Cast(_) => t.cols[i].int32 = !t.cols[i].int32,
                _ => {}
            }
            sop = Some(op);
        }
        "drop" => {
            let cands: Vec<usize> = (0..t.cols.len()).filter(|i| t.cols[*i].spec != Spec::Key).collect();
            if cands.is_empty() || t.cols.len() <= 2 {
                return Ok(());
            }
            let i = *rng.pick(&cands);
            let name = t.cols[i].name.clone();
            t.hist.push(format!("drop_columns {name}"));
            let (mut ds, n2) = (t.ds.clone(), name.clone());
            t.ds = guarded(async move {
                ds.drop_columns(&[&n2]).await?;
                Ok(ds)
            })
            .await?;
            t.cols.remove(i);
            t.dropped.push(name.clone());
            sop = Some(SOp::Drop(vec![name]));
        }
        "append" => {
            let n = rng.range(1, 7) as i64;
            let keys: Vec<i64> = (t.next_k..t.next_k + n).collect();
            t.next_k += n;
            t.hist.push(format!("append {n} rows"));
            let b = batch(&t.cols, &keys);
            let (sch, uri, params) = (arrow_schema(&t.cols), t.uri.clone(), t.params(WriteMode::Append));
            t.ds = guarded(async move { Dataset::write(RecordBatchIterator::new(vec![Ok(b)], sch), &uri, Some(params)).await }).await?;
            for k in keys {
                t.keys.insert(k);
                for c in t.cols.iter_mut() {
                    c.cells.insert(k, c.spec.at(k));
                }
            }
        }
        "delete" => {
            let m = rng.range(2, 5) as i64;
            let r = rng.below(m as u64) as i64;
            let kname = t.cols.iter().find(|c| c.spec == Spec::Key).unwrap().name.clone();
            let p = format!("{kname} % {m} = {r}");
            t.hist.push(format!("delete {p}"));
            let mut ds = t.ds.clone();
            t.ds = guarded(async move {
                ds.delete(&p).await?;
                Ok(ds)
            })
            .await?;
            t.keys.retain(|k| k % m != r);
        }
        _ => {
            let target = *rng.pick(&[4usize, 16, 1024]);
            t.hist.push(format!("compact_files target_rows_per_fragment={target}"));
            let mut ds = t.ds.clone();
            t.ds = guarded(async move {
                compact_files(&mut ds, CompactionOptions { target_rows_per_fragment: target, materialize_deletions_threshold: 0.0, ..Default::default() }, None).await?;
                Ok(ds)
            })
            .await?;
        }
    }
    // ---- correspondence: the committed schema operation against the model
    if let Some(op) = sop {
        let after = export(tags, &t.ds);
        let nf = new_files(&before, &after);
        let names = |tags: &mut Tags, v: &[String]| coq::list(v.iter().map(|n| tags.name(n).to_string()));
        let op_coq = match &op {
            SOp::Add(n) => format!("(OAdd {} {})", names(tags, n), coq::list(nf.iter().map(|p| coq::opt(p.map(coq::n))))),
            SOp::Drop(n) => format!("(ODrop {})", names(tags, n)),
            SOp::Rename(a, b) => format!("(ORename {} {})", tags.name(a), tags.name(b)),
            SOp::Cast(n) => format!("(OCast {} {})", tags.name(n), coq::list(nf.iter().map(|p| coq::n(p.unwrap_or(0))))),
        };
        let mut rec = after.clone();
        if plant() == "evolve" && st.is_empty() {
            if let Some(s) = rec.schema.last_mut() {
                s.0 += 1;
            }
        }
        let input = format!("({}, {})", etable_coq(&before), op_coq);
        sink.nontrivial(&input);
        st.push(input, format!("(Ok {})", etable_coq(&rec)), json!({"history": t.hist, "operation": format!("{op:?}"), "before": before, "after": after}));
    }
    Ok(())
}

static PLANT: std::sync::OnceLock<String> = std::sync::OnceLock::new();
fn plant() -> &'static str {
    PLANT.get().map(|s| s.as_str()).unwrap_or("")
}

fn run(args: &Args) -> i32 {
    let mut sink = Sink::new("C14", &args.out);
    let mut rng = Rng::new(args.seed);
    let rt = tokio::runtime::Builder::new_multi_thread().worker_threads(4).enable_all().build().unwrap();
    let mut st = Stream::new("evolve", REQ, "chk_evolve", "etable * eop", "outcome etable");
    st.shard = 60;
    let mut sm = Stream::new("maxid", REQ, "chk_max_field_id", "etable", "Z");
    sm.shard = 200;
    let n_hist = args.vol(14, 150);
    rt.block_on(async {
        for h in 0..n_hist {
            let mut tags = Tags { names: HashMap::new(), paths: HashMap::new() };
            let dir = tempfile::tempdir().unwrap();
            let uri = dir.path().join("t.lance").to_str().unwrap().to_string();
            let ver = *rng.pick(&[LanceFileVersion::V2_0, LanceFileVersion::V2_0, LanceFileVersion::V2_1]);
            let mrpf = *rng.pick(&[3usize, 4, 8, 1000]);
            let n = rng.range(4, 20) as i64;
            let mut cols = vec![
                Col { name: "k".into(), cells: BTreeMap::new(), spec: Spec::Key, int32: false, nullable: false },
                Col { name: "a".into(), cells: BTreeMap::new(), spec: Spec::LinNull(7, 1, 4), int32: false, nullable: true },
                Col { name: "s".into(), cells: BTreeMap::new(), spec: Spec::Str, int32: false, nullable: true },
            ];
            let keys: Vec<i64> = (0..n).collect();
            for c in cols.iter_mut() {
                for k in &keys {
                    c.cells.insert(*k, c.spec.at(*k));
                }
            }
            let params = WriteParams { max_rows_per_file: mrpf, mode: WriteMode::Create, data_storage_version: Some(ver), ..Default::default() };
            let ds = Dataset::write(RecordBatchIterator::new(vec![Ok(batch(&cols, &keys))], arrow_schema(&cols)), &uri, Some(params)).await.unwrap();
            let mut t = Tbl { _dir: dir, uri, ds, cols, keys: keys.into_iter().collect(), next_k: n, mrpf, ver, hist: vec![format!("create {n} rows (k, a, s) max_rows_per_file={mrpf} version={ver}")], dropped: vec![], fresh: 0, ids_seen: HashMap::new() };
            let _ = h;
            for _ in 0..rng.range(5, 10) {
                let before_cols = t.cols.clone();
                let before_keys = t.keys.clone();
                if let Err((p, e)) = step(&mut t, &mut rng, &mut tags, &mut st, &mut sink).await {
                    sink.count(if p { "step-panicked" } else { "step-refused" });
                    if p {
                        sink.oracle_fail(None, &format!("a schema / data operation panicked: {e}"), json!({"history": t.hist}));
                    }
                    t.hist.push(format!("   -> {}: {}", if p { "PANIC" } else { "error" }, e.chars().take(160).collect::<String>()));
                    t.cols = before_cols;
                    t.keys = before_keys;
                    let mut d = t.ds.clone();
                    if d.checkout_latest().await.is_ok() {
                        t.ds = d;
                    }
                }
                // ---- direct oracles
                let case = json!({"history": t.hist});
                let (d, cols) = (t.ds.clone(), t.cols.clone());
                match guarded(async move { scan(&d, &cols).await }).await {
                    Ok(mut got) => {
                        let exp = t.expected();
                        if plant() == "oracle" && sink.oracle_checked == 2 {
                            got.clear();
                        }
                        if got == exp {
                            sink.oracle_ok();
                        } else {
                            let bad: Vec<String> = exp.iter().filter(|(k, v)| got.get(k) != Some(v)).take(4).map(|(k, v)| format!("k={k}: expected {v:?}, scan shows {:?}", got.get(k))).collect();
                            sink.oracle_fail(None, &format!("the table no longer holds what was written: columns {:?}; {} rows expected, {} scanned; {}", t.cols.iter().map(|c| c.name.clone()).collect::<Vec<_>>(), exp.len(), got.len(), bad.join("; ")), case.clone());
                        }
                    }
                    Err((p, e)) => sink.oracle_fail(None, &format!("scan {} after a committed operation: {e}", if p { "panicked" } else { "failed" }), case.clone()),
                }
                let ids: Vec<i32> = t.ds.schema().fields_pre_order().map(|f| f.id).collect();
                let uniq: BTreeSet<i32> = ids.iter().cloned().collect();
                if uniq.len() == ids.len() && ids.iter().all(|i| *i >= 0) {
                    sink.oracle_ok();
                } else {
                    sink.oracle_fail(None, &format!("schema() field ids are not pairwise distinct / non-negative: {ids:?}"), case.clone());
                }
                // a field id that meant another column earlier in this history (allowed, recorded)
                for f in t.ds.schema().fields.iter() {
                    let key = format!("{}@{}", f.name, f.id);
                    if let Some(prev) = t.ids_seen.get(&f.id) {
                        if prev.split('@').next() != Some(f.name.as_str()) && !t.hist.iter().any(|h| h.contains("rename")) {
                            sink.count("observation:field-id-handed-out-again-after-drop");
                        }
                    }
                    t.ids_seen.insert(f.id, key);
                }
                let e = export(&mut tags, &t.ds);
                sm.push(etable_coq(&e), coq::z(t.ds.manifest.max_field_id() as i128), json!({"history": t.hist, "table": e}));
            }
        }
    });
    sink.add(st);
    sink.add(sm);
    sink.notes.push(format!("e2e: {n_hist} histories of 5..10 steps (add sql / all-null / udf / key join, rename, nullability, cast, drop with re-used names, append, delete, compact)"));
    sink.finish();
    0
}

fn main() {
    let (sub, args) = hxlib::util::Args::parse();
    let mut it = args.rest.iter();
    while let Some(a) = it.next() {
        if a == "--plant" {
            let _ = PLANT.set(it.next().cloned().unwrap_or_default());
        }
    }
    let code = match sub.as_str() {
        "c14" => run(&args),
        _ => {
            eprintln!("unknown subcommand {sub}");
            2
        }
    };
    std::process::exit(code);
}
