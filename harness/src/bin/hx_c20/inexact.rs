//! direct arm: the real indices' `search` against brute force, and the zone map against the model.
use crate::e2e::{contains_literals, no_trigram_query, panic_text};
use arrow_array::*;
use arrow_schema::{DataType, Field, Schema};
use hxlib::util::{coq, Args, Rng, Sink, Stream};
use lance::dataset::WriteParams;
use lance::deps::datafusion::scalar::ScalarValue;
use lance::Dataset;
use lance_index::metrics::NoOpMetricsCollector;
use lance_index::scalar::expression::ScalarIndexLoader;
use lance_index::scalar::{BloomFilterQuery, BuiltinIndexType, SargableQuery, ScalarIndexParams, SearchResult, TextQuery};
use lance_index::{DatasetIndexExt, IndexType};
use serde_json::json;
use std::ops::Bound;
use std::sync::Arc;

const REQ: &str = "Common.Base Index.Model_Inexact";
const F32S: [f32; 9] = [f32::NAN, f32::NEG_INFINITY, -1.5, -0.0, 0.0, 0.5, 1.5, 2.0, f32::INFINITY];
const STRS: [&str; 10] = ["", "a", "ab", "apple", "Ünïcode", "zz", "pineapple", "apple pie", "app", "ppl"];
const SUBS: [&str; 9] = ["ap", "", "nï", "app", "ppl", "apple pie", "zzz", "le p", "Ün"];

fn key32(f: f32) -> i128 {
    let b = f.to_bits() as i32;
    (b ^ ((((b >> 31) as u32) >> 1) as i32)) as i128
}
/// model value: (is NaN, position)
fn fv(f: f32) -> String {
    if f.is_nan() {
        "(true, 0%Z)".into()
    } else {
        format!("(false, {})", coq::z(key32(f)))
    }
}
fn ofv(v: Option<f32>) -> String {
    coq::opt(v.map(fv))
}
fn le(a: f32, b: f32) -> bool {
    a.total_cmp(&b) != std::cmp::Ordering::Greater
}

#[derive(Clone, Debug)]
enum Q {
    IsNull,
    Equals(Option<f32>),
    Range(Bound<f32>, Bound<f32>),
    IsIn(Vec<Option<f32>>),
}
impl Q {
    fn matches(&self, v: Option<f32>) -> bool {
        match (self, v) {
            (Q::IsNull, None) => true,
            (Q::Equals(Some(t)), Some(x)) => x.total_cmp(t) == std::cmp::Ordering::Equal,
            (Q::Range(lo, hi), Some(x)) => {
                (match lo {
                    Bound::Included(s) => le(*s, x),
                    Bound::Excluded(s) => !le(x, *s),
                    Bound::Unbounded => true,
                }) && (match hi {
                    Bound::Included(e) => le(x, *e),
                    Bound::Excluded(e) => !le(*e, x),
                    Bound::Unbounded => true,
                })
            }
            (Q::IsIn(ts), Some(x)) => ts.iter().any(|t| t.map(|t| x.total_cmp(&t) == std::cmp::Ordering::Equal).unwrap_or(false)),
            _ => false,
        }
    }
    fn sargable(&self) -> SargableQuery {
        let sv = |v: &Option<f32>| ScalarValue::Float32(*v);
        let b = |x: &Bound<f32>| match x {
            Bound::Included(v) => Bound::Included(ScalarValue::Float32(Some(*v))),
            Bound::Excluded(v) => Bound::Excluded(ScalarValue::Float32(Some(*v))),
            Bound::Unbounded => Bound::Unbounded,
        };
        match self {
            Q::IsNull => SargableQuery::IsNull(),
            Q::Equals(t) => SargableQuery::Equals(sv(t)),
            Q::Range(lo, hi) => SargableQuery::Range(b(lo), b(hi)),
            Q::IsIn(ts) => SargableQuery::IsIn(ts.iter().map(sv).collect()),
        }
    }
    fn coq(&self) -> String {
        let b = |x: &Bound<f32>| match x {
            Bound::Unbounded => "(0, (false, 0%Z))".to_string(),
            Bound::Included(v) => format!("(1, {})", fv(*v)),
            Bound::Excluded(v) => format!("(2, {})", fv(*v)),
        };
        let none = "(0, (false, 0%Z))".to_string();
        match self {
            Q::IsNull => format!("(0, ([], {none}, {none}))"),
            Q::Equals(t) => format!("(1, ([{}], {none}, {none}))", ofv(*t)),
            Q::Range(lo, hi) => format!("(2, ([], {}, {}))", b(lo), b(hi)),
            Q::IsIn(ts) => format!("(3, ({}, {none}, {none}))", coq::list(ts.iter().map(|t| ofv(*t)))),
        }
    }
}

fn gen_q(rng: &mut Rng) -> Q {
    let v = |rng: &mut Rng| *rng.pick(&F32S);
    let bnd = |rng: &mut Rng| match rng.below(3) {
        0 => Bound::Unbounded,
        1 => Bound::Included(*rng.pick(&F32S)),
        _ => Bound::Excluded(*rng.pick(&F32S)),
    };
    match rng.below(8) {
        0 => Q::IsNull,
        1 | 2 => Q::Equals(if rng.chance(1, 10) { None } else { Some(v(rng)) }),
        3..=5 => loop {
            let (lo, hi) = (bnd(rng), bnd(rng));
            if !matches!((&lo, &hi), (Bound::Unbounded, Bound::Unbounded)) {
                break Q::Range(lo, hi);
            }
        },
        _ => Q::IsIn((0..rng.below(4)).map(|_| if rng.chance(1, 8) { None } else { Some(v(rng)) }).collect()),
    }
}

async fn search_rows(ds: &Dataset, col: &str, name: &str, q: Arc<dyn lance_index::scalar::AnyQuery>) -> Result<(u32, Vec<u64>), String> {
    let ds = ds.clone();
    let (col, name) = (col.to_string(), name.to_string());
    let h = tokio::spawn(async move {
        let idx = ScalarIndexLoader::load_index(&ds, &col, &name, &NoOpMetricsCollector).await.map_err(|e| e.to_string())?;
        let r = idx.search(q.as_ref(), &NoOpMetricsCollector).await.map_err(|e| e.to_string())?;
        let (k, map) = match &r {
            SearchResult::Exact(m) => (0u32, m),
            SearchResult::AtMost(m) => (1, m),
            SearchResult::AtLeast(m) => (2, m),
        };
        let mut rows: Vec<u64> = map.row_ids().map(|it| it.map(u64::from).collect()).unwrap_or_default();
        rows.sort();
        Ok::<_, String>((k, rows))
    });
    match h.await {
        Ok(r) => r,
        Err(e) => Err(format!("PANIC {}", panic_text(e))),
    }
}

async fn scan_ids(ds: &Dataset, filter: &str, use_index: bool) -> Result<Vec<i32>, String> {
    use futures::TryStreamExt;
    let ds = ds.clone();
    let f = filter.to_string();
    let h = tokio::spawn(async move {
        let mut sc = ds.scan();
        sc.filter(&f).map_err(|e| e.to_string())?;
        sc.use_scalar_index(use_index);
        sc.project(&["id"]).map_err(|e| e.to_string())?;
        let batches: Vec<RecordBatch> = sc.try_into_stream().await.map_err(|e| e.to_string())?.try_collect().await.map_err(|e| e.to_string())?;
        let mut out = vec![];
        for b in batches {
            out.extend(b.column_by_name("id").unwrap().as_any().downcast_ref::<Int32Array>().unwrap().values().iter().copied());
        }
        out.sort();
        Ok::<_, String>(out)
    });
    match h.await {
        Ok(r) => r,
        Err(e) => Err(format!("PANIC {}", panic_text(e))),
    }
}

/// fixed corpus (runs first): the F20 probe table - 300 strings + NGram index - with the F20a input
/// contains(s,'ap') (repaired by 72db555: must stay equal), '' and the F20b inputs; and a zone map whose only
/// zone starts at the inclusive bound of a fused range
async fn corpus(sink: &mut Sink) -> Result<(), String> {
    let words = ["", "apple", "apple pie", "banana", "Ünïcode", "pineapple", "app", "ppl"];
    let mut r = Rng::new(3);
    let n = 300;
    let id: Int32Array = (0..n).map(Some).collect();
    let s: StringArray = (0..n).map(|_| if r.below(5) == 0 { None } else { Some(words[r.below(words.len() as u64) as usize]) }).collect();
    let y: Int32Array = (0..n).map(|i| if i % 4 == 3 { None } else if i % 2 == 0 { Some(5) } else { Some(7) }).collect();
    let schema = Arc::new(Schema::new(vec![Field::new("id", DataType::Int32, false), Field::new("s", DataType::Utf8, true), Field::new("y", DataType::Int32, true)]));
    let batch = RecordBatch::try_new(schema.clone(), vec![Arc::new(id), Arc::new(s), Arc::new(y)]).unwrap();
    let dir = tempfile::tempdir().map_err(|e| e.to_string())?;
    let uri = dir.path().join("t").to_string_lossy().to_string();
    let mut ds = Dataset::write(RecordBatchIterator::new(vec![Ok(batch)], schema.clone()), &uri, None).await.map_err(|e| e.to_string())?;
    ds.create_index(&["s"], IndexType::NGram, Some("s_ng".into()), &ScalarIndexParams::default(), true).await.map_err(|e| e.to_string())?;
    ds.create_index(&["y"], IndexType::ZoneMap, Some("y_zm".into()), &ScalarIndexParams::default(), true).await.map_err(|e| e.to_string())?;
    ds.delete("id % 11 = 0").await.map_err(|e| e.to_string())?;
    for (p, class) in [
        ("contains(s, 'ap')", None),
        ("contains(s, '')", None),
        ("contains(s, 'app')", None),
        ("contains(s, 'apple pie')", None),
        ("contains(s, 'zzz')", None),
        ("contains(s, 'nï')", Some("ngram_no_trigram_query")),
        ("contains(s, 'le p')", Some("ngram_no_trigram_query")),
        ("y >= 1 AND y < 7", None),
        ("y > 1 AND y <= 5", None),
        // repaired by c446062 (maybe_range inclusivity): strict
        ("y <= 5 AND y > 1", None),
        ("y < 7 AND y >= 5", None),
    ] {
        let a = scan_ids(&ds, p, true).await;
        let b = scan_ids(&ds, p, false).await;
        let case = json!({"arm": "corpus", "filter": p, "with_index": a.as_ref().map(|v| v.len()).map_err(|e| e.clone()), "without_index": b.as_ref().map(|v| v.len()).map_err(|e| e.clone())});
        if a == b {
            sink.oracle_ok();
            sink.count(if class.is_some() { "corpus:equal-though-in-class" } else { "corpus:equal" });
        } else {
            sink.count(&format!("corpus:DIFF-{}", class.unwrap_or("unlisted")));
            sink.oracle_fail(class, "scan with use_scalar_index(true) returns other rows than with (false)", case);
        }
    }
    Ok(())
}

pub async fn run(args: &Args, sink: &mut Sink, rng: &mut Rng) -> Stream {
    if let Err(e) = corpus(sink).await {
        sink.oracle_fail(None, "corpus table could not be built", json!({"error": e}));
    }
    let mut st = Stream::new("zone", REQ, "chk_zone", "N * list (N * list (option (bool * Z))) * (N * (list (option (bool * Z)) * (N * (bool * Z)) * (N * (bool * Z))))", "list N");
    st.shard = 80;
    let ntables = args.vol(6, 80);
    for _ in 0..ntables {
        // one float column, one string column; several fragments; fresh table (no deletions: addresses = offsets)
        let nfrag = rng.range(1, 3) as usize;
        let per = rng.range(3, 9) as usize;
        let zone = rng.range(1, 6);
        let n = nfrag * per - rng.below(per as u64) as usize;
        let fvals: Vec<Option<f32>> = (0..n).map(|_| if rng.chance(1, 5) { None } else { Some(*rng.pick(&F32S)) }).collect();
        let svals: Vec<Option<&str>> = (0..n).map(|_| if rng.chance(1, 6) { None } else { Some(*rng.pick(&STRS)) }).collect();
        let schema = Arc::new(Schema::new(vec![Field::new("f", DataType::Float32, true), Field::new("g", DataType::Float32, true), Field::new("s", DataType::Utf8, true)]));
        let batch = RecordBatch::try_new(schema.clone(), vec![Arc::new(Float32Array::from(fvals.clone())), Arc::new(Float32Array::from(fvals.clone())), Arc::new(StringArray::from(svals.clone()))]).unwrap();
        let dir = tempfile::tempdir().unwrap();
        let uri = dir.path().join("t").to_string_lossy().to_string();
        let mut ds = match Dataset::write(RecordBatchIterator::new(vec![Ok(batch)], schema.clone()), &uri, Some(WriteParams { max_rows_per_file: per, ..Default::default() })).await {
            Ok(d) => d,
            Err(e) => {
                sink.oracle_fail(None, "write failed", json!({"error": e.to_string()}));
                continue;
            }
        };
        let zp = ScalarIndexParams::for_builtin(BuiltinIndexType::ZoneMap).with_params(&json!({"rows_per_zone": zone}));
        let mut ok = ds.create_index(&["f"], IndexType::ZoneMap, Some("f_zm".into()), &zp, true).await.map_err(|e| e.to_string());
        if ok.is_ok() {
            ok = ds.create_index(&["g"], IndexType::BloomFilter, Some("g_bf".into()), &ScalarIndexParams::default(), true).await.map_err(|e| e.to_string());
        }
        if ok.is_ok() {
            ok = ds.create_index(&["s"], IndexType::NGram, Some("s_ng".into()), &ScalarIndexParams::default(), true).await.map_err(|e| e.to_string());
        }
        if let Err(e) = ok {
            sink.oracle_fail(None, "create_index failed", json!({"error": e.chars().take(200).collect::<String>()}));
            continue;
        }
        // fragments as the table has them: address = frag << 32 | offset, in write order
        let frags: Vec<(u64, Vec<Option<f32>>)> = {
            let mut out = vec![];
            let mut at = 0usize;
            for f in ds.get_fragments() {
                let k = f.count_rows(None).await.unwrap_or(0);
                out.push((f.id() as u64, fvals[at..at + k].to_vec()));
                at += k;
            }
            out
        };
        let addr_vals: Vec<(u64, Option<f32>, Option<&str>)> = {
            let mut out = vec![];
            let mut at = 0usize;
            for (fid, vs) in &frags {
                for (o, v) in vs.iter().enumerate() {
                    out.push(((fid << 32) + o as u64, *v, svals[at]));
                    at += 1;
                }
            }
            out
        };
        // finding zonemap_zone_spans_fragments: the builder advances to the next fragment too early when a zone of
        // fragment j-1 fills up inside the batch (of rows_per_zone rows) that holds the start of fragment j
        let spans = {
            let z = zone as usize;
            let mut starts = vec![0usize];
            for (_, vs) in &frags {
                starts.push(starts.last().unwrap() + vs.len());
            }
            (1..frags.len()).any(|j| {
                let (sp, sj) = (starts[j - 1], starts[j]);
                let (a, q, m) = (sp % z, sp / z, sj / z);
                a != 0 && m > q && m * z + a < sj
            })
        };
        let frags_c = coq::list(frags.iter().map(|(fid, vs)| format!("({fid}, {})", coq::list(vs.iter().map(|v| ofv(*v))))));
        for _ in 0..args.vol(14, 30) {
            let q = gen_q(rng);
            let case = json!({"arm": "direct", "zone_size": zone, "fragments": frags.iter().map(|(f, v)| (f, v.iter().map(|x| x.map(|y| format!("{y:?}"))).collect::<Vec<_>>())).collect::<Vec<_>>(), "query": format!("{q:?}")});
            // zone map: superset oracle + model stream
            match search_rows(&ds, "f", "f_zm", Arc::new(q.sargable())).await {
                Ok((kind, rows)) => {
                    let missing: Vec<u64> = addr_vals.iter().filter(|(a, v, _)| q.matches(*v) && !rows.contains(a)).map(|x| x.0).collect();
                    if kind == 0 || kind == 1 {
                        if missing.is_empty() {
                            sink.oracle_ok();
                        } else {
                            sink.oracle_fail(if spans { Some("zonemap_zone_spans_fragments") } else { None }, "zone map search drops a matching row", json!({"case": case, "missing": missing}));
                        }
                    } else {
                        sink.oracle_ok();
                    }
                    sink.count(&format!("zone:{}", match q { Q::IsNull => "isnull", Q::Equals(_) => "equals", Q::Range(..) => "range", Q::IsIn(_) => "isin" }));
                    // the model is the per-fragment builder: compared outside the finding class only
                    if spans {
                        sink.count("zone:in-class-spans-fragments");
                    } else {
                        let inp = format!("({zone}, {frags_c}, {})", q.coq());
                        sink.nontrivial(&inp);
                        st.push(inp, coq::nlist(rows.iter()), case.clone());
                    }
                }
                Err(e) => sink.oracle_fail(None, "zone map search failed", json!({"case": case, "error": e.chars().take(200).collect::<String>()})),
            }
            // bloom filter (same values in column g): Equals / IsIn / IsNull only
            let bq: Option<BloomFilterQuery> = match &q {
                Q::IsNull => Some(BloomFilterQuery::IsNull()),
                Q::Equals(t) => Some(BloomFilterQuery::Equals(ScalarValue::Float32(*t))),
                Q::IsIn(ts) => Some(BloomFilterQuery::IsIn(ts.iter().map(|t| ScalarValue::Float32(*t)).collect())),
                _ => None,
            };
            if let Some(bq) = bq {
                match search_rows(&ds, "g", "g_bf", Arc::new(bq)).await {
                    Ok((kind, rows)) => {
                        let missing: Vec<u64> = addr_vals.iter().filter(|(a, v, _)| q.matches(*v) && !rows.contains(a)).map(|x| x.0).collect();
                        if kind == 2 || missing.is_empty() {
                            sink.oracle_ok();
                        } else {
                            sink.oracle_fail(None, "bloom filter search drops a matching row", json!({"case": case, "missing": missing}));
                        }
                        sink.count("bloom:search");
                    }
                    Err(e) => sink.oracle_fail(None, "bloom filter search failed", json!({"case": case, "error": e.chars().take(200).collect::<String>()})),
                }
            }
        }
        // n-gram: contains(s, sub)
        for sub in SUBS {
            match search_rows(&ds, "s", "s_ng", Arc::new(TextQuery::StringContains(sub.to_string()))).await {
                Ok((kind, rows)) => {
                    let missing: Vec<u64> = addr_vals.iter().filter(|(a, _, s)| s.map(|s| s.contains(sub)).unwrap_or(false) && !rows.contains(a)).map(|x| x.0).collect();
                    let case = json!({"arm": "direct-ngram", "query": sub, "kind": kind, "strings": svals});
                    if kind == 2 || missing.is_empty() {
                        sink.oracle_ok();
                    } else {
                        let class = if no_trigram_query(sub) { Some("ngram_no_trigram_query") } else { None };
                        sink.oracle_fail(class, "n-gram search drops a row that contains the query", json!({"case": case, "missing": missing}));
                    }
                    sink.count(&format!("ngram:kind{kind}"));
                }
                Err(e) => sink.oracle_fail(None, "n-gram search failed", json!({"query": sub, "error": e.chars().take(200).collect::<String>()})),
            }
        }
    }
    let _ = contains_literals;
    st
}
