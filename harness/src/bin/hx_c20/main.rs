//! hx_c20: inexact scalar indices (zone map, bloom filter, n-gram) never drop a matching row (C20).
//!   direct arm - real `ScalarIndex::search` of ZoneMap / BloomFilter / NGram indices against brute force
//!                (superset oracle), and the zone map answer against the model's zones (stream "zone")
//!   e2e arm    - Scanner with use_scalar_index(true) vs (false) over typed tables with inexact indices and
//!                histories (shared with hx_c19); corpus first: the F20a / F20b inputs
#[path = "../hx_c19/ast.rs"]
mod ast;
#[path = "../hx_c19/e2e.rs"]
mod e2e;
mod inexact;
#[path = "../hx_c19/unit.rs"]
mod unit;

use arrow_schema::DataType;
use hxlib::util::{Args, Rng, Sink};
use lance_index::IndexType;

fn c20(args: &Args) -> i32 {
    let mut sink = Sink::new("C20", &args.out);
    let mut rng = Rng::new(args.seed);
    std::panic::set_hook(Box::new(|_| {}));
    let rt = tokio::runtime::Builder::new_multi_thread().worker_threads(4).enable_all().build().unwrap();
    let zone = rt.block_on(inexact::run(args, &mut sink, &mut rng));
    sink.add(zone);
    let kinds = |rng: &mut Rng, ty: &DataType| match ty {
        DataType::Utf8 => *rng.pick(&[IndexType::NGram, IndexType::NGram, IndexType::ZoneMap, IndexType::BloomFilter]),
        DataType::Boolean => IndexType::ZoneMap,
        _ => *rng.pick(&[IndexType::ZoneMap, IndexType::BloomFilter]),
    };
    let st = rt.block_on(e2e::run(args, &mut sink, &mut rng, &kinds, 0, false));
    sink.add(st.scan);
    sink.add(st.class);
    sink.add(st.translate);
    sink.notes.push("direct: real ScalarIndex::search of ZoneMap/BloomFilter/NGram vs brute force on random columns (NaN, NULL, +-0, empty/unicode strings), zone sizes 1..6; e2e: typed tables x inexact index kinds x histories x predicate trees incl. contains()".into());
    sink.finish();
    0
}

fn main() {
    let (sub, args) = Args::parse();
    let code = match sub.as_str() {
        "c20" => c20(&args),
        _ => {
            eprintln!("unknown subcommand {sub}");
            2
        }
    };
    std::process::exit(code);
}
