//! hx_c18: property C18 "stable row ids are stable and resolvable".
//! Shares the manifest export and the table driver with hx_c05 (same model: Table/Model_Manifest.v).
#[path = "../hx_c05/e2e.rs"]
mod e2e;
#[path = "../hx_c05/model.rs"]
mod model;
mod c18;

fn main() {
    let (sub, args) = hxlib::util::Args::parse();
    let code = match sub.as_str() {
        "c18" => c18::run(&args),
        "probe" => {
            c18::probe();
            0
        }
        _ => {
            eprintln!("unknown subcommand {sub}");
            2
        }
    };
    std::process::exit(code);
}
