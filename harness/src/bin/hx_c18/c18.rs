//! C18 end-to-end: random histories on tables created with stable row ids (<= 12 steps: append, delete, update,
//! merge_insert full / partial schema, compaction, overwrite, schema evolution, restore, index, config and
//! commits through stale handles).  After every step:
//!   direct oracles  - the scanned `_rowid`s are pairwise distinct; every row (identified by its key k) that
//!                     survived the step has the row id it had before; `take_rows(ids)` returns, for every live
//!                     id, the current values of that row;
//!   model streams   - `inv`     ids_inv holds on the exported manifest,
//!                     `opids`   the committed transaction satisfies op_ids_ok (hypothesis of the theorems),
//!                     `live`    the model's live_rows (row id, address) = the ordered scan of (_rowid, _rowaddr),
//!                     `resolve` the model's resolve = the address take_rows resolved for every probed id,
//!                     `commit`  the model's commit_step reproduces the committed manifest.
use crate::e2e::*;
use crate::model::*;
use arrow_array::{Array, Int64Array, RecordBatch, UInt64Array};
use futures::TryStreamExt;
use hxlib::util::{coq, Args, Rng, Sink, Stream};
use lance::dataset::ProjectionRequest;
use lance::Dataset;
use serde_json::json;
use std::collections::BTreeMap;

const REQ18: &str = "Common.Base Meta.Model_Flags Table.Model_Manifest Table.Model_StableIds";
const CLASS_FLAG: &str = "stable_flag_dropped_on_empty_table";
const CLASS_CACHE: &str = "rowid_sequence_cache_keyed_by_fragment_id";

#[derive(Clone, Debug)]
pub struct Row {
    pub k: i64,
    pub x: i64,
    pub rowid: u64,
    pub addr: u64,
}

pub async fn scan_rows(ds: &Dataset) -> Result<Vec<Row>, (bool, String)> {
    let ds = ds.clone();
    guarded(async move {
        let mut sc = ds.scan();
        sc.project(&["k", "x"])?;
        sc.with_row_id().with_row_address().scan_in_order(true);
        let bs: Vec<RecordBatch> = sc.try_into_stream().await?.try_collect().await?;
        let mut out = vec![];
        for b in bs {
            let k = b.column_by_name("k").unwrap().as_any().downcast_ref::<Int64Array>().unwrap().clone();
            let x = b.column_by_name("x").unwrap().as_any().downcast_ref::<Int64Array>().unwrap().clone();
            let r = b.column_by_name("_rowid").unwrap().as_any().downcast_ref::<UInt64Array>().unwrap().clone();
            let a = b.column_by_name("_rowaddr").unwrap().as_any().downcast_ref::<UInt64Array>().unwrap().clone();
            for i in 0..b.num_rows() {
                out.push(Row { k: k.value(i), x: if x.is_null(i) { i64::MIN } else { x.value(i) }, rowid: r.value(i), addr: a.value(i) });
            }
        }
        Ok(out)
    })
    .await
}

/// take_rows(ids) with k, x and _rowaddr: Ok(rows in request order) | Err
pub async fn take_ids(ds: &Dataset, ids: &[u64]) -> Result<Vec<(i64, i64, u64)>, (bool, String)> {
    let ds = ds.clone();
    let ids = ids.to_vec();
    guarded(async move {
        let b = ds.take_rows(&ids, ProjectionRequest::from_columns(["k", "x", "_rowaddr"], ds.schema())).await?;
        let k = b.column_by_name("k").unwrap().as_any().downcast_ref::<Int64Array>().unwrap().clone();
        let x = b.column_by_name("x").unwrap().as_any().downcast_ref::<Int64Array>().unwrap().clone();
        let a = b.column_by_name("_rowaddr").unwrap().as_any().downcast_ref::<UInt64Array>().unwrap().clone();
        Ok((0..b.num_rows()).map(|i| (k.value(i), if x.is_null(i) { i64::MIN } else { x.value(i) }, a.value(i))).collect())
    })
    .await
}

pub struct S18 {
    pub base: Streams,
    pub inv: Stream,
    pub opids: Stream,
    pub live: Stream,
    pub resolve: Stream,
}
impl S18 {
    fn new() -> Self {
        let mut s = S18 {
            base: Streams::new(),
            inv: Stream::new("inv", REQ18, "chk_ids_inv", "Manifest", "bool"),
            opids: Stream::new("opids", REQ18, "chk_op_ids_ok", "Manifest * Operation", "bool"),
            live: Stream::new("live", REQ18, "chk_live_rows", "Manifest", "list (N * N)"),
            resolve: Stream::new("resolve", REQ18, "chk_resolve", "Manifest * list N", "list (option N)"),
        };
        s.inv.shard = 200;
        s.opids.shard = 200;
        s.live.shard = 200;
        s.resolve.shard = 200;
        s
    }
}

/// the state the oracles compare with: key -> row id before the step
struct Track {
    ids: BTreeMap<i64, u64>,
    ids_at: BTreeMap<u64, BTreeMap<i64, u64>>,
    in_ranges_class: bool,
    /// every row id sequence a fragment id has carried in any version of this history
    seqs: BTreeMap<u64, std::collections::BTreeSet<Vec<u64>>>,
}

fn in_ranges_class(rows: &[Row]) -> bool {
    !rows.windows(2).all(|w| w[0].rowid < w[1].rowid)
}

/// returns false when the history cannot usefully continue (the table lost its stable row ids)
async fn check_step(ctx: &mut Ctx, t: &mut Tbl, tr: &mut Track, s: &mut S18, sink: &mut Sink, rng: &mut Rng, kind: &str, fresh_table: bool, restored: Option<u64>) -> bool {
    let latest = t.ds.version().version;
    let mut last = None;
    for v in (t.verified + 1)..=latest {
        match export_version(ctx, t, v, &mut s.base, sink, "C18").await {
            Ok(e) => {
                for f in &e.manifest.fragments {
                    tr.seqs.entry(f.id).or_default().insert(f.row_ids.clone().unwrap_or_default());
                }
                s.inv.push(e.manifest.coq(), "true".into(), json!({"history": t.hist, "version": v}));
                if let (Some(p), Some(op)) = (&e.prev, &e.op) {
                    if p.next_row_id.is_some() {
                        s.opids.push(format!("({}, {})", p.coq(), op.coq()), "true".into(), json!({"history": t.hist, "version": v, "operation": op}));
                    }
                }
                last = Some(e);
            }
            Err(e) => {
                let class = if t.deferred_remap_on_stable && e.contains("split of indexed and non-indexed") { Some("stable_rowids_deferred_remap_unassigned_fragment_ids") } else { None };
                if class.is_none() {
                    sink.oracle_fail(None, &format!("committed version {v} cannot be read back: {}", e.chars().take(260).collect::<String>()), json!({"history": t.hist, "version": v}));
                }
            }
        }
    }
    t.verified = latest;
    t.expect_at.insert(latest, (t.expect.clone(), t.extra.clone()));
    let case = json!({"history": t.hist, "version": latest});
    // ---- the table must still have stable row ids
    if !t.ds.manifest.uses_stable_row_ids() {
        let empty = t.ds.manifest.fragments.is_empty();
        sink.oracle_fail(if empty { Some(CLASS_FLAG) } else { None }, "a table created with stable row ids no longer has FLAG_STABLE_ROW_IDS", case);
        return false;
    }
    // ---- known finding rowid_sequence_cache_keyed_by_fragment_id: a fragment id of this version carried another
    //      row id sequence in an earlier version of the history (Overwrite restarts fragment ids at 0) and both
    //      were read through this session.  Compare with a fresh session, then go on with the fresh handle.
    let clash = last.as_ref().map(|e| e.manifest.fragments.iter().any(|f| tr.seqs.get(&f.id).map(|x| x.len() > 1).unwrap_or(false))).unwrap_or(false)
        || t.ds.manifest.fragments.iter().any(|f| tr.seqs.get(&f.id).map(|x| x.len() > 1).unwrap_or(false));
    if clash {
        sink.count("c18:version-in-class:rowid_sequence_cache_keyed_by_fragment_id");
        let uri = t.uri.clone();
        match guarded(async move { Dataset::open(&uri).await }).await {
            Ok(fresh) => {
                let a = scan_rows(&t.ds).await.map(|r| r.iter().map(|x| (x.k, x.rowid)).collect::<Vec<_>>());
                let b = scan_rows(&fresh).await.map(|r| r.iter().map(|x| (x.k, x.rowid)).collect::<Vec<_>>());
                match (a, b) {
                    (Ok(a), Ok(b)) if a == b => sink.oracle_ok(),
                    (a, b) => sink.oracle_fail(Some(CLASS_CACHE), &format!("the same version scanned through the session that also read another version returns other row ids than through a fresh session: {:?} vs {:?}", a.map(|v| v.into_iter().take(6).collect::<Vec<_>>()), b.map(|v| v.into_iter().take(6).collect::<Vec<_>>())), case.clone()),
                }
                t.ds = fresh;
            }
            Err((_, e)) => sink.oracle_fail(None, &format!("cannot reopen the table: {e}"), case.clone()),
        }
    }
    let rows = match scan_rows(&t.ds).await {
        Ok(r) => r,
        Err((p, e)) => {
            sink.oracle_fail(None, &format!("scan with _rowid {}: {e}", if p { "panicked" } else { "failed" }), case);
            return true;
        }
    };
    // ---- 1. no two visible rows share a row id
    let mut seen = BTreeMap::new();
    let mut dup = None;
    for r in &rows {
        if let Some(k0) = seen.insert(r.rowid, r.k) {
            dup = Some((r.rowid, k0, r.k));
        }
    }
    match dup {
        None => sink.oracle_ok(),
        Some(d) => sink.oracle_fail(None, &format!("two visible rows share row id {}: keys {} and {}", d.0, d.1, d.2), case.clone()),
    }
    // ---- 2. a row that survived keeps its row id (keys identify rows; an overwrite starts a new table,
    //         a restore brings back the ids of the restored version)
    let now: BTreeMap<i64, u64> = rows.iter().map(|r| (r.k, r.rowid)).collect();
    let before = match restored {
        Some(v) => tr.ids_at.get(&v).cloned().unwrap_or_default(),
        None => tr.ids.clone(),
    };
    if !fresh_table {
        let changed: Vec<_> = now.iter().filter(|(k, id)| before.get(k).map(|b| b != *id).unwrap_or(false)).take(5).collect();
        if changed.is_empty() {
            sink.oracle_ok();
        } else {
            sink.oracle_fail(None, &format!("rows changed their row id during `{kind}`: (key, new id) {:?}, ids before {:?}", changed, changed.iter().map(|(k, _)| before[k]).collect::<Vec<_>>()), case.clone());
        }
        // fresh ids are never ids that were in use before
        let reused: Vec<_> = now.iter().filter(|(k, id)| !before.contains_key(k) && before.values().any(|b| b == *id)).take(5).collect();
        if reused.is_empty() {
            sink.oracle_ok();
        } else {
            sink.oracle_fail(None, &format!("new rows received row ids of other live rows: {:?}", reused), case.clone());
        }
    }
    tr.ids = now.clone();
    tr.ids_at.insert(latest, now);
    // ---- 3. values / row count as written (the harness' own table)
    let got: BTreeMap<i64, i64> = rows.iter().map(|r| (r.k, r.x)).collect();
    if got == t.expect && got.len() == rows.len() {
        sink.oracle_ok();
    } else {
        sink.oracle_fail(None, &format!("scan returns {} rows, {} were written and not deleted", rows.len(), t.expect.len()), case.clone());
    }
    // ---- model: live rows in address order
    tr.in_ranges_class = in_ranges_class(&rows);
    if tr.in_ranges_class {
        sink.count("c18:version:row-ids-non-monotone");
    } else {
        sink.count("c18:version:row-ids-monotone");
    }
    if let Some(e) = &last {
        // sanity test of the check itself (`--plant`): record one wrong row id in the first scan
        let plant = std::env::args().any(|a| a == "--plant") && s.live.is_empty() && !rows.is_empty();
        s.live.push(e.manifest.coq(), coq::list(rows.iter().enumerate().map(|(i, r)| format!("({}, {})", if plant && i == 0 { r.rowid + 1 } else { r.rowid }, r.addr))), json!({"history": t.hist, "version": latest, "rows": rows.len()}));
        sink.nontrivial(&format!("live:{}", e.manifest.coq()));
    }
    // ---- 4. take_rows(ids) returns the current values of exactly these rows
    if !rows.is_empty() {
        let mut probes: Vec<u64> = rows.iter().map(|r| r.rowid).collect();
        // shuffle, repeat one, keep it small
        for i in (1..probes.len()).rev() {
            let j = rng.below(i as u64 + 1) as usize;
            probes.swap(i, j);
        }
        probes.truncate(12);
        if rng.bool() {
            probes.push(probes[0]);
        }
        match take_ids(&t.ds, &probes).await {
            Ok(got) => {
                let by_id: BTreeMap<u64, &Row> = rows.iter().map(|r| (r.rowid, r)).collect();
                let want: Vec<(i64, i64, u64)> = probes.iter().map(|id| (by_id[id].k, by_id[id].x, by_id[id].addr)).collect();
                if got == want {
                    sink.oracle_ok();
                } else {
                    sink.oracle_fail(None, &format!("take_rows({:?}) returned (k, x, addr) {:?}, the rows with these ids are {:?}", probes, got, want), case.clone());
                }
                if let Some(e) = &last {
                    s.resolve.push(format!("({}, {})", e.manifest.coq(), coq::nlist(probes.iter())), coq::list(got.iter().map(|g| format!("(Some {})", g.2))), json!({"history": t.hist, "version": latest, "probes": probes}));
                }
            }
            Err((p, e)) => {
                sink.oracle_fail(None, &format!("take_rows on live row ids {}: {}", if p { "panicked" } else { "failed" }, e.chars().take(200).collect::<String>()), json!({"history": t.hist, "version": latest, "probes": probes}));
            }
        }
    }
    true
}

pub fn run(args: &Args) -> i32 {
    let mut sink = Sink::new("C18", &args.out);
    let mut rng = Rng::new(args.seed);
    let rt = tokio::runtime::Builder::new_multi_thread().worker_threads(4).enable_all().build().unwrap();
    let n_hist = args.vol(12, 140);
    let mut s = S18::new();
    rt.block_on(async {
        // corpus: the two known findings first (scripted), then generated histories
        for script in [vec![("create45", 0usize)], vec![("flagdrop", 0usize)]] {
            scripted(&mut s, &mut sink, &mut rng, script[0].0).await;
        }
        for _h in 0..n_hist {
            let mut ctx = Ctx::default();
            let mut t = Tbl::create(&mut rng, true).await;
            t.allow_deferred_remap = false;
            let mut tr = Track { ids: BTreeMap::new(), ids_at: BTreeMap::new(), in_ranges_class: false, seqs: BTreeMap::new() };
            let len = rng.range(4, 12);
            if !check_step(&mut ctx, &mut t, &mut tr, &mut s, &mut sink, &mut rng, "create", true, None).await {
                continue;
            }
            for _ in 0..len {
                let which = pick_step(&mut rng);
                sink.count(&format!("c18:step:{}", STEP_NAMES[which]));
                let was_in_class = tr.in_ranges_class;
                let hist_len = t.hist.len();
                let r = step(&mut t, &mut rng, which).await;
                let mut restored = None;
                if which == 8 {
                    if let Some(l) = t.hist.get(hist_len) {
                        restored = l.strip_prefix("restore version ").and_then(|v| v.parse::<u64>().ok());
                    }
                }
                if let Err((p, e)) = r {
                    sink.count(&format!("c18:step-{}:{}", if p { "panicked" } else { "refused" }, STEP_NAMES[which]));
                    t.hist.push(format!("   -> {}: {}", if p { "PANIC" } else { "error" }, e.chars().take(160).collect::<String>()));
                    if p {
                        // an operation that resolves row ids internally hit the index assertion
                        let _ = was_in_class;
                        sink.oracle_fail(None, &format!("`{}` panicked: {}", STEP_NAMES[which], e.chars().take(200).collect::<String>()), json!({"history": t.hist}));
                    }
                    let mut d = t.ds.clone();
                    if d.checkout_latest().await.is_ok() {
                        t.ds = d;
                    }
                    if let Ok(rows) = scan_kx(&t.ds).await {
                        t.expect = rows;
                    }
                    restored = None;
                }
                let fresh = which == 4 && t.hist.last().map(|l| l.starts_with("overwrite")).unwrap_or(false);
                if !check_step(&mut ctx, &mut t, &mut tr, &mut s, &mut sink, &mut rng, STEP_NAMES[which], fresh, restored).await {
                    break;
                }
            }
            sink.count("c18:history");
        }
    });
    // the shared C05 streams that also tie the model used by the C18 theorems to the code
    let S18 { base, inv, opids, live, resolve } = s;
    for st in [base.commit, base.create, base.restore, inv, opids, live, resolve] {
        if !st.is_empty() {
            sink.add(st);
        }
    }
    sink.notes.push(format!("e2e: {n_hist} histories with stable row ids, every committed version exported; corpus: F18 input (regression), flag drop on an empty table"));
    sink.finish();
    0
}

/// The reproductions of the two known findings (DESIGN §6 F18; the flag drop found while stating C18_stable_flag_sticky).
async fn scripted(s: &mut S18, sink: &mut Sink, rng: &mut Rng, which: &str) {
    let mut ctx = Ctx::default();
    let mut tr = Track { ids: BTreeMap::new(), ids_at: BTreeMap::new(), in_ranges_class: false, seqs: BTreeMap::new() };
    match which {
        "create45" => {
            // F18: 45 rows, 10 per file; delete k % 3 = 0 OR 20 <= k < 30; update k = 31 OR k = 7; take_rows
            let mut t = Tbl::create_with(true, lance_file::version::LanceFileVersion::V2_0, 10, 45).await;
            check_step(&mut ctx, &mut t, &mut tr, s, sink, rng, "create", true, None).await;
            let _ = t.delete_where("k % 3 = 0 OR (k >= 20 AND k < 30)", |k| k % 3 == 0 || (20..30).contains(&k)).await;
            check_step(&mut ctx, &mut t, &mut tr, s, sink, rng, "delete", false, None).await;
            let _ = t.update_where("k = 31 OR k = 7", |k| k == 31 || k == 7).await;
            check_step(&mut ctx, &mut t, &mut tr, s, sink, rng, "update", false, None).await;
            sink.count("c18:corpus:F18");
        }
        _ => {
            // flag drop: delete every row (no fragment left), update_config (apply_commit, use_stable_row_ids = false)
            let mut t = Tbl::create_with(true, lance_file::version::LanceFileVersion::V2_0, 10, 6).await;
            check_step(&mut ctx, &mut t, &mut tr, s, sink, rng, "create", true, None).await;
            let _ = t.delete_where("k >= 0", |_| true).await;
            check_step(&mut ctx, &mut t, &mut tr, s, sink, rng, "delete", false, None).await;
            let _ = t.update_config(rng).await;
            check_step(&mut ctx, &mut t, &mut tr, s, sink, rng, "update_config", false, None).await;
            sink.count("c18:corpus:flag-drop");
        }
    }
}

pub fn probe() {
    let rt = tokio::runtime::Builder::new_multi_thread().worker_threads(4).enable_all().build().unwrap();
    rt.block_on(async {
        let mut rng = Rng::new(1);
        println!("=== fragment-id keyed cache: create 14 rows (5 per file); overwrite with 10 rows; read version 1 again through the same handle");
        let mut t = Tbl::create_with(true, lance_file::version::LanceFileVersion::V2_0, 5, 14).await;
        let v1 = scan_rows(&t.ds).await.unwrap();
        println!("    v1 (k,rowid) = {:?}", v1.iter().map(|r| (r.k, r.rowid)).collect::<Vec<_>>());
        t.overwrite_n(10).await.unwrap();
        let v2 = scan_rows(&t.ds).await.unwrap();
        println!("    v2 after overwrite: fragments {:?} (k,rowid) = {:?}", t.ds.manifest.fragments.iter().map(|f| f.id).collect::<Vec<_>>(), v2.iter().map(|r| (r.k, r.rowid)).collect::<Vec<_>>());
        let old = t.ds.checkout_version(1).await.unwrap();
        let again = scan_rows(&old).await.unwrap();
        println!("    checkout_version(1) through the same session: (k,rowid) = {:?}", again.iter().map(|r| (r.k, r.rowid)).collect::<Vec<_>>());
        let fresh = lance::Dataset::open(&t.uri).await.unwrap().checkout_version(1).await.unwrap();
        let again2 = scan_rows(&fresh).await.unwrap();
        println!("    version 1 through a fresh session:              (k,rowid) = {:?}", again2.iter().map(|r| (r.k, r.rowid)).collect::<Vec<_>>());
        let ids: Vec<u64> = v1.iter().take(3).map(|r| r.rowid).collect();
        println!("    take_rows({ids:?}) on version 1 (same session) -> {:?}", take_ids(&old, &ids).await.map_err(|e| e.1.chars().take(160).collect::<String>()));
        println!("=== F18: stable row ids, 45 rows / 10 per file; delete; update; take_rows");
        let mut t = Tbl::create_with(true, lance_file::version::LanceFileVersion::V2_0, 10, 45).await;
        t.delete_where("k % 3 = 0 OR (k >= 20 AND k < 30)", |k| k % 3 == 0 || (20..30).contains(&k)).await.unwrap();
        t.update_where("k = 31 OR k = 7", |k| k == 31 || k == 7).await.unwrap();
        let rows = scan_rows(&t.ds).await.unwrap();
        println!("    row ids in address order: {:?}", rows.iter().map(|r| r.rowid).collect::<Vec<_>>());
        let ids: Vec<u64> = rows.iter().take(5).map(|r| r.rowid).collect();
        println!("    take_rows({ids:?}) -> {:?}", take_ids(&t.ds, &ids).await.map_err(|e| e.1.chars().take(160).collect::<String>()));
        println!("=== flag drop: create 6 rows with stable row ids; delete all; update_config; append 4; update one");
        let mut t = Tbl::create_with(true, lance_file::version::LanceFileVersion::V2_0, 10, 6).await;
        println!("    v{} uses_stable_row_ids={} next_row_id={}", t.ds.version().version, t.ds.manifest.uses_stable_row_ids(), t.ds.manifest.next_row_id);
        t.delete_where("k >= 0", |_| true).await.unwrap();
        println!("    v{} fragments={} uses_stable_row_ids={} next_row_id={}", t.ds.version().version, t.ds.manifest.fragments.len(), t.ds.manifest.uses_stable_row_ids(), t.ds.manifest.next_row_id);
        t.update_config(&mut rng).await.unwrap();
        println!("    v{} after update_config: uses_stable_row_ids={} next_row_id={}", t.ds.version().version, t.ds.manifest.uses_stable_row_ids(), t.ds.manifest.next_row_id);
        t.append(&mut rng).await.unwrap();
        let before = scan_rows(&t.ds).await.unwrap();
        println!("    v{} after append (enable_stable_row_ids=true requested): uses_stable_row_ids={} rows (k,rowid)={:?}", t.ds.version().version, t.ds.manifest.uses_stable_row_ids(), before.iter().map(|r| (r.k, r.rowid)).collect::<Vec<_>>());
        let k0 = before[0].k;
        t.update_where(&format!("k = {k0}"), move |k| k == k0).await.unwrap();
        let after = scan_rows(&t.ds).await.unwrap();
        println!("    after UPDATE k = {k0}: rows (k,rowid)={:?}", after.iter().map(|r| (r.k, r.rowid)).collect::<Vec<_>>());
    });
}
