//! Chunker arm: chunk_stream / chunk_concat_stream / break_stream / StrictBatchSizeStream on random
//! inner streams (batches of random sizes incl. empty, sliced batches, Err items), compared with the
//! Gallina model row for row, plus model-independent oracles.
use crate::common::*;
use arrow_array::RecordBatch;
use futures::{Stream, StreamExt};
use hxlib::util::{catch, coq, Args, Rng, Sink, Stream as CStream};
use lance::deps::datafusion::error::DataFusionError;
use lance::deps::datafusion::physical_plan::stream::RecordBatchStreamAdapter;
use lance::deps::datafusion::physical_plan::SendableRecordBatchStream;
use lance_datafusion::chunker::{break_stream, chunk_concat_stream, chunk_stream, StrictBatchSizeStream};
use serde_json::json;

const REQ: &str = "Common.Base Io.Model_Chunker";
const ITY: &str = "N * list (option (list N))";
const CAP: usize = 5000;

#[derive(Clone)]
pub enum Item {
    B(RecordBatch),
    E,
}

pub fn make_stream(items: &[Item]) -> SendableRecordBatchStream {
    let v: Vec<Result<RecordBatch, DataFusionError>> = items
        .iter()
        .map(|i| match i {
            Item::B(b) => Ok(b.clone()),
            Item::E => Err(DataFusionError::Execution("injected".into())),
        })
        .collect();
    Box::pin(RecordBatchStreamAdapter::new(schema(), futures::stream::iter(v)))
}

/// drain a stream; an Err item is recorded as None; more than CAP items is reported as a panic-like
/// divergence (never happens on the unchanged tree; keeps a broken build from hanging)
async fn drain<T, E, S: Stream<Item = Result<T, E>> + Unpin>(mut s: S) -> Result<Vec<Option<T>>, ()> {
    let mut out = vec![];
    while let Some(x) = s.next().await {
        out.push(x.ok());
        if out.len() > CAP {
            return Err(());
        }
    }
    Ok(out)
}

fn gen_items(rng: &mut Rng, n: usize) -> Vec<Item> {
    let len = match rng.below(10) {
        0 => 0,
        1 => 1,
        _ => rng.range(2, 8) as usize,
    };
    let with_err = rng.chance(1, 6);
    let mut next_id = 0i32;
    let mut items = vec![];
    let n1 = n.max(1);
    for _ in 0..len {
        if with_err && rng.chance(1, 4) {
            items.push(Item::E);
            continue;
        }
        let sz = match rng.below(12) {
            0 | 1 => 0,
            2 => 1,
            3 => n1,
            4 => n1 + 1,
            5 => n1.saturating_sub(1),
            6 => 2 * n1,
            7 => 2 * n1 + 1,
            8 => 3 * n1 - 1,
            9 => rng.range(1, n1 as u64) as usize,
            _ => rng.range(0, 24) as usize,
        }
        .min(40);
        items.push(Item::B(gen_batch(rng, next_id, sz)));
        next_id += sz as i32;
    }
    items
}

fn coq_items(items: &[Item]) -> String {
    coq::list(items.iter().map(|i| match i {
        Item::B(b) => format!("(Some {})", coq_rows(b)),
        Item::E => "None".into(),
    }))
}

fn ok_batches(items: &[Item]) -> Vec<RecordBatch> {
    items.iter().filter_map(|i| if let Item::B(b) = i { Some(b.clone()) } else { None }).collect()
}

fn n_err(items: &[Item]) -> usize {
    items.iter().filter(|i| matches!(i, Item::E)).count()
}

fn human(items: &[Item]) -> serde_json::Value {
    json!(items.iter().map(|i| match i { Item::B(b) => json!(ids(b)), Item::E => json!("Err") }).collect::<Vec<_>>())
}

fn coq_out_batches(r: &Result<Vec<Option<RecordBatch>>, bool>) -> String {
    coq::outcome(&r.as_ref().map(|v| coq::list(v.iter().map(|x| coq::opt(x.as_ref().map(coq_rows))))).map_err(|e| *e))
}

/// exact-size oracle shared by chunk_concat and strict: all Ok batches have n rows except the last
/// (1..=n), rows preserved in order, Err items preserved in number
fn exact_oracle(n: usize, items: &[Item], out: &[Option<RecordBatch>]) -> Option<String> {
    let got: Vec<RecordBatch> = out.iter().flatten().cloned().collect();
    if out.iter().filter(|x| x.is_none()).count() != n_err(items) {
        return Some("number of Err items changed".into());
    }
    if !same_rows(&got, &ok_batches(items)) {
        return Some("concatenation of the output differs from the input".into());
    }
    for (k, b) in got.iter().enumerate() {
        if b.num_rows() == 0 {
            return Some("empty output batch".into());
        }
        if k + 1 < got.len() && b.num_rows() != n {
            return Some(format!("output batch {k} has {} rows, expected {n}", b.num_rows()));
        }
        if b.num_rows() > n {
            return Some(format!("last output batch has {} rows > {n}", b.num_rows()));
        }
    }
    None
}

pub fn run(args: &Args, sink: &mut Sink, rt: &tokio::runtime::Runtime) {
    let mut rng = Rng::new(args.seed ^ 0xC41C);
    let mut s_chunk = CStream::new("chunk", REQ, "chk_chunk_stream", ITY, "outcome (list (option (list (list N))))");
    let mut s_concat = CStream::new("chunk_concat", REQ, "chk_chunk_concat", ITY, "outcome (list (option (list N)))");
    let mut s_break = CStream::new("brk", REQ, "chk_break_stream", ITY, "outcome (list (option (list N)))");
    let mut s_strict = CStream::new("strict", REQ, "chk_strict_stream", ITY, "outcome (list (option (list N)))");

    for s in [&mut s_chunk, &mut s_concat, &mut s_break, &mut s_strict] {
        s.shard = 200;
    }
    let mut cases: Vec<(usize, Vec<Item>)> = vec![];
    // corpus: the Rust unit tests and the doc example of break_stream
    let ut = |sizes: &[usize]| {
        let mut id = 0;
        sizes
            .iter()
            .map(|s| {
                let b = batch_of(&(id..id + *s as i32).collect::<Vec<_>>());
                id += *s as i32;
                Item::B(b)
            })
            .collect::<Vec<_>>()
    };
    cases.push((10, ut(&[10, 5, 13, 0])));
    cases.push((10, ut(&[3, 5, 8, 3, 5])));
    cases.push((10, ut(&[7; 10])));
    cases.push((5, ut(&[7, 4])));
    cases.push((3, ut(&[28])));
    cases.push((0, ut(&[2, 3])));
    cases.push((1, ut(&[0, 0, 0])));
    cases.push((4, vec![]));
    // exhaustive small universe: all size lists over {0,1,2,3} of length <= 3, n in 1..=3
    for n in 1..=3usize {
        for len in 0..=3usize {
            for code in 0..4usize.pow(len as u32) {
                let mut c = code;
                let sizes: Vec<usize> = (0..len).map(|_| { let s = c % 4; c /= 4; s }).collect();
                cases.push((n, ut(&sizes)));
            }
        }
    }
    for _ in 0..args.vol(240, 6000) {
        let n = match rng.below(10) {
            0 => 0,
            1 => 1,
            2 => 2,
            3 => 3,
            4 => 4,
            5 => 5,
            6 => 7,
            7 => 10,
            8 => 16,
            _ => rng.range(1, 12) as usize,
        };
        let items = gen_items(&mut rng, n);
        cases.push((n, items));
    }

    for (n, items) in &cases {
        let (n, items) = (*n, items.as_slice());
        let inp = format!("({}, {})", n, coq_items(items));
        let hj = json!({"size": n, "input": human(items)});
        sink.nontrivial(&inp);
        sink.count(if n == 0 { "chunker:size0" } else if n_err(items) > 0 { "chunker:with-err-items" } else { "chunker:plain" });
        let expect = ok_batches(items);
        let total: usize = expect.iter().map(|b| b.num_rows()).sum();

        // ---- chunk_stream
        let r = catch(|| rt.block_on(drain(chunk_stream(make_stream(items), n)))).and_then(|x| x.map_err(|_| true));
        let co = coq::outcome(&r.as_ref().map(|v| {
            coq::list(v.iter().map(|x| coq::opt(x.as_ref().map(|c| coq::list(c.iter().map(coq_rows))))))
        }).map_err(|e| *e));
        if n > 0 {
            let why = match &r {
                Err(_) => Some("chunk_stream panicked or diverged".to_string()),
                Ok(v) => {
                    let chunks: Vec<&Vec<RecordBatch>> = v.iter().flatten().collect();
                    let flat: Vec<RecordBatch> = chunks.iter().flat_map(|c| c.iter().cloned()).collect();
                    let mut why = None;
                    if v.iter().filter(|x| x.is_none()).count() != n_err(items) {
                        why = Some("number of Err items changed".to_string());
                    } else if !same_rows(&flat, &expect) {
                        why = Some("concatenation of the chunks differs from the input".to_string());
                    } else {
                        for (k, c) in chunks.iter().enumerate() {
                            let rows: usize = c.iter().map(|b| b.num_rows()).sum();
                            if c.iter().any(|b| b.num_rows() == 0) || rows == 0 {
                                why = Some("empty batch or chunk in the output".to_string());
                            } else if k + 1 < chunks.len() && rows != n {
                                why = Some(format!("chunk {k} has {rows} rows, expected {n}"));
                            } else if rows > n {
                                why = Some(format!("last chunk has {rows} rows > {n}"));
                            }
                        }
                    }
                    why
                }
            };
            match why {
                Some(w) => sink.oracle_fail(None, &format!("chunk_stream: {w}"), hj.clone()),
                None => sink.oracle_ok(),
            }
        }
        s_chunk.push(inp.clone(), co, json!({"size": n, "input": human(items), "fn": "chunk_stream", "out": format!("{:?}", r.as_ref().map(|v| v.iter().map(|x| x.as_ref().map(|c| c.iter().map(|b| b.num_rows()).collect::<Vec<_>>())).collect::<Vec<_>>()))}));

        // ---- chunk_concat_stream
        let r = catch(|| rt.block_on(drain(chunk_concat_stream(make_stream(items), n)))).and_then(|x| x.map_err(|_| true));
        if n > 0 {
            match &r {
                Err(_) => sink.oracle_fail(None, "chunk_concat_stream panicked or diverged", hj.clone()),
                Ok(v) => match exact_oracle(n, items, v) {
                    Some(w) => sink.oracle_fail(None, &format!("chunk_concat_stream: {w}"), hj.clone()),
                    None => sink.oracle_ok(),
                },
            }
        }
        s_concat.push(inp.clone(), coq_out_batches(&r), json!({"size": n, "input": human(items), "fn": "chunk_concat_stream", "out": format!("{:?}", r.as_ref().map(|v| v.iter().map(|x| x.as_ref().map(|b| b.num_rows())).collect::<Vec<_>>()))}));

        // ---- break_stream
        let r = catch(|| rt.block_on(drain(break_stream(make_stream(items), n)))).and_then(|x| x.map_err(|_| true));
        if n > 0 {
            let why = match &r {
                Err(_) => Some("break_stream panicked or diverged".to_string()),
                Ok(v) => {
                    let got: Vec<RecordBatch> = v.iter().flatten().cloned().collect();
                    let mut why = None;
                    if v.iter().filter(|x| x.is_none()).count() != n_err(items) {
                        why = Some("number of Err items changed".to_string());
                    } else if !same_rows(&got, &expect) {
                        why = Some("concatenation of the output differs from the input".to_string());
                    } else {
                        // boundaries: out boundaries = input boundaries U multiples of n (within the total)
                        let mut inb = std::collections::BTreeSet::new();
                        let mut acc = 0usize;
                        for b in &expect {
                            acc += b.num_rows();
                            inb.insert(acc);
                        }
                        let mut k = n;
                        while k < total {
                            inb.insert(k);
                            k += n;
                        }
                        inb.remove(&0);
                        let mut outb = std::collections::BTreeSet::new();
                        let mut acc = 0usize;
                        for b in &got {
                            if b.num_rows() == 0 {
                                why = Some("empty output batch".to_string());
                            }
                            acc += b.num_rows();
                            outb.insert(acc);
                        }
                        if why.is_none() && inb != outb {
                            why = Some(format!("output boundaries {:?} are not input boundaries + multiples of {n} {:?}", outb, inb));
                        }
                    }
                    why
                }
            };
            match why {
                Some(w) => sink.oracle_fail(None, &format!("break_stream: {w}"), hj.clone()),
                None => sink.oracle_ok(),
            }
        }
        s_break.push(inp.clone(), coq_out_batches(&r), json!({"size": n, "input": human(items), "fn": "break_stream", "out": format!("{:?}", r.as_ref().map(|v| v.iter().map(|x| x.as_ref().map(|b| b.num_rows())).collect::<Vec<_>>()))}));

        // ---- StrictBatchSizeStream (size 0 never terminates: outside the model's domain, not generated)
        if n > 0 {
            let r = catch(|| rt.block_on(drain(StrictBatchSizeStream::new(make_stream(items), n)))).and_then(|x| x.map_err(|_| true));
            match &r {
                Err(_) => sink.oracle_fail(None, "StrictBatchSizeStream panicked or diverged", hj.clone()),
                Ok(v) => match exact_oracle(n, items, v) {
                    Some(w) => sink.oracle_fail(None, &format!("StrictBatchSizeStream: {w}"), hj.clone()),
                    None => sink.oracle_ok(),
                },
            }
            s_strict.push(inp.clone(), coq_out_batches(&r), json!({"size": n, "input": human(items), "fn": "StrictBatchSizeStream", "out": format!("{:?}", r.as_ref().map(|v| v.iter().map(|x| x.as_ref().map(|b| b.num_rows())).collect::<Vec<_>>()))}));
        }
    }
    sink.notes.push(format!(
        "chunker: {} inner streams (unit-test inputs, all size lists over {{0..3}} of length <= 3 x size 1..3, random sizes around the chunk size incl. empty/sliced batches and Err items) through chunk_stream, chunk_concat_stream, break_stream, StrictBatchSizeStream",
        cases.len()
    ));
    sink.add(s_chunk);
    sink.add(s_concat);
    sink.add(s_break);
    sink.add(s_strict);
}
