//! hx_c41: replay spill and stream chunking deliver every batch exactly once (C41).
mod chunk;
mod common;
mod e2e;
mod spill;

fn main() {
    let (sub, args) = hxlib::util::Args::parse();
    let code = match sub.as_str() {
        "c41" => run(&args),
        _ => {
            eprintln!("unknown subcommand {sub}");
            2
        }
    };
    std::process::exit(code);
}

fn run(args: &hxlib::util::Args) -> i32 {
    let mut sink = hxlib::util::Sink::new("C41", &args.out);
    let rt = tokio::runtime::Builder::new_multi_thread().worker_threads(4).enable_all().build().unwrap();
    chunk::run(args, &mut sink, &rt);
    spill::run(args, &mut sink, &rt);
    e2e::run(args, &mut sink, &rt);
    sink.finish();
    0
}
