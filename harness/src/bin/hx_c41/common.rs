//! Batches used by every arm: two columns, `id` (Int32, the row identity that travels to the Coq
//! model) and `s` (nullable Utf8 derived from the id, compared only by the Rust-side oracles).
use arrow_array::{Array, Int32Array, RecordBatch, StringArray};
use arrow_schema::{DataType, Field, Schema, SchemaRef};
use hxlib::util::{coq, Rng};
use std::sync::Arc;

pub fn schema() -> SchemaRef {
    Arc::new(Schema::new(vec![Field::new("id", DataType::Int32, false), Field::new("s", DataType::Utf8, true)]))
}

pub fn batch_of(ids: &[i32]) -> RecordBatch {
    let s: StringArray = ids.iter().map(|i| if i % 5 == 0 { None } else { Some(format!("v{i}")) }).collect();
    RecordBatch::try_new(schema(), vec![Arc::new(Int32Array::from(ids.to_vec())), Arc::new(s)]).unwrap()
}

/// A batch with ids `start..start+len`; sometimes produced as a slice of a larger batch so that
/// array offsets are non-zero.
pub fn gen_batch(rng: &mut Rng, start: i32, len: usize) -> RecordBatch {
    if rng.chance(1, 3) {
        let pre = rng.below(4) as usize;
        let post = rng.below(3) as usize;
        let ids: Vec<i32> = (0..pre + len + post).map(|k| start - pre as i32 + k as i32).collect();
        batch_of(&ids).slice(pre, len)
    } else {
        let ids: Vec<i32> = (start..start + len as i32).collect();
        batch_of(&ids)
    }
}

pub fn ids(b: &RecordBatch) -> Vec<i64> {
    let a = b.column(0).as_any().downcast_ref::<Int32Array>().unwrap();
    (0..a.len()).map(|i| a.value(i) as i64).collect()
}

/// rows as a Coq `list N` (ids are generated non-negative)
pub fn coq_rows(b: &RecordBatch) -> String {
    coq::list(ids(b).iter().map(|x| coq::n(*x as u64)))
}

/// full logical equality of the rows of a list of batches (both columns, nulls included)
pub fn same_rows(a: &[RecordBatch], b: &[RecordBatch]) -> bool {
    let ca = arrow_select::concat::concat_batches(&schema(), a.iter()).unwrap();
    let cb = arrow_select::concat::concat_batches(&schema(), b.iter()).unwrap();
    ca == cb
}

