//! End-to-end arm through the public API (oracle only, brute-force expectations):
//!  * Dataset::write with random batch boundaries and max_rows_per_file / max_rows_per_group:
//!    fragment row counts must be the exact cut (break_stream in 2.x, chunk_stream in legacy) and an
//!    ordered scan must return the input rows;
//!  * scan with strict_batch_size: every batch but the last has exactly batch_size rows (StrictBatchSizeStream);
//!  * merge_insert of a multi-batch source with conflict retries on: the source travels through the
//!    replay spill (SpillStreamIter) - the table must contain every source row exactly once.
use crate::common::*;
use arrow_array::{RecordBatch, RecordBatchIterator};
use futures::TryStreamExt;
use hxlib::util::{Args, Rng, Sink};
use lance::dataset::{MergeInsertBuilder, WhenMatched, WhenNotMatched, WriteParams};
use lance::Dataset;
use lance_encoding::version::LanceFileVersion;
use serde_json::json;
use std::sync::Arc;

fn gen_batches(rng: &mut Rng, start: i32, nb: usize, max_len: u64) -> Vec<RecordBatch> {
    let mut next = start;
    (0..nb)
        .map(|_| {
            let len = if rng.chance(1, 8) { 0 } else { rng.range(1, max_len) as usize };
            let b = gen_batch(rng, next, len);
            next += len as i32;
            b
        })
        .collect()
}

async fn scan_all(ds: &Dataset) -> Vec<RecordBatch> {
    ds.scan().try_into_stream().await.unwrap().try_collect::<Vec<_>>().await.unwrap()
}

pub fn run(args: &Args, sink: &mut Sink, rt: &tokio::runtime::Runtime) {
    let mut rng = Rng::new(args.seed ^ 0xE2E41);
    let dir = tempfile::tempdir().unwrap();
    let ncases = args.vol(14, 150);
    for ci in 0..ncases {
        let nb = rng.range(1, 7) as usize;
        let batches = gen_batches(&mut rng, 0, nb, 60);
        let total: usize = batches.iter().map(|b| b.num_rows()).sum();
        if total == 0 {
            continue;
        }
        let version = *rng.pick(&[LanceFileVersion::Legacy, LanceFileVersion::Legacy, LanceFileVersion::V2_0, LanceFileVersion::V2_1]);
        let m = rng.range(1, 50) as usize; // max_rows_per_file
        let g = rng.range(1, 20) as usize; // max_rows_per_group (legacy only)
        let uri = dir.path().join(format!("t{ci}")).to_string_lossy().to_string();
        let hj = json!({"sizes": batches.iter().map(|b| b.num_rows()).collect::<Vec<_>>(), "max_rows_per_file": m, "max_rows_per_group": g, "version": format!("{version:?}")});
        let params = WriteParams { max_rows_per_file: m, max_rows_per_group: g, data_storage_version: Some(version), ..Default::default() };
        let reader = RecordBatchIterator::new(batches.clone().into_iter().map(Ok), schema());
        let res: Result<(), String> = rt.block_on(async {
            let ds = Dataset::write(reader, &uri, Some(params)).await.map_err(|e| format!("write failed: {e}"))?;
            // ---- fragment sizes: exact cut
            let frags: Vec<usize> = ds.fragments().iter().map(|f| f.physical_rows.unwrap_or(0)).collect();
            // legacy: groups of min(g, m) rows (write.rs clamps max_rows_per_group to max_rows_per_file), a file is
            // closed once it holds >= m rows; 2.x: break_stream cuts exactly at m
            let per = if version == LanceFileVersion::Legacy { let g1 = g.min(m); m.div_ceil(g1) * g1 } else { m };
            let mut expect = vec![per; total / per];
            if total % per != 0 {
                expect.push(total % per);
            }
            if frags != expect {
                return Err(format!("fragment row counts {frags:?}, expected {expect:?}"));
            }
            // ---- ordered scan returns the input
            let got = scan_all(&ds).await;
            if !same_rows(&got, &batches) {
                return Err("ordered scan differs from the rows written".into());
            }
            // ---- strict batch size
            let bs = rng.range(1, 40) as usize;
            let mut sc = ds.scan();
            sc.batch_size(bs).strict_batch_size(true);
            let got: Vec<RecordBatch> = sc.try_into_stream().await.map_err(|e| e.to_string())?.try_collect().await.map_err(|e| e.to_string())?;
            if !same_rows(&got, &batches) {
                return Err(format!("strict_batch_size({bs}) scan differs from the rows written"));
            }
            for (k, b) in got.iter().enumerate() {
                if b.num_rows() == 0 || b.num_rows() > bs || (k + 1 < got.len() && b.num_rows() != bs) {
                    return Err(format!("strict_batch_size({bs}): batch sizes {:?}", got.iter().map(|b| b.num_rows()).collect::<Vec<_>>()));
                }
            }
            // ---- merge_insert with retries: the source is replayed from a spill
            let nsrc = rng.range(2, 6) as usize;
            let src = gen_batches(&mut rng, total as i32 + 10, nsrc, 30);
            let mut mb = MergeInsertBuilder::try_new(Arc::new(ds), vec!["id".to_string()]).map_err(|e| e.to_string())?;
            mb.when_matched(WhenMatched::DoNothing).when_not_matched(WhenNotMatched::InsertAll).conflict_retries(3);
            let job = mb.try_build().map_err(|e| e.to_string())?;
            let rdr = RecordBatchIterator::new(src.clone().into_iter().map(Ok), schema());
            let (ds2, stats) = job.execute_reader(Box::new(rdr)).await.map_err(|e| format!("merge_insert failed: {e}"))?;
            let nsrc_rows: usize = src.iter().map(|b| b.num_rows()).sum();
            if stats.num_inserted_rows as usize != nsrc_rows {
                return Err(format!("merge_insert inserted {} rows, source has {nsrc_rows}", stats.num_inserted_rows));
            }
            let mut got_ids: Vec<i64> = scan_all(&ds2).await.iter().flat_map(ids).collect();
            got_ids.sort();
            let mut want: Vec<i64> = batches.iter().chain(src.iter()).flat_map(ids).collect();
            want.sort();
            if got_ids != want {
                return Err("after merge_insert the table is not old rows + every source row exactly once".into());
            }
            Ok(())
        });
        sink.count("e2e:dataset-cases");
        sink.count(match version { LanceFileVersion::Legacy => "e2e:legacy(chunk_stream)", _ => "e2e:v2(break_stream)" });
        match res {
            Ok(()) => sink.oracle_ok(),
            Err(w) => sink.oracle_fail(None, &format!("e2e: {w}"), hj),
        }
    }
    sink.notes.push(format!("e2e: {ncases} Dataset::write / ordered scan / strict_batch_size scan / merge_insert-through-spill cases (legacy, 2.0, 2.1)"));
}
