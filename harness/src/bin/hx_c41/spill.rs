//! Replay spill. Arm A: scripted schedules of sender calls, reader creations and reader polls executed
//! on the real SpillSender/SpillReceiver; every return value is recorded and compared with the
//! Gallina state machine (stream `spill`). Reader events listed "during" a write/finish run after the
//! first poll of that call's future and before it is awaited; whether that first poll was Pending
//! (the call was really suspended on file I/O) is recorded in the event (`awaited`).
//! Arm B: a writer task and reader tasks racing on a multi-thread runtime; oracle only.
use crate::common::*;
use arrow_array::RecordBatch;
use futures::{StreamExt, TryStreamExt};
use hxlib::util::{coq, Args, Rng, Sink, Stream as CStream};
use lance::deps::datafusion::error::DataFusionError;
use lance::deps::datafusion::physical_plan::SendableRecordBatchStream;
use lance_arrow::memory::MemoryAccumulator;
use lance_datafusion::spill::{create_replay_spill, SpillReceiver, SpillSender};
use serde_json::json;
use std::time::Duration;

const REQ: &str = "Common.Base Io.Model_Spill";
/// liveness: an operation that takes milliseconds gets this long before it is declared stuck
const LIVE: Duration = Duration::from_secs(30);
/// grace given to a poll that is expected to block on the watch channel
const GRACE: Duration = Duration::from_millis(4);

#[derive(Clone, Debug)]
enum REv {
    Open,
    Poll(usize),
}
#[derive(Clone, Debug)]
enum Ev {
    Write(usize, Vec<REv>),
    Finish(Vec<REv>),
    SendError,
    Drop,
    Read(REv),
}

struct ReaderH {
    stream: SendableRecordBatchStream,
    delivered: Vec<RecordBatch>,
    done: bool,
}

/// harness-side bookkeeping, independent of the model: what has been handed to / acknowledged by the sender
#[derive(Default)]
struct Book {
    offered: Vec<RecordBatch>, // batches of writes that returned Ok or are in flight
    acked: usize,              // writes that returned Ok
    finished: bool,            // finish() returned Ok
    error_sent: bool,
    dropped: bool,
    fails: Vec<String>,
}

fn coq_rev(e: &REv) -> String {
    match e {
        REv::Open => "ROpen".into(),
        REv::Poll(r) => format!("(RPoll {r})"),
    }
}

async fn do_rev(e: &REv, rx: &SpillReceiver, readers: &mut Vec<ReaderH>, book: &mut Book) -> String {
    match e {
        REv::Open => {
            readers.push(ReaderH { stream: rx.read(), delivered: vec![], done: false });
            "OOpened".into()
        }
        REv::Poll(k) => {
            let Some(r) = readers.get_mut(*k) else { return "ONoReader".into() };
            let avail = r.done || book.finished || book.error_sent || book.dropped || r.delivered.len() < book.acked;
            match tokio::time::timeout(if avail { LIVE } else { GRACE }, r.stream.next()).await {
                Err(_) => {
                    if avail {
                        book.fails.push(format!("reader {k} stuck: nothing delivered within {LIVE:?} although data/end is available"));
                    }
                    "OPending".into()
                }
                Ok(None) => {
                    if !r.done {
                        if !book.finished || book.error_sent {
                            book.fails.push(format!("reader {k} ended before the spill was finished"));
                        } else if r.delivered.len() != book.acked {
                            book.fails.push(format!("reader {k} ended after {} of {} batches", r.delivered.len(), book.acked));
                        }
                    }
                    r.done = true;
                    "OEnd".into()
                }
                Ok(Some(Ok(b))) => {
                    let idx = r.delivered.len();
                    if idx >= book.offered.len() || book.offered[idx] != b {
                        book.fails.push(format!("reader {k} delivered a batch that is not written batch #{idx}: ids {:?}", ids(&b)));
                    }
                    let s = format!("(OBatch {})", coq_rows(&b));
                    r.delivered.push(b);
                    s
                }
                Ok(Some(Err(err))) => {
                    r.done = true;
                    let msg = err.to_string();
                    if msg.contains("dropped before reader") {
                        if !book.dropped {
                            book.fails.push(format!("reader {k}: 'dropped' error while the sender is alive"));
                        }
                        "(OErrR REDropped)".into()
                    } else if msg.contains("boom") {
                        if !book.error_sent {
                            book.fails.push(format!("reader {k}: sender error delivered but none was sent"));
                        }
                        "(OErrR RESent)".into()
                    } else {
                        book.fails.push(format!("reader {k}: unexpected error {msg}"));
                        "(OErrR REIo)".into()
                    }
                }
            }
        }
    }
}

fn coq_sres(r: &Result<(), DataFusionError>) -> String {
    match r {
        Ok(()) => "SOk".into(),
        Err(e) => {
            let m = e.to_string();
            if m.contains("already been finished") {
                "(SErr WEFinished)".into()
            } else if m.contains("sent an error") {
                "(SErr WEErrored)".into()
            } else {
                "(SErr WEIo)".into()
            }
        }
    }
}

/// Execute one schedule on the real spill; returns (coq events, coq observations, oracle failures, tags)
async fn exec(dir: &std::path::Path, case: usize, limit: usize, batches: &[RecordBatch], sched: &[Ev]) -> (Vec<String>, Vec<String>, Vec<String>, Vec<&'static str>) {
    let path = dir.join(format!("spill_{case}.arrows"));
    let _ = std::fs::remove_file(&path);
    let (tx, rx) = create_replay_spill(path.clone(), schema(), limit);
    let mut tx: Option<SpillSender> = Some(tx);
    let mut acc = MemoryAccumulator::default();
    let mut readers: Vec<ReaderH> = vec![];
    let mut book = Book::default();
    let (mut evs, mut obs) = (vec![], vec![]);
    let mut tags = vec![];
    let mut was_spilled = false;
    for e in sched {
        match e {
            Ev::Read(re) => {
                let o = do_rev(re, &rx, &mut readers, &mut book).await;
                evs.push(format!("ERead {}", coq_rev(re)));
                obs.push(format!("ORead {o}"));
            }
            Ev::Write(bi, during) => {
                let b = batches[*bi].clone();
                acc.record_batch(&b);
                let total = acc.total();
                let ev = |awaited: bool| format!("EWrite {} {} {} {}", coq_rows(&b), total, coq::b(awaited), coq::list(during.iter().map(coq_rev)));
                let Some(sender) = tx.as_mut() else {
                    evs.push(ev(false));
                    obs.push("OGone".into());
                    continue;
                };
                let n_off = book.offered.len();
                book.offered.push(b.clone());
                let mut fut = Box::pin(sender.write(b.clone()));
                let first = futures::poll!(fut.as_mut());
                evs.push(ev(first.is_pending()));
                let mut dobs = vec![];
                let res = match first {
                    std::task::Poll::Ready(r) => {
                        if r.is_ok() {
                            book.acked += 1;
                        } else {
                            book.offered.truncate(n_off);
                        }
                        for re in during {
                            dobs.push(do_rev(re, &rx, &mut readers, &mut book).await);
                        }
                        r
                    }
                    std::task::Poll::Pending => {
                        if !during.is_empty() {
                            tags.push("spill:reader-events-during-write-io");
                        }
                        for re in during {
                            dobs.push(do_rev(re, &rx, &mut readers, &mut book).await);
                        }
                        match tokio::time::timeout(LIVE, fut.as_mut()).await {
                            Ok(r) => {
                                if r.is_ok() {
                                    book.acked += 1;
                                } else {
                                    book.offered.truncate(n_off);
                                }
                                r
                            }
                            Err(_) => {
                                book.fails.push("write() did not complete".into());
                                Err(DataFusionError::Execution("harness: write stuck".into()))
                            }
                        }
                    }
                };
                drop(fut);
                let exists = path.exists();
                if exists && !was_spilled {
                    was_spilled = true;
                    tags.push("spill:spilled-to-disk");
                    if book.acked > 1 {
                        tags.push("spill:spilled-after-buffering");
                    }
                }
                obs.push(format!("OWrite {} {} {}", coq_sres(&res), coq::b(exists), coq::list(dobs)));
            }
            Ev::Finish(during) => {
                let ev = |awaited: bool| format!("EFinish {} {}", coq::b(awaited), coq::list(during.iter().map(coq_rev)));
                let Some(sender) = tx.as_mut() else {
                    evs.push(ev(false));
                    obs.push("OGone".into());
                    continue;
                };
                let mut fut = Box::pin(sender.finish());
                let first = futures::poll!(fut.as_mut());
                evs.push(ev(first.is_pending()));
                let mut dobs = vec![];
                let res = match first {
                    std::task::Poll::Ready(r) => {
                        if r.is_ok() {
                            book.finished = true;
                        }
                        for re in during {
                            dobs.push(do_rev(re, &rx, &mut readers, &mut book).await);
                        }
                        r
                    }
                    std::task::Poll::Pending => {
                        if !during.is_empty() {
                            tags.push("spill:reader-events-during-finish-io");
                        }
                        for re in during {
                            dobs.push(do_rev(re, &rx, &mut readers, &mut book).await);
                        }
                        match tokio::time::timeout(LIVE, fut.as_mut()).await {
                            Ok(r) => {
                                if r.is_ok() {
                                    book.finished = true;
                                }
                                r
                            }
                            Err(_) => {
                                book.fails.push("finish() did not complete".into());
                                Err(DataFusionError::Execution("harness: finish stuck".into()))
                            }
                        }
                    }
                };
                drop(fut);
                obs.push(format!("OFinish {} {}", coq_sres(&res), coq::list(dobs)));
            }
            Ev::SendError => {
                evs.push("ESendError".into());
                match tx.as_mut() {
                    Some(sender) => {
                        sender.send_error(DataFusionError::ResourcesExhausted("boom".into()));
                        book.error_sent = true;
                        obs.push("OSent".into());
                    }
                    None => obs.push("OGone".into()),
                }
            }
            Ev::Drop => {
                evs.push("EDrop".into());
                tx = None;
                book.dropped = true;
                obs.push("ODropped".into());
            }
        }
    }
    // end-of-schedule oracle: a finished, error-free spill has given every reader that ended all batches
    if book.finished && !book.error_sent {
        for (k, r) in readers.iter().enumerate() {
            if r.done && (r.delivered.len() != book.acked || r.delivered[..] != book.offered[..book.acked]) {
                book.fails.push(format!("reader {k} finished with {} batches, {} were written", r.delivered.len(), book.acked));
            }
        }
        if readers.iter().any(|r| r.done) {
            tags.push("spill:reader-complete");
        }
    }
    for r in &readers {
        if r.delivered.len() > book.offered.len() || r.delivered[..] != book.offered[..r.delivered.len()] {
            book.fails.push("a reader's delivered sequence is not a prefix of the written sequence".into());
        }
    }
    drop(readers);
    drop(tx);
    let _ = std::fs::remove_file(&path);
    (evs, obs, book.fails, tags)
}

fn gen_revs(rng: &mut Rng, n_readers: &mut usize, max: u64) -> Vec<REv> {
    let k = rng.below(max + 1);
    (0..k)
        .map(|_| {
            if *n_readers == 0 || (*n_readers < 5 && rng.chance(1, 4)) {
                *n_readers += 1;
                REv::Open
            } else if rng.chance(1, 40) {
                REv::Poll(*n_readers + 1) // no such reader
            } else {
                REv::Poll(rng.below(*n_readers as u64) as usize)
            }
        })
        .collect()
}

/// batches for one case: mostly fresh buffers; sometimes the same batch twice or a slice sharing
/// buffers with an earlier batch (MemoryAccumulator then adds nothing)
fn gen_batches(rng: &mut Rng, n: usize) -> Vec<RecordBatch> {
    let mut v: Vec<RecordBatch> = vec![];
    let mut next = 0i32;
    for _ in 0..n {
        if !v.is_empty() && rng.chance(1, 8) {
            let b = rng.pick(&v).clone();
            v.push(if b.num_rows() > 1 && rng.bool() { b.slice(1, b.num_rows() - 1) } else { b });
            continue;
        }
        let len = match rng.below(6) {
            0 => 0,
            1 => 1,
            _ => rng.range(1, 6) as usize,
        };
        v.push(gen_batch(rng, next, len));
        next += len as i32;
    }
    v
}

fn gen_case(rng: &mut Rng) -> (usize, Vec<RecordBatch>, Vec<Ev>) {
    let nb = match rng.below(8) {
        0 => 0,
        1 => 1,
        _ => rng.range(2, 7) as usize,
    };
    let batches = gen_batches(rng, nb);
    // memory limit: around one of the accumulator totals, zero, or unreachable
    let mut acc = MemoryAccumulator::default();
    let totals: Vec<usize> = batches.iter().map(|b| { acc.record_batch(b); acc.total() }).collect();
    let limit = match rng.below(8) {
        0 => 0,
        1 => usize::MAX,
        2 => 1 << 30,
        _ if !totals.is_empty() => {
            let t = *rng.pick(&totals);
            match rng.below(3) { 0 => t.saturating_sub(1), 1 => t, _ => t + 1 }
        }
        _ => 100,
    };
    let mut sched = vec![];
    let mut nr = 0usize;
    let style = rng.below(10);
    // readers opened before any write
    for e in gen_revs(rng, &mut nr, if style < 3 { 0 } else { 2 }) {
        sched.push(Ev::Read(e));
    }
    let abort_at = if style == 0 { Some(rng.below(nb as u64 + 1) as usize) } else { None };
    for bi in 0..nb {
        if abort_at == Some(bi) {
            break;
        }
        let during = gen_revs(rng, &mut nr, 3);
        sched.push(Ev::Write(bi, during));
        for e in gen_revs(rng, &mut nr, 3) {
            sched.push(Ev::Read(e));
        }
    }
    match style {
        0 => {
            // failure styles: send_error and/or drop in the middle, then more calls
            if rng.bool() {
                sched.push(Ev::SendError);
            }
            if rng.chance(1, 3) {
                sched.push(Ev::Finish(gen_revs(rng, &mut nr, 2)));
            }
            if rng.bool() {
                sched.push(Ev::Drop);
            }
            if nb > 0 && rng.bool() {
                sched.push(Ev::Write(0, vec![]));
            }
            if rng.bool() {
                sched.push(Ev::Finish(vec![]));
            }
        }
        1 => {
            // finish twice / write after finish / error after finish
            sched.push(Ev::Finish(gen_revs(rng, &mut nr, 3)));
            if nb > 0 {
                sched.push(Ev::Write(0, gen_revs(rng, &mut nr, 1)));
            }
            sched.push(Ev::Finish(vec![]));
            if rng.chance(1, 3) {
                sched.push(Ev::SendError);
            }
        }
        2 => {
            // finished then dropped: readers must still get everything
            sched.push(Ev::Finish(gen_revs(rng, &mut nr, 3)));
            sched.push(Ev::Drop);
        }
        _ => sched.push(Ev::Finish(gen_revs(rng, &mut nr, 3))),
    }
    // readers opened after finish, then drain every reader
    for e in gen_revs(rng, &mut nr, 2) {
        sched.push(Ev::Read(e));
    }
    if rng.chance(1, 2) {
        nr += 1;
        sched.push(Ev::Read(REv::Open));
    }
    let mut order: Vec<usize> = (0..nr).collect();
    for i in (1..order.len()).rev() {
        order.swap(i, rng.below(i as u64 + 1) as usize);
    }
    // interleaved drain: round-robin polls, enough for every reader to reach the end
    for _round in 0..nb + 2 {
        for r in &order {
            sched.push(Ev::Read(REv::Poll(*r)));
        }
    }
    (limit, batches, sched)
}

pub fn run(args: &Args, sink: &mut Sink, rt: &tokio::runtime::Runtime) {
    let mut rng = Rng::new(args.seed ^ 0x5B111);
    let dir = tempfile::tempdir().unwrap();
    let mut s = CStream::new("spill", REQ, "chk_spill", "N * list (event (list N))", "list (obs (list N))");
    s.shard = 100;

    let mut cases: Vec<(usize, Vec<RecordBatch>, Vec<Ev>)> = vec![];
    // corpus: the four Rust unit tests as schedules
    let b2 = vec![batch_of(&[1, 2, 3]), batch_of(&[4, 5, 6])];
    cases.push((0, b2.clone(), vec![
        Ev::Read(REv::Open), Ev::Read(REv::Poll(0)), Ev::Write(0, vec![]), Ev::Read(REv::Poll(0)), Ev::Read(REv::Poll(0)),
        Ev::Read(REv::Open), Ev::Read(REv::Poll(1)), Ev::Read(REv::Poll(1)), Ev::Write(1, vec![]), Ev::Finish(vec![]),
        Ev::Read(REv::Poll(0)), Ev::Read(REv::Poll(0)), Ev::Read(REv::Poll(1)), Ev::Read(REv::Poll(1)),
        Ev::Read(REv::Open), Ev::Read(REv::Poll(2)), Ev::Read(REv::Poll(2)), Ev::Read(REv::Poll(2)),
    ]));
    cases.push((0, b2.clone(), vec![
        Ev::Write(0, vec![]), Ev::Read(REv::Open), Ev::Read(REv::Poll(0)), Ev::SendError, Ev::Read(REv::Poll(0)),
        Ev::Write(1, vec![]), Ev::Finish(vec![]), Ev::Read(REv::Open), Ev::Read(REv::Poll(1)),
    ]));
    cases.push((1 << 20, b2.clone(), vec![Ev::Write(0, vec![]), Ev::Finish(vec![]), Ev::Read(REv::Open), Ev::Read(REv::Poll(0)), Ev::Read(REv::Poll(0))]));
    cases.push((13, b2.clone(), vec![
        Ev::Write(0, vec![]), Ev::Read(REv::Open), Ev::Read(REv::Poll(0)), Ev::Write(1, vec![REv::Poll(0), REv::Open, REv::Poll(1)]),
        Ev::Read(REv::Poll(0)), Ev::Finish(vec![REv::Poll(0), REv::Poll(1)]), Ev::Read(REv::Poll(0)), Ev::Read(REv::Poll(1)), Ev::Read(REv::Poll(1)),
    ]));
    for _ in 0..args.vol(200, 4000) {
        cases.push(gen_case(&mut rng));
    }

    for (ci, (limit, batches, sched)) in cases.iter().enumerate() {
        let (evs, obs, fails, tags) = rt.block_on(exec(dir.path(), ci, *limit, batches, sched));
        let inp = format!("({}, {})", limit, coq::list(evs.iter().cloned()));
        let hj = json!({"memory_limit": limit, "batches": batches.iter().map(ids).collect::<Vec<_>>(), "schedule": evs, "observed": obs});
        sink.nontrivial(&inp);
        sink.count("spill:schedules");
        let mut seen = std::collections::BTreeSet::new();
        for t in tags {
            if seen.insert(t) {
                sink.count(t);
            }
        }
        if fails.is_empty() {
            sink.oracle_ok();
        } else {
            sink.oracle_fail(None, &format!("replay spill: {}", fails[0]), hj.clone());
        }
        s.push(inp, coq::list(obs.iter().cloned()), hj);
    }
    sink.notes.push(format!("spill: {} scripted schedules (unit-test scenarios + random: readers opened before/during/after writes incl. while a write/finish awaits file I/O, limits at/around the accumulator totals, 0 and unreachable, repeated/sliced batches, send_error, drop, double finish) executed on the real SpillSender/SpillReceiver", cases.len()));
    sink.add(s);

    // ---- arm B: racing writer and readers, oracle only
    let nb_cases = args.vol(40, 500);
    for ci in 0..nb_cases {
        let nb = rng.range(0, 12) as usize;
        let mut next = 0;
        let batches: Vec<RecordBatch> = (0..nb)
            .map(|_| {
                let len = rng.range(0, 40) as usize;
                let b = gen_batch(&mut rng, next, len);
                next += len as i32;
                b
            })
            .collect();
        let limit = *rng.pick(&[0usize, 200, 1000, 3000, 1 << 30]);
        let n_readers = rng.range(1, 5) as usize;
        let starts: Vec<usize> = (0..n_readers).map(|_| rng.below(nb as u64 + 3) as usize).collect();
        let yields: Vec<u64> = (0..nb + 2).map(|_| rng.below(3)).collect();
        let path = dir.path().join(format!("race_{ci}.arrows"));
        let res: Vec<(usize, Result<Vec<RecordBatch>, String>)> = rt.block_on(async {
            let (mut tx, rx) = create_replay_spill(path.clone(), schema(), limit);
            let mut handles: Vec<(usize, tokio::task::JoinHandle<Result<Vec<RecordBatch>, String>>)> = vec![];
            let spawn_reader = |rx: &SpillReceiver| {
                let st = rx.read();
                tokio::spawn(async move { st.try_collect::<Vec<RecordBatch>>().await.map_err(|e| e.to_string()) })
            };
            for step in 0..nb + 3 {
                for st in &starts {
                    if *st == step {
                        handles.push((*st, spawn_reader(&rx)));
                    }
                }
                if step < nb {
                    tx.write(batches[step].clone()).await.unwrap();
                    for _ in 0..yields[step] {
                        tokio::task::yield_now().await;
                    }
                } else if step == nb {
                    tx.finish().await.unwrap();
                }
            }
            let mut out = vec![];
            for (st, h) in handles {
                out.push((st, match tokio::time::timeout(LIVE, h).await {
                    Ok(Ok(r)) => r,
                    Ok(Err(e)) => Err(format!("reader task panicked: {e}")),
                    Err(_) => Err("reader never completed".into()),
                }));
            }
            drop(tx);
            out
        });
        let _ = std::fs::remove_file(&path);
        sink.count("spill:race-cases");
        for (st, r) in res.iter() {
            let ok = match r {
                Ok(got) => got.len() == batches.len() && got.iter().zip(batches.iter()).all(|(a, b)| a == b),
                Err(_) => false,
            };
            if ok {
                sink.oracle_ok();
            } else {
                sink.oracle_fail(None, "replay spill (racing readers): a reader did not receive exactly the written batches", json!({"memory_limit": limit, "sizes": batches.iter().map(|b| b.num_rows()).collect::<Vec<_>>(), "reader_started_at_step": st, "got": r.as_ref().map(|v| v.iter().map(ids).collect::<Vec<_>>())}));
            }
        }
    }
    sink.notes.push(format!("spill race arm: {nb_cases} cases, 1-5 concurrently draining readers started before/during/after the writes on a 4-thread runtime"));
}
