//! hx_c22: vector search exactness (flat KNN, IVF_FLAT partition search + top-k merge, refine, prefilter,
//! deletions, unindexed fragments) against the Gallina model Index/Model_TopK.v and a brute-force oracle.
mod e2e;

fn main() {
    let (sub, args) = hxlib::util::Args::parse();
    let code = match sub.as_str() {
        "c22" => e2e::run(&args),
        _ => {
            eprintln!("unknown subcommand {sub}");
            2
        }
    };
    std::process::exit(code);
}
