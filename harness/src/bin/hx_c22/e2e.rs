//! C22 end-to-end: random small vector tables driven through histories (write, IVF_FLAT index, delete, append,
//! optimize_indices, compact_files), queried through `Scanner::nearest` in every mode, checked by
//!   * a brute-force oracle on exact distances (integer-valued components: L2 and dot are exact in f16/f32/f64;
//!     cosine is compared with a tolerance), model independent;
//!   * the Gallina model (Index/Model_TopK.v):
//!       stream `part`   IVFIndex::search_in_partition on every partition of the real index (real prefilter mask)
//!       stream `merge`  the scanner's ANN node vs the top-k merge of the exported per-partition candidate lists
//!       stream `search` Scanner::nearest end to end (flat, full probing, partial probing in the real probe order,
//!                       refine, pre/post filter, fast_search, unindexed fragments)
use arrow_array::types::{Float16Type, Float32Type, Float64Type};
use arrow_array::{Array, ArrayRef, FixedSizeListArray, Float16Array, Float32Array, Float64Array, Int32Array, RecordBatch, RecordBatchIterator, UInt64Array};
use arrow_schema::{DataType, Field, Schema};
use futures::TryStreamExt;
use half::f16;
use hxlib::util::{coq, Args, Rng, Sink, Stream};
use lance::dataset::optimize::{compact_files, CompactionOptions};
use lance::dataset::{WriteMode, WriteParams};
use lance::index::prefilter::DatasetPreFilter;
use lance::index::vector::VectorIndexParams;
use lance::index::DatasetIndexInternalExt;
use lance::Dataset;
use lance_core::utils::mask::{RowIdMask, RowIdTreeMap};
use lance_index::metrics::NoOpMetricsCollector;
use lance_index::optimize::OptimizeOptions;
use lance_index::prefilter::{FilterLoader, PreFilter};
use lance_index::vector::Query;
use lance_index::{DatasetIndexExt, IndexType};
use lance_linalg::distance::MetricType;
use serde_json::{json, Value};
use std::collections::{HashMap, HashSet};
use std::sync::Arc;

const REQ: &str = "Common.Base Index.Model_TopK";
const IDX: &str = "vec_idx";

#[derive(Clone, Copy, PartialEq, Debug)]
enum Ety {
    F32,
    F16,
    F64,
}

#[derive(Clone, Debug)]
struct Row {
    id: i32,
    tag: i32,
    vec: Option<Vec<i64>>,
    deleted: bool,
    rowid: Option<u64>, // last known row address
}

#[derive(Clone, Copy, PartialEq, Debug)]
enum Flt {
    None,
    TagEq(i32),
    IdGe(i32),
}
impl Flt {
    fn sql(&self) -> Option<String> {
        match self {
            Flt::None => None,
            Flt::TagEq(t) => Some(format!("tag = {t}")),
            Flt::IdGe(i) => Some(format!("id >= {i}")),
        }
    }
    fn pass(&self, r: &Row) -> bool {
        match self {
            Flt::None => true,
            Flt::TagEq(t) => r.tag == *t,
            Flt::IdGe(i) => r.id >= *i,
        }
    }
}

#[derive(Clone, Debug)]
struct QP {
    metric: MetricType,
    k: usize,
    flt: Flt,
    prefilter: bool,
    refine: Option<u32>,
    nprobes: Option<usize>,
    fast: bool,
    use_index: bool,
}

#[derive(Clone, Copy, PartialEq, Debug)]
enum Key {
    Num(i128),
    NaN,
    Null,
}
impl Key {
    fn coq(&self) -> String {
        match self {
            Key::Num(z) => format!("KNum {}", coq::z(*z)),
            Key::NaN => "KNaN".into(),
            Key::Null => "KNull".into(),
        }
    }
}

fn exact_key(m: MetricType, q: &[i64], v: &Option<Vec<i64>>) -> Key {
    match v {
        None => Key::Null,
        Some(v) => match m {
            MetricType::L2 => Key::Num(q.iter().zip(v).map(|(a, b)| ((a - b) * (a - b)) as i128).sum()),
            MetricType::Dot => Key::Num(1 - q.iter().zip(v).map(|(a, b)| (a * b) as i128).sum::<i128>()),
            // axis tables only (every vector c * e_i or zero): 1 - sign(<q,v>), NaN for a zero vector
            MetricType::Cosine => {
                if v.iter().all(|x| *x == 0) || q.iter().all(|x| *x == 0) {
                    Key::NaN
                } else {
                    let d: i128 = q.iter().zip(v).map(|(a, b)| (a * b) as i128).sum();
                    Key::Num(1 - d.signum())
                }
            }
            _ => unreachable!(),
        },
    }
}
/// cosine distance in f64; None for a null vector, NaN for a zero vector
fn cos64(q: &[i64], v: &Option<Vec<i64>>) -> Option<f64> {
    v.as_ref().map(|v| {
        let d: f64 = q.iter().zip(v).map(|(a, b)| (a * b) as f64).sum();
        let nq: f64 = q.iter().map(|a| (a * a) as f64).sum::<f64>().sqrt();
        let nv: f64 = v.iter().map(|a| (a * a) as f64).sum::<f64>().sqrt();
        1.0 - d / (nq * nv)
    })
}
/// the reported f32 distance as a model key (exact-integer mode)
fn f32_key(d: Option<f32>) -> Key {
    match d {
        None => Key::Null,
        Some(x) if x.is_nan() => Key::NaN,
        Some(x) if x.is_finite() && x.fract() == 0.0 => Key::Num(x as i128),
        Some(x) if x.is_infinite() => Key::Num(if x > 0.0 { 1i128 << 100 } else { -(1i128 << 100) }),
        // not an integer: cannot be the exact distance; encode off-grid so the model never matches
        Some(x) => Key::Num((x as f64 * 1048576.0) as i128 + (1i128 << 80)),
    }
}

fn fsl(ety: Ety, vecs: &[Option<Vec<i64>>], dim: usize) -> FixedSizeListArray {
    match ety {
        Ety::F32 => FixedSizeListArray::from_iter_primitive::<Float32Type, _, _>(vecs.iter().map(|v| v.as_ref().map(|v| v.iter().map(|x| Some(*x as f32)).collect::<Vec<_>>())), dim as i32),
        Ety::F64 => FixedSizeListArray::from_iter_primitive::<Float64Type, _, _>(vecs.iter().map(|v| v.as_ref().map(|v| v.iter().map(|x| Some(*x as f64)).collect::<Vec<_>>())), dim as i32),
        Ety::F16 => FixedSizeListArray::from_iter_primitive::<Float16Type, _, _>(vecs.iter().map(|v| v.as_ref().map(|v| v.iter().map(|x| Some(f16::from_f32(*x as f32))).collect::<Vec<_>>())), dim as i32),
    }
}
fn key_array(ety: Ety, q: &[i64]) -> ArrayRef {
    match ety {
        Ety::F32 => Arc::new(Float32Array::from(q.iter().map(|x| *x as f32).collect::<Vec<_>>())),
        Ety::F64 => Arc::new(Float64Array::from(q.iter().map(|x| *x as f64).collect::<Vec<_>>())),
        Ety::F16 => Arc::new(Float16Array::from(q.iter().map(|x| f16::from_f32(*x as f32)).collect::<Vec<_>>())),
    }
}

struct AllowList(Vec<u64>);
#[async_trait::async_trait]
impl FilterLoader for AllowList {
    async fn load(self: Box<Self>) -> lance_core::Result<RowIdMask> {
        Ok(RowIdMask::from_allowed(RowIdTreeMap::from_iter(self.0.iter().copied())))
    }
}

struct Tbl {
    ds: Dataset,
    schema: Arc<Schema>,
    rows: Vec<Row>,
    dim: usize,
    ety: Ety,
    mag: i64,
    with_nulls: bool,
    metric: MetricType,
    has_index: bool,
    rowid2id: HashMap<u64, i32>,
    hist: Vec<String>,
    name: String,
    nparts: usize,
    axis: bool, // every vector is c * e_i or zero: cosine distances are exactly 0, 1, 2 or NaN
}

fn axis_vec(rng: &mut Rng, dim: usize, mag: i64) -> Vec<i64> {
    let mut v = vec![0; dim];
    let c = rng.range(1, mag as u64) as i64;
    v[rng.below(dim as u64) as usize] = if rng.bool() { c } else { -c };
    v
}
fn gen_vec(rng: &mut Rng, rows: &[Row], dim: usize, mag: i64, with_nulls: bool, axis: bool) -> Option<Vec<i64>> {
    if with_nulls && rng.chance(1, 15) {
        return None;
    }
    if axis {
        return Some(if rng.chance(1, 8) { vec![0; dim] } else { axis_vec(rng, dim, mag) });
    }
    if rng.chance(1, 12) {
        return Some(vec![0; dim]);
    }
    if !rows.is_empty() && rng.chance(1, 6) {
        // duplicate of an earlier vector
        if let Some(v) = &rng.pick(rows).vec {
            return Some(v.clone());
        }
    }
    Some((0..dim).map(|_| rng.range(0, 2 * mag as u64) as i64 - mag).collect())
}

fn mk_batch(schema: &Arc<Schema>, ety: Ety, dim: usize, rows: &[Row]) -> RecordBatch {
    let id: Int32Array = rows.iter().map(|r| Some(r.id)).collect();
    let tag: Int32Array = rows.iter().map(|r| Some(r.tag)).collect();
    let vecs: Vec<Option<Vec<i64>>> = rows.iter().map(|r| r.vec.clone()).collect();
    RecordBatch::try_new(schema.clone(), vec![Arc::new(id), Arc::new(tag), Arc::new(fsl(ety, &vecs, dim))]).unwrap()
}
fn mk_rows(rng: &mut Rng, existing: &[Row], n: usize, dim: usize, mag: i64, with_nulls: bool, axis: bool) -> Vec<Row> {
    let base = existing.len() as i32;
    let mut out: Vec<Row> = vec![];
    for i in 0..n {
        let pool: Vec<Row> = existing.iter().chain(out.iter()).cloned().collect();
        let vec = gen_vec(rng, &pool, dim, mag, with_nulls, axis);
        out.push(Row { id: base + i as i32, tag: rng.below(3) as i32, vec, deleted: false, rowid: None });
    }
    out
}

impl Tbl {
    fn batch(&self, rows: &[Row]) -> RecordBatch {
        mk_batch(&self.schema, self.ety, self.dim, rows)
    }
    fn new_rows(&self, rng: &mut Rng, n: usize) -> Vec<Row> {
        mk_rows(rng, &self.rows, n, self.dim, self.mag, self.with_nulls, self.axis)
    }
    /// re-read the row addresses of the live rows
    async fn refresh(&mut self) -> Result<(), String> {
        let mut sc = self.ds.scan();
        sc.project(&["id"]).map_err(es)?;
        sc.with_row_id();
        let bs: Vec<RecordBatch> = sc.try_into_stream().await.map_err(es)?.try_collect().await.map_err(es)?;
        let mut seen = HashSet::new();
        for b in &bs {
            let id = b.column_by_name("id").unwrap().as_any().downcast_ref::<Int32Array>().unwrap();
            let rid = b.column_by_name("_rowid").unwrap().as_any().downcast_ref::<UInt64Array>().unwrap();
            for i in 0..b.num_rows() {
                self.rows[id.value(i) as usize].rowid = Some(rid.value(i));
                self.rowid2id.insert(rid.value(i), id.value(i));
                seen.insert(id.value(i));
            }
        }
        // the scan must return exactly the live rows (sanity of the harness' own bookkeeping)
        let live: HashSet<i32> = self.rows.iter().filter(|r| !r.deleted).map(|r| r.id).collect();
        if seen != live {
            return Err(format!("bookkeeping: scan returned {} rows, {} live expected", seen.len(), live.len()));
        }
        Ok(())
    }
    fn present_frags(&self) -> HashSet<u32> {
        self.ds.get_fragments().iter().map(|f| f.id() as u32).collect()
    }
    /// rows whose last known fragment still exists (deleted rows stay physically until compaction)
    fn physical(&self) -> Vec<&Row> {
        let pf = self.present_frags();
        self.rows.iter().filter(|r| r.rowid.map(|x| pf.contains(&((x >> 32) as u32))).unwrap_or(false)).collect()
    }
    async fn indexed_frags(&self) -> Result<HashSet<u32>, String> {
        let mut s = HashSet::new();
        for m in self.ds.load_indices_by_name(IDX).await.map_err(es)? {
            if let Some(b) = &m.fragment_bitmap {
                s.extend(b.iter());
            }
        }
        Ok(s)
    }
}

fn es<E: std::fmt::Display>(e: E) -> String {
    e.to_string()
}

fn crow(id: i64, k: &Key, del: bool, flt: bool) -> String {
    format!("({}, ({}, ({}, {})))", id, k.coq(), coq::b(del), coq::b(flt))
}

struct Streams {
    part: Stream,
    merge: Stream,
    search: Stream,
}

/// the query runs in its own task so that a panic inside lance surfaces as Err("panic..")
async fn run_scan(ds: &Dataset, ety: Ety, q: &[i64], qp: &QP) -> Result<Vec<(i32, Option<f32>)>, String> {
    let (ds, q, qp) = (ds.clone(), q.to_vec(), qp.clone());
    let prev = std::panic::take_hook();
    std::panic::set_hook(Box::new(|_| {}));
    let r = tokio::spawn(async move { run_scan_inner(&ds, ety, &q, &qp).await }).await;
    std::panic::set_hook(prev);
    match r {
        Ok(x) => x,
        Err(e) => Err(format!("panic: {e}")),
    }
}
async fn run_scan_inner(ds: &Dataset, ety: Ety, q: &[i64], qp: &QP) -> Result<Vec<(i32, Option<f32>)>, String> {
    let _ = ety;
    let qa = Float32Array::from(q.iter().map(|x| *x as f32).collect::<Vec<_>>());
    let mut sc = ds.scan();
    if let Some(f) = qp.flt.sql() {
        sc.filter(&f).map_err(es)?;
    }
    sc.prefilter(qp.prefilter);
    sc.nearest("vec", &qa, qp.k).map_err(es)?;
    sc.distance_metric(qp.metric);
    if let Some(np) = qp.nprobes {
        sc.nprobes(np);
    }
    if let Some(rf) = qp.refine {
        sc.refine(rf);
    }
    if qp.fast {
        sc.fast_search();
    }
    sc.use_index(qp.use_index);
    let bs: Vec<RecordBatch> = sc.try_into_stream().await.map_err(es)?.try_collect().await.map_err(es)?;
    let mut got = vec![];
    for b in &bs {
        let id = b.column_by_name("id").ok_or("no id column")?.as_any().downcast_ref::<Int32Array>().unwrap();
        let d = b.column_by_name("_distance").ok_or("no _distance column")?.as_any().downcast_ref::<Float32Array>().unwrap();
        for i in 0..b.num_rows() {
            got.push((id.value(i), if d.is_null(i) { None } else { Some(d.value(i)) }));
        }
    }
    Ok(got)
}

fn cmp_f32(a: f32, b: f32) -> std::cmp::Ordering {
    a.total_cmp(&b)
}

/// Partitions (row addresses in storage order) of every delta index, in the probe order of `find_partitions`.
async fn export_partitions(t: &Tbl, q: &[i64], qp: &QP, no_order: bool) -> Result<(Vec<Vec<Vec<u64>>>, usize, bool), String> {
    let mut deltas = vec![];
    let mut max_parts = 0usize;
    let metas = t.ds.load_indices_by_name(IDX).await.map_err(es)?;
    let pf = DatasetPreFilter::new(Arc::new(t.ds.clone()), &metas, None);
    let mask_empty = pf.is_empty();
    for m in &metas {
        let idx = t.ds.open_vector_index("vec", &m.uuid.to_string(), &NoOpMetricsCollector).await.map_err(es)?;
        let np = idx.total_partitions();
        max_parts = max_parts.max(np);
        let mut order: Vec<usize> = vec![];
        if !no_order {
            let qq = Query { column: "vec".into(), key: key_array(t.ety, q), k: qp.k, lower_bound: None, upper_bound: None, minimum_nprobes: qp.nprobes.unwrap_or(np), maximum_nprobes: Some(qp.nprobes.unwrap_or(np)), ef: None, refine_factor: qp.refine, metric_type: qp.metric, use_index: true, dist_q_c: 0.0 };
            let (parts, _) = idx.find_partitions(&qq).map_err(es)?;
            order.extend(parts.values().iter().map(|p| *p as usize));
        }
        for p in 0..np {
            if !order.contains(&p) {
                order.push(p);
            }
        }
        let mut dl = vec![];
        for p in order {
            let idx2 = idx.clone();
            let bs: Vec<RecordBatch> = tokio::spawn(async move { idx2.partition_reader(p, false, &NoOpMetricsCollector).await?.try_collect::<Vec<RecordBatch>>().await }).await.map_err(|e| format!("panic: {e}"))?.map_err(es)?;
            let mut ids = vec![];
            for b in &bs {
                let rid = b.column_by_name("_rowid").unwrap().as_any().downcast_ref::<UInt64Array>().unwrap();
                ids.extend(rid.values().iter().copied());
            }
            dl.push(ids);
        }
        deltas.push(dl);
    }
    Ok((deltas, max_parts, mask_empty))
}

/// One `Scanner::nearest` query: oracle + `search` stream.
async fn query(t: &Tbl, rng: &mut Rng, sink: &mut Sink, st: &mut Streams, qp: QP, arm: &str) -> Result<(), String> {
    let dim = t.dim;
    let mut q: Vec<i64> = if t.axis { axis_vec(rng, dim, t.mag) } else { (0..dim).map(|_| rng.range(0, 2 * t.mag as u64) as i64 - t.mag).collect() };
    if qp.metric == MetricType::Cosine && q.iter().all(|x| *x == 0) {
        q[0] = 1;
    }
    let indexed = t.has_index && qp.use_index;
    let ifrags = if t.has_index { t.indexed_frags().await? } else { HashSet::new() };
    let in_index = |r: &Row| r.rowid.map(|x| ifrags.contains(&((x >> 32) as u32))).unwrap_or(false);
    let res = run_scan(&t.ds, t.ety, &q, &qp).await;
    let has_filter = qp.flt != Flt::None;
    let cosine = qp.metric == MetricType::Cosine;
    let case = json!({"table": t.name, "ety": format!("{:?}", t.ety), "dim": dim, "history": t.hist, "arm": arm, "query": q,
        "k": qp.k, "metric": format!("{:?}", qp.metric), "filter": qp.flt.sql(), "prefilter": qp.prefilter, "refine": qp.refine,
        "nprobes": qp.nprobes, "fast_search": qp.fast, "use_index": qp.use_index, "got": format!("{:?}", res).chars().take(700).collect::<String>()});
    sink.count(&format!("q:{arm}:{:?}", qp.metric));

    // ---- partitions of the real index, in the real probe order (model input) + number of partitions
    let mut deltas: Vec<Vec<Vec<u64>>> = vec![];
    let mut max_parts = t.nparts;
    let mut mask_empty = true;
    let mut export_ok = true;
    if indexed {
        match export_partitions(t, &q, &qp, cosine || t.axis).await {
            Ok((d, mp, me)) => {
                deltas = d;
                max_parts = mp;
                mask_empty = me && !(has_filter && qp.prefilter);
            }
            Err(e) => {
                export_ok = false;
                sink.count("partition-export-failed");
                if !sink.notes.iter().any(|n| n.starts_with("partition export failed")) {
                    sink.notes.push(format!("partition export failed ({:?}): {}", t.ety, e.chars().take(160).collect::<String>()));
                }
            }
        }
    }
    let exact_mode = !indexed || qp.nprobes.map(|n| n >= max_parts).unwrap_or(false);
    let late_mode = indexed && qp.nprobes.is_none();

    // ---- direct oracle (brute force, model independent)
    let universe: Vec<&Row> = t.physical().into_iter().filter(|r| !r.deleted && r.vec.is_some() && (!(indexed && qp.fast) || in_index(r))).collect();
    let zero = |r: &Row| r.vec.as_ref().map(|v| v.iter().all(|x| *x == 0)).unwrap_or(false);
    let mut fails: Vec<String> = vec![];
    let mut known: Vec<(&str, String)> = vec![];
    match &res {
        Err(e) => {
            if qp.k == 0 || (indexed && qp.refine == Some(0)) {
                // documented errors
            } else if indexed && t.ety != Ety::F32 && (e.contains("panic") || e.contains("Join Error")) {
                known.push(("ivf_flat_non_f32", format!("query through an IVF_FLAT index on a {:?} column failed: {}", t.ety, e.chars().take(160).collect::<String>())));
            } else {
                fails.push(format!("query failed: {}", e.chars().take(200).collect::<String>()));
            }
        }
        Ok(got) => {
            if qp.k == 0 {
                fails.push("k = 0 accepted".into());
            }
            let byid: HashMap<i32, &Row> = universe.iter().map(|r| (r.id, *r)).collect();
            let ids: HashSet<i32> = got.iter().map(|g| g.0).collect();
            if ids.len() != got.len() {
                fails.push("a row is returned twice".into());
            }
            for (id, d) in got {
                match byid.get(id) {
                    None => fails.push(format!("row {id} returned although deleted / null vector / outside the searched fragments")),
                    Some(r) => {
                        if !qp.flt.pass(r) {
                            fails.push(format!("row {id} returned although it fails the filter"));
                        }
                        // reported distance = recomputed distance
                        let shortcut_inf = late_mode && has_filter && qp.prefilter && qp.refine.is_none() && d.map(|x| x == f32::INFINITY).unwrap_or(false);
                        let dist_ok = match d {
                            None => false,
                            Some(x) => {
                                if cosine {
                                    let e = cos64(&q, &r.vec).unwrap();
                                    if e.is_nan() { x.is_nan() || zero(r) } else { (*x as f64 - e).abs() <= if t.ety == Ety::F16 { 4e-3 } else { 1e-4 } }
                                } else {
                                    match exact_key(qp.metric, &q, &r.vec) {
                                        Key::Num(z) => *x as f64 == z as f64,
                                        _ => false,
                                    }
                                }
                            }
                        };
                        if !dist_ok && !shortcut_inf {
                            fails.push(format!("row {id}: reported distance {d:?} differs from the recomputed distance"));
                        }
                    }
                }
            }
            let ds_: Vec<f32> = got.iter().map(|g| g.1.unwrap_or(f32::NAN)).collect();
            if !ds_.windows(2).all(|w| cmp_f32(w[0], w[1]) != std::cmp::Ordering::Greater) {
                fails.push("results are not sorted by ascending distance".into());
            }
            if got.len() > qp.k {
                fails.push("more than k results".into());
            }
            // exact modes: the k smallest eligible distances
            let elig: Vec<&Row> = universe.iter().copied().filter(|r| !(has_filter && qp.prefilter) || qp.flt.pass(r)).collect();
            if cosine {
                // zero vectors have an undefined (NaN) cosine distance: they may only fill the places that rows with
                // a defined distance cannot fill
                let mut exp: Vec<f64> = elig.iter().filter(|r| !zero(r)).map(|r| cos64(&q, &r.vec).unwrap()).collect();
                exp.sort_by(|a, b| a.partial_cmp(b).unwrap());
                let nz = elig.iter().filter(|r| zero(r)).count();
                let tol = if t.ety == Ety::F16 { 4e-3 } else { 1e-4 };
                if (exact_mode || late_mode) && (qp.prefilter || !has_filter) {
                    let defined: Vec<f32> = got.iter().filter(|g| byid.get(&g.0).map(|r| !zero(r)).unwrap_or(true)).map(|g| g.1.unwrap_or(f32::NAN)).collect();
                    let gz = got.len() - defined.len();
                    // rows with a defined distance: min(k, defined eligible) of them; zero vectors are optional extras
                    // (a cosine IVF index does not hold them at all) that may only fill otherwise empty places
                    let want = qp.k.min(exp.len());
                    if defined.len() > want || got.len() > qp.k.min(elig.len()) {
                        fails.push(format!("cosine: {} results ({} defined), k = {}, eligible = {} ({} defined)", got.len(), defined.len(), qp.k, elig.len(), exp.len()));
                    } else if defined.len() < want {
                        if gz > 0 && defined.len() + gz >= want {
                            known.push(("cosine_zero_vector", format!("cosine: {gz} zero vectors (NaN distance) returned, displacing rows with a defined distance (k = {}, defined eligible = {}, zero eligible = {nz})", qp.k, exp.len())));
                        } else {
                            fails.push(format!("cosine: {} rows with a defined distance returned, min(k, defined eligible) = {}", defined.len(), want));
                        }
                    } else if got.iter().enumerate().any(|(i, g)| byid.get(&g.0).map(|r| zero(r)).unwrap_or(false) && i < got.len() - 1 && !byid.get(&got[i + 1].0).map(|r| zero(r)).unwrap_or(false)) {
                        known.push(("cosine_zero_vector", "cosine: a zero vector (NaN distance) is ranked ahead of a row with a defined distance".into()));
                    }
                    if exact_mode && defined.iter().zip(&exp).any(|(a, b)| (*a as f64 - b).abs() > tol) {
                        fails.push("cosine: the returned defined distances are not the smallest eligible distances".into());
                    }
                }
            } else {
                let mut exp: Vec<i128> = elig.iter().map(|r| match exact_key(qp.metric, &q, &r.vec) { Key::Num(z) => z, _ => unreachable!() }).collect();
                exp.sort();
                let gotd: Vec<i128> = got.iter().filter_map(|g| byid.get(&g.0).map(|r| match exact_key(qp.metric, &q, &r.vec) { Key::Num(z) => z, _ => 0 })).collect();
                if qp.prefilter || !has_filter {
                    if exact_mode || late_mode {
                        if got.len() != qp.k.min(elig.len()) {
                            fails.push(format!("{} results, min(k, eligible) = {}", got.len(), qp.k.min(elig.len())));
                        }
                    }
                    if exact_mode {
                        let mut g = gotd.clone();
                        g.sort();
                        exp.truncate(qp.k);
                        if g != exp {
                            fails.push("returned distances are not the k smallest eligible distances".into());
                        }
                    }
                    if late_mode && elig.len() <= qp.k && ids.len() == got.len() && got.len() == elig.len() && !elig.iter().all(|r| ids.contains(&r.id)) {
                        fails.push("late search: not every eligible row returned although eligible <= k".into());
                    }
                } else if exact_mode {
                    // postfilter: the rows of the unfiltered top-k that pass the filter (ties at the k-th distance arbitrary)
                    let kth = if exp.len() >= qp.k && qp.k > 0 { Some(exp[qp.k - 1]) } else { None };
                    for r in &universe {
                        if let Key::Num(z) = exact_key(qp.metric, &q, &r.vec) {
                            let must = qp.flt.pass(r) && kth.map(|t| z < t).unwrap_or(true);
                            let may = qp.flt.pass(r) && kth.map(|t| z <= t).unwrap_or(true);
                            if must && !ids.contains(&r.id) {
                                fails.push(format!("postfilter: row {} is among the k nearest and passes the filter but is missing", r.id));
                            }
                            if !may && ids.contains(&r.id) {
                                fails.push(format!("postfilter: row {} is not among the k nearest", r.id));
                            }
                        }
                    }
                }
            }
        }
    }
    if !fails.is_empty() {
        let mut c = case.clone();
        c["all_failures"] = json!(fails);
        sink.oracle_fail(None, &format!("C22 {arm}: {}", fails[0]), c);
    } else if let Some((class, what)) = known.first() {
        sink.oracle_fail(Some(class), &format!("C22 {arm}: {what}"), case.clone());
    } else {
        sink.oracle_ok();
    }

    // ---- model stream (exact-integer metrics; partial probing uses the real probe order; late search is not modelled)
    // (cosine partial probing: the probe order needs the normalised key; not exported)
    if (!cosine || (t.axis && exact_mode)) && !late_mode && export_ok {
        let mk = |r: &Row| crow(r.id as i64, &exact_key(qp.metric, &q, &r.vec), r.deleted, qp.flt.pass(r));
        let mut unknown = 0i64;
        let mut dl_s = vec![];
        let mut in_parts: HashSet<i32> = HashSet::new();
        for dl in &deltas {
            let mut ps = vec![];
            for p in dl {
                let mut rs = vec![];
                for rid in p {
                    match t.rowid2id.get(rid) {
                        Some(id) => {
                            in_parts.insert(*id);
                            rs.push(mk(&t.rows[*id as usize]));
                        }
                        None => {
                            unknown += 1;
                            rs.push(crow((1i64 << 40) + unknown, &Key::Num(0), true, false));
                        }
                    }
                }
                ps.push(coq::list(rs));
            }
            dl_s.push(coq::list(ps));
        }
        if unknown > 0 {
            sink.count_n("index-row-with-unknown-address", unknown as u64);
        }
        let fresh: Vec<String> = if indexed {
            t.physical().into_iter().filter(|r| !in_index(r)).map(|r| mk(r)).collect()
        } else {
            t.physical().into_iter().map(|r| mk(r)).collect()
        };
        let inp = format!(
            "((({}, {}, {}), ({}, {}, {}, {}, {}, {})), {}, {})",
            format!("{}%nat", qp.k),
            coq::opt(qp.refine.map(|r| format!("{}%nat", r))),
            format!("{}%nat", qp.nprobes.unwrap_or(0)),
            coq::b(mask_empty),
            coq::b(has_filter),
            coq::b(qp.prefilter),
            coq::b(qp.fast),
            coq::b(indexed),
            coq::b(t.ety == Ety::F32),
            coq::list(dl_s),
            coq::list(fresh)
        );
        let out = match &res {
            Ok(g) => format!("(Ok {})", coq::list(g.iter().map(|(i, d)| format!("({}, {})", i, f32_key(*d).coq())))),
            Err(e) if e.contains("panic") => "Panic".into(),
            Err(_) => "Err".into(),
        };
        sink.nontrivial(&format!("search{}{:?}", t.name, (&q, qp.k, qp.refine, qp.nprobes, qp.fast, qp.use_index, qp.prefilter, t.hist.len())));
        st.search.push(inp, out, case);
    }
    Ok(())
}

/// Direct calls of IVFIndex::search_in_partition on every partition (streams `part`, `merge`).
async fn unit_streams(t: &Tbl, rng: &mut Rng, sink: &mut Sink, st: &mut Streams) -> Result<(), String> {
    if !t.has_index || t.metric == MetricType::Cosine || t.ety != Ety::F32 {
        return Ok(());
    }
    let metas = t.ds.load_indices_by_name(IDX).await.map_err(es)?;
    let live_n = t.rows.iter().filter(|r| !r.deleted).count();
    let k = *rng.pick(&[1usize, 2, 3, 5, 8, live_n.max(1), live_n + 3]);
    let q: Vec<i64> = (0..t.dim).map(|_| rng.range(0, 2 * t.mag as u64) as i64 - t.mag).collect();
    let mut lists_nofilter: Vec<String> = vec![];
    let mut nparts_total = 0usize;
    for variant in ["nofilter", "allow", "refine"] {
        let rf = if variant == "refine" { Some(rng.range(1, 3) as u32) } else { None };
        let flt = if variant == "allow" { Flt::TagEq(rng.below(3) as i32) } else { Flt::None };
        let loader: Option<Box<dyn FilterLoader>> = if variant == "allow" {
            Some(Box::new(AllowList(t.rows.iter().filter(|r| !r.deleted && flt.pass(r)).filter_map(|r| r.rowid).collect())))
        } else {
            None
        };
        let pf = Arc::new(DatasetPreFilter::new(Arc::new(t.ds.clone()), &metas, loader));
        let mask_empty = pf.is_empty();
        let keff = k * rf.unwrap_or(1) as usize;
        for m in &metas {
            let idx = t.ds.open_vector_index("vec", &m.uuid.to_string(), &NoOpMetricsCollector).await.map_err(es)?;
            let np = idx.total_partitions();
            let qq = Query { column: "vec".into(), key: key_array(t.ety, &q), k, lower_bound: None, upper_bound: None, minimum_nprobes: np, maximum_nprobes: Some(np), ef: None, refine_factor: rf, metric_type: t.metric, use_index: true, dist_q_c: 0.0 };
            for p in 0..np {
                let bs: Vec<RecordBatch> = idx.partition_reader(p, false, &NoOpMetricsCollector).await.map_err(es)?.try_collect().await.map_err(es)?;
                let mut rids: Vec<u64> = vec![];
                for b in &bs {
                    rids.extend(b.column_by_name("_rowid").unwrap().as_any().downcast_ref::<UInt64Array>().unwrap().values().iter().copied());
                }
                let pfc: Arc<dyn PreFilter> = pf.clone();
                let r = idx.search_in_partition(p, &qq, pfc, &NoOpMetricsCollector).await;
                let out: Result<Vec<(i64, Key)>, String> = r.map_err(es).map(|b| {
                    let d = b.column_by_name("_distance").unwrap().as_any().downcast_ref::<Float32Array>().unwrap();
                    let rid = b.column_by_name("_rowid").unwrap().as_any().downcast_ref::<UInt64Array>().unwrap();
                    (0..b.num_rows()).map(|i| (t.rowid2id.get(&rid.value(i)).map(|x| *x as i64).unwrap_or((1i64 << 41) + i as i64), f32_key(if d.is_null(i) { None } else { Some(d.value(i)) }))).collect()
                });
                let mut unknown = 0i64;
                let part: Vec<String> = rids
                    .iter()
                    .map(|rid| match t.rowid2id.get(rid) {
                        Some(id) => {
                            let r = &t.rows[*id as usize];
                            crow(r.id as i64, &exact_key(t.metric, &q, &r.vec), r.deleted, flt.pass(r))
                        }
                        None => {
                            unknown += 1;
                            crow((1i64 << 40) + unknown, &Key::Num(0), true, false)
                        }
                    })
                    .collect();
                let inp = format!("({}%nat, {}, {})", keff, coq::b(mask_empty), coq::list(part));
                let o = match &out {
                    Ok(g) => format!("(Ok {})", coq::list(g.iter().map(|(i, k)| format!("({}, {})", i, k.coq())))),
                    Err(_) => "Err".into(),
                };
                // oracle: a valid top-k_eff of the selected rows of this partition
                let selv: Vec<i128> = {
                    let mut v: Vec<i128> = rids.iter().filter_map(|rid| t.rowid2id.get(rid)).map(|id| &t.rows[*id as usize]).filter(|r| !r.deleted && flt.pass(r) && r.vec.is_some()).map(|r| match exact_key(t.metric, &q, &r.vec) { Key::Num(z) => z, _ => 0 }).collect();
                    v.sort();
                    v.truncate(keff);
                    v
                };
                let ok = match &out {
                    Ok(g) => {
                        let mut gv: Vec<i128> = g.iter().map(|x| match x.1 { Key::Num(z) => z, _ => i128::MAX }).collect();
                        gv.sort();
                        gv == selv && g.iter().all(|(id, kk)| *id < (1 << 40) && { let r = &t.rows[*id as usize]; !r.deleted && flt.pass(r) && exact_key(t.metric, &q, &r.vec) == *kk })
                    }
                    Err(_) => false,
                };
                let case = json!({"table": t.name, "history": t.hist, "api": "IVFIndex::search_in_partition", "variant": variant, "partition": p, "k": k, "refine_factor": rf, "query": q, "partition_rows": rids.len(), "out": format!("{:?}", out).chars().take(400).collect::<String>()});
                if ok {
                    sink.oracle_ok();
                } else {
                    sink.oracle_fail(None, "C22 part: search_in_partition is not the k_eff nearest selected rows of the partition", case.clone());
                }
                sink.count(&format!("part:{variant}:{}", if mask_empty { "mask-empty" } else { "masked" }));
                sink.nontrivial(&format!("part{inp}"));
                st.part.push(inp, o, case);
                if variant == "nofilter" {
                    nparts_total += 1;
                    if let Ok(g) = &out {
                        lists_nofilter.push(coq::list(g.iter().map(|(i, k)| format!("({}, {})", i, k.coq()))));
                    }
                }
            }
        }
    }
    // merge: the scanner's ANN node (every partition probed, no refine, fast_search: index rows only)
    if lists_nofilter.len() == nparts_total {
        let maxp = {
            let mut mp = 0;
            for m in &metas {
                mp = mp.max(t.ds.open_vector_index("vec", &m.uuid.to_string(), &NoOpMetricsCollector).await.map_err(es)?.total_partitions());
            }
            mp
        };
        let qp = QP { metric: t.metric, k, flt: Flt::None, prefilter: true, refine: None, nprobes: Some(maxp), fast: true, use_index: true };
        let res = run_scan(&t.ds, t.ety, &q, &qp).await;
        let case = json!({"table": t.name, "history": t.hist, "api": "Scanner::nearest ANN node vs exported per-partition candidates", "k": k, "query": q, "got": format!("{:?}", res).chars().take(400).collect::<String>()});
        match res {
            Ok(g) => {
                let inp = format!("({}%nat, {})", k, coq::list(lists_nofilter));
                let o = coq::list(g.iter().map(|(i, d)| format!("({}, {})", i, f32_key(*d).coq())));
                sink.count("merge");
                sink.nontrivial(&format!("merge{inp}"));
                st.merge.push(inp, o, case);
            }
            Err(e) => sink.oracle_fail(None, &format!("C22 merge: query failed: {e}"), case),
        }
    }
    Ok(())
}

fn random_qp(rng: &mut Rng, t: &Tbl, metric: MetricType, maxp: usize) -> (QP, &'static str) {
    let live: Vec<&Row> = t.rows.iter().filter(|r| !r.deleted).collect();
    let flt = match rng.below(6) {
        0 | 1 => Flt::TagEq(rng.below(3) as i32),
        2 => Flt::IdGe((t.rows.len() as i32 * rng.range(3, 9) as i32) / 10),
        3 if rng.chance(1, 3) => Flt::TagEq(7),
        _ => Flt::None,
    };
    let elig = live.iter().filter(|r| flt.pass(r) && r.vec.is_some()).count();
    let k = match rng.below(8) {
        0 => 1,
        1 => 2,
        2 => rng.range(3, 12) as usize,
        3 => elig.max(2) - 1,
        4 => elig.max(1),
        5 => elig + 1,
        6 => 1000,
        _ => rng.range(1, 20) as usize,
    };
    let prefilter = flt == Flt::None || !rng.chance(1, 4);
    if !t.has_index {
        return (QP { metric, k, flt, prefilter, refine: None, nprobes: None, fast: false, use_index: true }, "flat");
    }
    let refine = match rng.below(5) {
        0 => Some(1),
        1 => Some(rng.range(2, 4) as u32),
        _ => None,
    };
    match rng.below(10) {
        0 => (QP { metric, k, flt, prefilter, refine: None, nprobes: None, fast: false, use_index: false }, "flat-noindex"),
        1 | 2 if maxp > 1 => (QP { metric, k, flt, prefilter, refine, nprobes: Some(rng.range(1, maxp as u64 - 1) as usize), fast: rng.chance(1, 4), use_index: true }, "ivf-partial"),
        3 => (QP { metric, k, flt, prefilter, refine, nprobes: None, fast: rng.chance(1, 4), use_index: true }, "ivf-late"),
        4 => (QP { metric, k, flt, prefilter, refine, nprobes: Some(maxp + rng.below(3) as usize), fast: true, use_index: true }, "ivf-all-fast"),
        _ => (QP { metric, k, flt, prefilter, refine, nprobes: Some(maxp + rng.below(2) as usize), fast: false, use_index: true }, "ivf-all"),
    }
}

async fn max_partitions(t: &Tbl) -> Result<usize, String> {
    let mut mp = 0;
    for m in t.ds.load_indices_by_name(IDX).await.map_err(es)? {
        mp = mp.max(t.ds.open_vector_index("vec", &m.uuid.to_string(), &NoOpMetricsCollector).await.map_err(es)?.total_partitions());
    }
    Ok(mp)
}

async fn table_history(ti: usize, dir: &std::path::Path, rng: &mut Rng, sink: &mut Sink, st: &mut Streams, args: &Args) -> Result<(), String> {
    let ety = match std::env::var("HX_C22_ETY").ok().as_deref() {
        Some("f16") => Ety::F16,
        Some("f64") => Ety::F64,
        Some("f32") => Ety::F32,
        _ => match ti % 4 {
            2 => Ety::F16,
            3 => Ety::F64,
            _ => Ety::F32,
        },
    };
    // axis tables: cosine with exactly representable distances (0, 1, 2, NaN for zero vectors) -> model stream
    let axis = ti % 6 == 5 && std::env::var("HX_C22_ETY").is_err();
    let ety = if axis { Ety::F32 } else { ety };
    let dim = if axis { rng.range(2, 6) as usize } else { *rng.pick(&[1usize, 2, 3, 5, 7, 8, 9, 13, 16, 17, 24, 31, 33, 40]) };
    let mag = if ety == Ety::F16 { *rng.pick(&[1i64, 2, 3]) } else { *rng.pick(&[1i64, 2, 4]) };
    let metric = if axis { MetricType::Cosine } else { [MetricType::L2, MetricType::Dot, MetricType::Cosine][(ti + rng.below(2) as usize) % 3] };
    let with_nulls = rng.chance(1, 3);
    let fsl_ty = fsl(ety, &[], dim).data_type().clone();
    let schema = Arc::new(Schema::new(vec![Field::new("id", DataType::Int32, false), Field::new("tag", DataType::Int32, false), Field::new("vec", fsl_ty, true)]));
    let uri = dir.join(format!("t{ti}")).to_string_lossy().to_string();
    let name = format!("t{ti}");
    // initial write
    let n0 = rng.range(20, 110) as usize;
    let rows = mk_rows(rng, &[], n0, dim, mag, with_nulls, axis);
    let b = mk_batch(&schema, ety, dim, &rows);
    let mrf = *rng.pick(&[n0, n0 / 2 + 1, n0 / 3 + 1]);
    let ds = Dataset::write(RecordBatchIterator::new(vec![Ok(b)], schema.clone()), &uri, Some(WriteParams { max_rows_per_file: mrf, ..Default::default() })).await.map_err(es)?;
    let mut t = Tbl { ds, schema: schema.clone(), rows, dim, ety, mag, with_nulls, metric, has_index: false, rowid2id: HashMap::new(), hist: vec![], name, nparts: 0, axis };
    t.hist.push(format!("write {n0} rows ({:?}, dim {dim}, |x|<={mag}, nulls={with_nulls}, max_rows_per_file={mrf})", ety));
    t.refresh().await?;
    sink.count(&format!("table:{:?}:{:?}{}", ety, metric, if axis { ":axis" } else { "" }));

    // phase A: flat search, every metric
    for _ in 0..args.vol(4, 8) {
        let m = *rng.pick(&[MetricType::L2, MetricType::Dot, MetricType::Cosine]);
        let (qp, arm) = random_qp(rng, &t, m, 0);
        query(&t, rng, sink, st, qp, arm).await?;
    }
    // documented errors
    if ti % 3 == 0 {
        let qp = QP { metric: MetricType::L2, k: 0, flt: Flt::None, prefilter: true, refine: None, nprobes: None, fast: false, use_index: true };
        query(&t, rng, sink, st, qp, "k0").await?;
    }

    // index
    let nparts = rng.range(1, 5) as usize;
    match t.ds.create_index(&["vec"], IndexType::Vector, Some(IDX.into()), &VectorIndexParams::ivf_flat(nparts, metric), true).await {
        Ok(_) => {
            t.has_index = true;
            t.nparts = nparts;
            t.hist.push(format!("create_index IVF_FLAT partitions={nparts} {:?}", metric));
        }
        Err(e) => {
            // index construction is not what C22 states; record and continue with flat search only
            sink.count(&format!("create_index-failed:{:?}", ety));
            sink.notes.push(format!("create_index failed on {:?}: {}", ety, e.to_string().chars().take(120).collect::<String>()));
        }
    }
    t.refresh().await?;
    if t.has_index && t.ety != Ety::F32 {
        // known finding ivf_flat_non_f32: exhibit it on two queries, then continue the history without the index
        let maxp = t.nparts;
        for fast in [false, true] {
            let qp = QP { metric: t.metric, k: rng.range(1, 9) as usize, flt: Flt::None, prefilter: true, refine: None, nprobes: Some(maxp), fast, use_index: true };
            query(&t, rng, sink, st, qp, "ivf-all").await?;
        }
        t.ds.drop_index(IDX).await.map_err(es)?;
        t.has_index = false;
        t.hist.push("drop_index".into());
        t.refresh().await?;
    }
    let nops = args.vol(3, 6);
    for step in 0..=nops {
        if step > 0 {
            // one history operation
            let live: Vec<i32> = t.rows.iter().filter(|r| !r.deleted).map(|r| r.id).collect();
            match rng.below(8) {
                0 | 1 => {
                    let m = rng.range(2, 6) as i32;
                    let r = rng.below(m as u64) as i32;
                    if live.iter().filter(|i| *i % m != r).count() >= 3 {
                        t.ds.delete(&format!("id % {m} = {r}")).await.map_err(es)?;
                        for row in t.rows.iter_mut() {
                            if row.id % m == r {
                                row.deleted = true;
                            }
                        }
                        t.hist.push(format!("delete id % {m} = {r}"));
                    }
                }
                2 | 3 | 4 => {
                    let n = rng.range(3, 40) as usize;
                    let rows = t.new_rows(rng, n);
                    let b = t.batch(&rows);
                    t.ds.append(RecordBatchIterator::new(vec![Ok(b)], schema.clone()), Some(WriteParams { mode: WriteMode::Append, ..Default::default() })).await.map_err(es)?;
                    t.rows.extend(rows);
                    t.hist.push(format!("append {n} rows"));
                }
                5 | 6 => {
                    if t.has_index {
                        let (o, nm) = match rng.below(3) {
                            0 => (OptimizeOptions::append(), "append"),
                            1 => (OptimizeOptions::merge(rng.range(1, 3) as usize), "merge"),
                            _ => (OptimizeOptions::default(), "default"),
                        };
                        t.ds.optimize_indices(&o).await.map_err(es)?;
                        t.hist.push(format!("optimize_indices {nm}"));
                    }
                }
                _ => {
                    let opts = CompactionOptions { target_rows_per_fragment: *rng.pick(&[50usize, 1000]), materialize_deletions_threshold: 0.0, ..Default::default() };
                    compact_files(&mut t.ds, opts, None).await.map_err(es)?;
                    t.hist.push("compact_files".into());
                }
            }
            t.refresh().await?;
            // lance drops a vector index from the manifest once none of its fragments is left (Transaction::
            // retain_relevant_indices: a delete or a compaction removed the last indexed fragment): from then on the
            // table is searched flat and fast_search has nothing to skip - follow it, or the bookkeeping below would
            // expect an (empty) index search
            if t.has_index && t.ds.load_indices_by_name(IDX).await.map_err(es)?.is_empty() {
                t.has_index = false;
                t.hist.push("(vector index removed by lance: no indexed fragment left)".into());
                sink.count("index-vanished");
            }
        }
        let maxp = if t.has_index { max_partitions(&t).await.unwrap_or(t.nparts) } else { 0 };
        unit_streams(&t, rng, sink, st).await?;
        for _ in 0..args.vol(5, 10) {
            let m = if t.has_index { t.metric } else { *rng.pick(&[MetricType::L2, MetricType::Dot, MetricType::Cosine]) };
            let (qp, arm) = random_qp(rng, &t, m, maxp);
            query(&t, rng, sink, st, qp, arm).await?;
        }
        // post-filtered queries (a filter with prefilter = false), asked explicitly on every table state instead of
        // being left to the 1-in-8 chance of random_qp: the `search` stream accepts for them every tie-break at the
        // k-th distance (adm_post), so a wrong cut shows only on inputs where few rows tie there - they need volume.
        // Own generator, so the main stream of cases is the same as without this block.
        {
            let mut pr = Rng::new(args.seed ^ ((ti as u64 + 1) << 32) ^ ((step as u64 + 1) << 16) ^ 0x2290_57);
            for j in 0..args.vol(3, 6) {
                let flt = if pr.chance(2, 3) { Flt::TagEq(pr.below(3) as i32) } else { Flt::IdGe((t.rows.len() as i32 * pr.range(2, 6) as i32) / 10) };
                let k = pr.range(2, 14) as usize;
                let m = if t.has_index { t.metric } else { *pr.pick(&[MetricType::L2, MetricType::Dot]) };
                let refine = if pr.chance(1, 4) { Some(pr.range(1, 3) as u32) } else { None };
                let (qp, arm) = if !t.has_index {
                    (QP { metric: m, k, flt, prefilter: false, refine: None, nprobes: None, fast: false, use_index: true }, "post-flat")
                } else if j % 3 == 1 && maxp > 1 {
                    (QP { metric: m, k, flt, prefilter: false, refine, nprobes: Some(pr.range(1, maxp as u64 - 1) as usize), fast: pr.chance(1, 4), use_index: true }, "post-ivf-partial")
                } else {
                    (QP { metric: m, k, flt, prefilter: false, refine, nprobes: Some(maxp), fast: pr.chance(1, 5), use_index: true }, "post-ivf-all")
                };
                query(&t, &mut pr, sink, st, qp, arm).await?;
            }
        }
        if t.has_index && step == 1 && ti % 2 == 0 {
            let qp = QP { metric: t.metric, k: 3, flt: Flt::None, prefilter: true, refine: Some(0), nprobes: Some(maxp), fast: false, use_index: true };
            query(&t, rng, sink, st, qp, "refine0").await?;
        }
    }
    Ok(())
}

pub fn run(args: &Args) -> i32 {
    let mut sink = Sink::new("C22", &args.out);
    let mut rng = Rng::new(args.seed);
    let rt = tokio::runtime::Builder::new_multi_thread().worker_threads(4).enable_all().build().unwrap();
    let crow_ty = "list (N * (key * (bool * bool)))";
    let mut st = Streams {
        part: Stream::new("part", REQ, "chk_part", &format!("nat * bool * {crow_ty}"), "outcome (list (N * key))"),
        merge: Stream::new("merge", REQ, "chk_merge", "nat * list (list (N * key))", "list (N * key)"),
        search: Stream::new("search", REQ, "chk_search", &format!("(nat * option nat * nat) * (bool * bool * bool * bool * bool * bool) * list (list ({crow_ty})) * {crow_ty}"), "outcome (list (N * key))"),
    };
    st.part.shard = 150;
    st.merge.shard = 100;
    st.search.shard = 40;
    let dir = tempfile::tempdir().unwrap();
    let ntables = args.vol(6, 36);
    for ti in 0..ntables {
        let mut r = rng.fork();
        // A table history normally takes 0.5 - 3 s.  An operation of lance that never completes (observed once in the
        // thorough tier: every thread idle, a future waiting for a wake-up that never comes) is a liveness matter,
        // not a statement of C22 about the rows returned: the history is abandoned (its cases so far are kept), counted
        // and reported in the evidence notes instead of blocking the check until the driver's run timeout.
        let limit = std::time::Duration::from_secs(std::env::var("HX_C22_TABLE_TIMEOUT_S").ok().and_then(|x| x.parse().ok()).unwrap_or(180));
        let res = rt.block_on(async { tokio::time::timeout(limit, table_history(ti, dir.path(), &mut r, &mut sink, &mut st, args)).await });
        let res = match res {
            Ok(r) => r,
            Err(_) => {
                sink.count("table-history-timeout");
                sink.notes.push(format!("table t{ti}: history abandoned after {} s without progress (liveness, outside C22's statement; seed {})", limit.as_secs(), args.seed));
                eprintln!("NOTE: C22 table t{ti}: history abandoned after {} s (an operation of lance did not complete)", limit.as_secs());
                Ok(())
            }
        };
        if let Err(e) = res {
            // an operation of the history itself failed: the history is part of the quantified domain
            sink.oracle_fail(None, &format!("C22 history: operation failed: {}", e.chars().take(300).collect::<String>()), json!({"table": ti, "seed": args.seed}));
        }
    }
    sink.notes.push("exact-integer mode: L2/dot distances of integer-valued vectors are exact in f16/f32/f64, compared bit-exactly; cosine compared with tolerance (oracle only)".into());
    sink.add(st.part);
    sink.add(st.merge);
    sink.add(st.search);
    let _: Value = json!(null);
    sink.finish();
    0
}
