//! C23 end-to-end: small-vocabulary random documents (NULL, empty, unicode, mixed case, punctuation) tokenised by
//! the REAL tokenizer of the index; histories (write, inverted index with positions, append, delete,
//! optimize_indices, compact_files); term / OR / AND / phrase / boolean queries through Scanner::full_text_search
//! with a limit large enough to return every match.
//!   oracle: brute-force evaluation of the query over the token lists (model independent): doc-set equality,
//!           scores sorted descending, BM25 order of indexed rows (f64 reference, tolerance);
//!   model : stream `fts`  (match set of Index/Model_Fts.v = returned ids), stream `rank` (BM25 order, exact rationals).
use arrow_array::{Array, Float32Array, Int32Array, RecordBatch, RecordBatchIterator, StringArray};
use arrow_schema::{DataType, Field, Schema};
use futures::TryStreamExt;
use hxlib::util::{coq, Args, Rng, Sink, Stream};
use lance::dataset::optimize::{compact_files, CompactionOptions};
use lance::dataset::{WriteMode, WriteParams};
use lance::Dataset;
use lance_index::optimize::OptimizeOptions;
use lance_index::scalar::inverted::query::{collect_doc_tokens, BooleanQuery, FtsQuery, MatchQuery, Occur, Operator, PhraseQuery};
use lance_index::scalar::{FullTextSearchQuery, InvertedIndexParams};
use lance_index::{DatasetIndexExt, IndexType};
use serde_json::json;
use std::collections::{BTreeMap, BTreeSet, HashSet};
use std::sync::Arc;

const REQ: &str = "Common.Base Index.Model_Fts";
const IDX: &str = "text_idx";
const VOCAB: [&str; 7] = ["zeta", "kappa", "omega", "quux", "blorp", "émile", "rare"];
const UNKNOWN: &str = "nomatch";

fn es<E: std::fmt::Display>(e: E) -> String {
    e.to_string()
}

#[derive(Clone, Debug)]
struct Doc {
    id: i32,
    text: Option<String>,
    toks: Option<Vec<String>>, // the REAL tokenizer's output
    deleted: bool,
    frag: Option<u32>,
}

#[derive(Clone, Debug)]
enum Q {
    // `raw`: the words as written in the query string; `terms`: the REAL tokenizer's output on that string
    Match { and: bool, raw: Vec<String>, terms: Vec<String> },
    Phrase { raw: Vec<String>, terms: Vec<String> },
    Bool { must: Vec<Q>, should: Vec<Q>, must_not: Vec<Q> },
}

impl Q {
    fn to_fts(&self) -> FtsQuery {
        match self {
            Q::Match { and, raw, .. } => FtsQuery::Match(MatchQuery::new(raw.join(" ")).with_column(Some("text".into())).with_operator(if *and { Operator::And } else { Operator::Or })),
            Q::Phrase { raw, .. } => FtsQuery::Phrase(PhraseQuery::new(raw.join(" ")).with_column(Some("text".into()))),
            Q::Bool { must, should, must_not } => FtsQuery::Boolean(BooleanQuery::new(
                must.iter().map(|q| (Occur::Must, q.to_fts())).chain(should.iter().map(|q| (Occur::Should, q.to_fts()))).chain(must_not.iter().map(|q| (Occur::MustNot, q.to_fts()))),
            )),
        }
    }
    /// the specification: does the token list match?
    fn matches(&self, t: &[String]) -> bool {
        match self {
            Q::Match { and: false, terms, .. } => terms.iter().any(|x| t.contains(x)),
            Q::Match { and: true, terms, .. } => !terms.is_empty() && terms.iter().all(|x| t.contains(x)),
            Q::Phrase { terms, .. } => !terms.is_empty() && t.len() >= terms.len() && t.windows(terms.len()).any(|w| w == &terms[..]),
            Q::Bool { must, should, must_not } => {
                let pos = if must.is_empty() { should.iter().any(|q| q.matches(t)) } else { must.iter().all(|q| q.matches(t)) };
                pos && !must_not.iter().any(|q| q.matches(t))
            }
        }
    }
    fn has_phrase(&self) -> bool {
        match self {
            Q::Phrase { .. } => true,
            Q::Match { .. } => false,
            Q::Bool { must, should, must_not } => must.iter().chain(should).chain(must_not).any(|q| q.has_phrase()),
        }
    }
    fn has_repeated_phrase(&self) -> bool {
        match self {
            Q::Phrase { terms, .. } => terms.len() >= 3 && terms.iter().collect::<HashSet<_>>().len() < terms.len(),
            Q::Match { .. } => false,
            Q::Bool { must, should, must_not } => must.iter().chain(should).chain(must_not).any(|q| q.has_repeated_phrase()),
        }
    }
    /// a phrase of >= 3 tokens without a repeated token
    fn has_long_phrase(&self) -> bool {
        match self {
            Q::Phrase { terms, .. } => terms.len() >= 3,
            Q::Match { .. } => false,
            Q::Bool { must, should, must_not } => must.iter().chain(should).chain(must_not).any(|q| q.has_long_phrase()),
        }
    }
    /// an AND leaf with a token that no indexed document contains
    fn has_and_unknown(&self, vocab: &HashSet<String>) -> bool {
        match self {
            Q::Match { and: true, terms, .. } => terms.iter().any(|t| !vocab.contains(t)) && terms.iter().any(|t| vocab.contains(t)),
            Q::Match { .. } | Q::Phrase { .. } => false,
            Q::Bool { must, should, must_not } => must.iter().chain(should).chain(must_not).any(|q| q.has_and_unknown(vocab)),
        }
    }
    fn has_multi_and(&self) -> bool {
        match self {
            Q::Match { and: true, terms, .. } => terms.iter().collect::<HashSet<_>>().len() > 1,
            Q::Match { .. } | Q::Phrase { .. } => false,
            Q::Bool { must, should, must_not } => must.iter().chain(should).chain(must_not).any(|q| q.has_multi_and()),
        }
    }
    fn describe(&self) -> String {
        match self {
            Q::Match { and, raw, .. } => format!("{}({})", if *and { "AND" } else { "OR" }, raw.join(" ")),
            Q::Phrase { raw, .. } => format!("PHRASE(\"{}\")", raw.join(" ")),
            Q::Bool { must, should, must_not } => format!("BOOL(must=[{}] should=[{}] must_not=[{}])", must.iter().map(|q| q.describe()).collect::<Vec<_>>().join(","), should.iter().map(|q| q.describe()).collect::<Vec<_>>().join(","), must_not.iter().map(|q| q.describe()).collect::<Vec<_>>().join(",")),
        }
    }
    fn coq(&self, ids: &mut TokIds) -> String {
        match self {
            Q::Match { and, terms, .. } => format!("(QMatch {} {})", coq::b(*and), coq::list(terms.iter().map(|t| ids.id(t).to_string()))),
            Q::Phrase { terms, .. } => format!("(QPhrase {})", coq::list(terms.iter().map(|t| ids.id(t).to_string()))),
            Q::Bool { must, should, must_not } => format!("(QBool {} {} {})", coq::list(must.iter().map(|q| q.coq(ids))), coq::list(should.iter().map(|q| q.coq(ids))), coq::list(must_not.iter().map(|q| q.coq(ids)))),
        }
    }
}

#[derive(Default)]
struct TokIds(BTreeMap<String, u64>);
impl TokIds {
    fn id(&mut self, t: &str) -> u64 {
        let n = self.0.len() as u64;
        *self.0.entry(t.to_string()).or_insert(n)
    }
}

struct Tbl {
    ds: Dataset,
    schema: Arc<Schema>,
    docs: Vec<Doc>,
    hist: Vec<String>,
    name: String,
    params: InvertedIndexParams,
}

fn gen_text(rng: &mut Rng) -> Option<String> {
    match rng.below(12) {
        0 => None,
        1 => Some(String::new()),
        2 => Some(" , .. ".into()),
        _ => {
            let n = 1 + rng.below(6);
            let mut s = String::new();
            for i in 0..n {
                let w = if rng.chance(1, 40) { VOCAB[6] } else { VOCAB[rng.below(6) as usize] };
                let w = match rng.below(8) {
                    0 => w.to_uppercase(),
                    1 => {
                        let mut c = w.chars();
                        c.next().map(|f| f.to_uppercase().collect::<String>() + c.as_str()).unwrap_or_default()
                    }
                    _ => w.to_string(),
                };
                if i > 0 {
                    s.push_str(*rng.pick(&[" ", " ", ", ", ".  ", "\n", " — ", "\t", "; "]));
                }
                s.push_str(&w);
            }
            Some(s)
        }
    }
}

fn mk_docs(params: &InvertedIndexParams, existing: &[Doc], rng: &mut Rng, n: usize) -> Vec<Doc> {
    let base = existing.len() as i32;
    let mut tk = params.build().unwrap();
    (0..n)
        .map(|i| {
            let text = gen_text(rng);
            let toks = text.as_ref().map(|t| collect_doc_tokens(t, &mut tk, None).into_iter().collect());
            Doc { id: base + i as i32, text, toks, deleted: false, frag: None }
        })
        .collect()
}
fn mk_batch(schema: &Arc<Schema>, docs: &[Doc]) -> RecordBatch {
    let id: Int32Array = docs.iter().map(|d| Some(d.id)).collect();
    let text: StringArray = docs.iter().map(|d| d.text.clone()).collect();
    RecordBatch::try_new(schema.clone(), vec![Arc::new(id), Arc::new(text)]).unwrap()
}

impl Tbl {
    fn new_docs(&self, rng: &mut Rng, n: usize) -> Vec<Doc> {
        mk_docs(&self.params, &self.docs, rng, n)
    }
    fn batch(&self, docs: &[Doc]) -> RecordBatch {
        mk_batch(&self.schema, docs)
    }
    async fn refresh(&mut self) -> Result<(), String> {
        let mut sc = self.ds.scan();
        sc.project(&["id"]).map_err(es)?;
        sc.with_row_id();
        let bs: Vec<RecordBatch> = sc.try_into_stream().await.map_err(es)?.try_collect().await.map_err(es)?;
        let mut seen = HashSet::new();
        for d in self.docs.iter_mut() {
            d.frag = None;
        }
        for b in &bs {
            let id = b.column_by_name("id").unwrap().as_any().downcast_ref::<Int32Array>().unwrap();
            let rid = b.column_by_name("_rowid").unwrap().as_any().downcast_ref::<arrow_array::UInt64Array>().unwrap();
            for i in 0..b.num_rows() {
                self.docs[id.value(i) as usize].frag = Some((rid.value(i) >> 32) as u32);
                seen.insert(id.value(i));
            }
        }
        let live: HashSet<i32> = self.docs.iter().filter(|d| !d.deleted).map(|d| d.id).collect();
        if seen != live {
            return Err(format!("bookkeeping: scan returned {} rows, {} live expected", seen.len(), live.len()));
        }
        Ok(())
    }
    async fn indexed_frags(&self) -> Result<Option<HashSet<u32>>, String> {
        let metas = self.ds.load_indices_by_name(IDX).await.map_err(es)?;
        if metas.is_empty() {
            return Ok(None);
        }
        let mut s = HashSet::new();
        for m in metas {
            if let Some(b) = &m.fragment_bitmap {
                s.extend(b.iter());
            }
        }
        Ok(Some(s))
    }
}

async fn search(ds: &Dataset, q: &FtsQuery) -> Result<Vec<(i32, f32)>, String> {
    let (ds, q) = (ds.clone(), q.clone());
    let prev = std::panic::take_hook();
    std::panic::set_hook(Box::new(|_| {}));
    let r = tokio::spawn(async move {
        let mut sc = ds.scan();
        sc.full_text_search(FullTextSearchQuery::new_query(q).limit(Some(100000))).map_err(es)?;
        let bs: Vec<RecordBatch> = sc.try_into_stream().await.map_err(es)?.try_collect().await.map_err(es)?;
        let mut out = vec![];
        for b in bs {
            let id = b.column_by_name("id").ok_or("no id")?.as_any().downcast_ref::<Int32Array>().unwrap().clone();
            let s = b.column_by_name("_score").ok_or("no _score")?.as_any().downcast_ref::<Float32Array>().unwrap().clone();
            for i in 0..b.num_rows() {
                out.push((id.value(i), s.value(i)));
            }
        }
        Ok::<_, String>(out)
    })
    .await;
    std::panic::set_hook(prev);
    match r {
        Ok(x) => x,
        Err(e) => Err(format!("panic: {e}")),
    }
}

fn gen_terms(rng: &mut Rng, n: usize, allow_unknown: bool) -> Vec<String> {
    (0..n)
        .map(|_| {
            if allow_unknown && rng.chance(1, 12) {
                UNKNOWN.to_string()
            } else if rng.chance(1, 10) {
                VOCAB[6].to_string()
            } else {
                VOCAB[rng.below(6) as usize].to_string()
            }
        })
        .collect()
}

fn qtok(params: &InvertedIndexParams, raw: &[String]) -> Vec<String> {
    let mut tk = params.build().unwrap();
    collect_doc_tokens(&raw.join(" "), &mut tk, None).into_iter().collect()
}
fn q_match(params: &InvertedIndexParams, and: bool, raw: Vec<String>) -> Q {
    let terms = qtok(params, &raw);
    Q::Match { and, raw, terms }
}
fn q_phrase(params: &InvertedIndexParams, raw: Vec<String>) -> Q {
    let terms = qtok(params, &raw);
    Q::Phrase { raw, terms }
}

fn gen_leaf(rng: &mut Rng, p: &InvertedIndexParams, multi_part: bool) -> Q {
    let n23 = rng.range(2, 3) as usize;
    let n13 = rng.range(1, 3) as usize;
    match rng.below(10) {
        0 | 1 => q_match(p, false, gen_terms(rng, 1, true)),
        2 | 3 => q_match(p, false, gen_terms(rng, n23, true)),
        // (the vocabulary test of an AND query is per index partition, and partition boundaries are not observable:
        //  once the index may have several partitions AND queries use only words that occur everywhere, or nowhere)
        4 | 5 | 6 => q_match(p, true, gen_terms(rng, n23, true).into_iter().map(|t| if multi_part && t == VOCAB[6] { VOCAB[0].to_string() } else { t }).collect()),
        _ => q_phrase(p, gen_terms(rng, n13, true)),
    }
}

fn gen_query(rng: &mut Rng, p: &InvertedIndexParams, multi_part: bool) -> Q {
    if rng.chance(1, 5) {
        let must: Vec<Q> = (0..rng.below(3)).map(|_| gen_leaf(rng, p, multi_part)).collect();
        let mut should: Vec<Q> = (0..rng.below(3)).map(|_| gen_leaf(rng, p, multi_part)).collect();
        if must.is_empty() && should.is_empty() {
            should.push(gen_leaf(rng, p, multi_part));
        }
        let must_not: Vec<Q> = (0..rng.below(2)).map(|_| gen_leaf(rng, p, multi_part)).collect();
        Q::Bool { must, should, must_not }
    } else {
        gen_leaf(rng, p, multi_part)
    }
}

async fn one_query(t: &Tbl, q: &Q, ids: &mut TokIds, sink: &mut Sink, fts: &mut Stream, phase: &str) -> Result<(), String> {
    let ifr = t.indexed_frags().await?;
    let is_indexed = |d: &Doc| match (&ifr, d.frag) {
        (Some(s), Some(f)) => s.contains(&f),
        _ => false,
    };
    let live: Vec<&Doc> = t.docs.iter().filter(|d| !d.deleted).collect();
    let has_fresh = live.iter().any(|d| !is_indexed(d));
    let res = search(&t.ds, &q.to_fts()).await;
    let exp: BTreeSet<i32> = live.iter().filter(|d| d.toks.as_ref().map(|x| q.matches(x)).unwrap_or(false)).map(|d| d.id).collect();
    let case = json!({"table": t.name, "history": t.hist, "phase": phase, "query": q.describe(), "has_unindexed_rows": has_fresh, "got": format!("{:?}", res).chars().take(600).collect::<String>(), "expected_ids": exp.iter().take(60).collect::<Vec<_>>()});
    sink.count(&format!("q:{}:{}", phase, match q { Q::Match { and: true, .. } => "and", Q::Match { .. } => "or", Q::Phrase { .. } => "phrase", Q::Bool { .. } => "bool" }));
    // known classes (predicates on (query, has-unindexed-rows))
    let vocab: HashSet<String> = t.docs.iter().filter(|d| is_indexed(d)).filter_map(|d| d.toks.as_ref()).flatten().cloned().collect();
    let class = if q.has_repeated_phrase() {
        Some("phrase_repeated_term")
    } else if q.has_long_phrase() {
        Some("phrase_later_term_early")
    } else if ifr.is_some() && q.has_and_unknown(&vocab) {
        Some("and_unknown_term")
    } else if has_fresh && q.has_phrase() {
        Some("flat_path_no_phrase")
    } else if has_fresh && q.has_multi_and() {
        Some("flat_path_and_as_or")
    } else {
        None
    };
    let mut fails = vec![];
    match &res {
        Err(e) => fails.push(format!("query failed: {}", e.chars().take(200).collect::<String>())),
        Ok(got) => {
            let gids: BTreeSet<i32> = got.iter().map(|g| g.0).collect();
            if gids.len() != got.len() {
                fails.push("a document is returned twice".into());
            }
            if gids != exp {
                let only_g: Vec<_> = gids.difference(&exp).take(5).collect();
                let only_e: Vec<_> = exp.difference(&gids).take(5).collect();
                fails.push(format!("doc set differs from the tokenised evaluation: {} returned, {} expected; only returned {:?} (tokens {:?}); only expected {:?} (tokens {:?})", gids.len(), exp.len(), only_g, only_g.first().map(|i| t.docs[**i as usize].toks.clone()), only_e, only_e.first().map(|i| t.docs[**i as usize].toks.clone())));
            }
            for g in got {
                if t.docs.get(g.0 as usize).map(|d| d.deleted).unwrap_or(true) {
                    fails.push(format!("deleted / unknown row {} returned", g.0));
                }
            }
            if !matches!(q, Q::Bool { .. }) && !(ifr.is_none()) && !got.windows(2).all(|w| w[0].1 >= w[1].1) {
                fails.push("scores are not sorted descending".into());
            }
            // BM25 shape (indexed rows, one query token): more occurrences in a document that is not longer never scores lower
            if let (Q::Match { and: false, terms, .. }, false) = (q, has_fresh) {
                if terms.len() == 1 {
                    let fd: Vec<(usize, usize, f32, i32)> = got.iter().filter_map(|g| t.docs.get(g.0 as usize).and_then(|d| d.toks.as_ref()).map(|x| (x.iter().filter(|w| **w == terms[0]).count(), x.len(), g.1, g.0))).collect();
                    'outer: for a in &fd {
                        for b in &fd {
                            if a.0 >= b.0 && a.1 <= b.1 && (a.0 > b.0 || a.1 < b.1) && a.2 < b.2 - 1e-6 {
                                fails.push(format!("BM25 order: doc {} (tf {}, len {}) scores {} below doc {} (tf {}, len {}) scoring {}", a.3, a.0, a.1, a.2, b.3, b.0, b.1, b.2));
                                break 'outer;
                            }
                        }
                    }
                }
            }
        }
    }
    if fails.is_empty() {
        sink.oracle_ok();
    } else {
        let mut c = case.clone();
        c["all_failures"] = json!(fails);
        sink.oracle_fail(class, &format!("C23 {phase}: {}", fails[0]), c);
    }
    // model stream: (indexed docs, unindexed docs) of the live+deleted physical rows, query -> sorted ids
    let mk = |d: &Doc, ids: &mut TokIds| format!("({}, {})", d.id, coq::opt(d.toks.as_ref().map(|x| coq::list(x.iter().map(|w| ids.id(w).to_string())))));
    let indexed: Vec<String> = t.docs.iter().filter(|d| is_indexed(d) || (d.deleted && ifr.is_some())).filter(|d| is_indexed(d)).map(|d| mk(d, ids)).collect();
    let fresh: Vec<String> = live.iter().filter(|d| !is_indexed(d)).map(|d| mk(d, ids)).collect();
    let deleted: Vec<String> = t.docs.iter().filter(|d| d.deleted).map(|d| d.id.to_string()).collect();
    let inp = format!("({}, {}, {}, {}, {})", coq::b(ifr.is_some()), coq::list(indexed), coq::list(fresh), coq::list(deleted), q.coq(ids));
    let out = match &res {
        Ok(g) => {
            let mut v: Vec<i32> = g.iter().map(|x| x.0).collect();
            v.sort();
            format!("(Ok {})", coq::list(v.iter().map(|x| x.to_string())))
        }
        Err(_) => "Err".into(),
    };
    sink.nontrivial(&format!("{}{}{}", t.name, t.hist.len(), q.describe()));
    fts.push(inp, out, case);
    Ok(())
}

async fn table_history(ti: usize, dir: &std::path::Path, rng: &mut Rng, sink: &mut Sink, fts: &mut Stream, args: &Args) -> Result<(), String> {
    let schema = Arc::new(Schema::new(vec![Field::new("id", DataType::Int32, false), Field::new("text", DataType::Utf8, true)]));
    let params = InvertedIndexParams::default().with_position(true).stem(false).remove_stop_words(false);
    let uri = dir.join(format!("t{ti}")).to_string_lossy().to_string();
    let n0 = if ti == 0 { 400 } else { rng.range(30, 200) as usize };
    let mut docs = mk_docs(&params, &[], rng, n0);
    if ti == 0 {
        // corpus entries: a later phrase token occurring early (check_positions overshoot), repeated-term phrases
        let mut tk = params.build().unwrap();
        for text in ["omega omega omega zeta kappa omega", "quux blorp omega zeta kappa omega", "omega quux omega", "kappa quux quux", "blorp kappa quux quux"] {
            let id = docs.len() as i32;
            docs.push(Doc { id, text: Some(text.to_string()), toks: Some(collect_doc_tokens(text, &mut tk, None).into_iter().collect()), deleted: false, frag: None });
        }
    }
    let n0 = docs.len();
    let b = mk_batch(&schema, &docs);
    let ds = Dataset::write(RecordBatchIterator::new(vec![Ok(b)], schema.clone()), &uri, Some(WriteParams { max_rows_per_file: *rng.pick(&[150usize, 1000, 60]), ..Default::default() })).await.map_err(es)?;
    let mut t = Tbl { ds, schema: schema.clone(), docs, hist: vec![], name: format!("t{ti}"), params: params.clone() };
    t.hist.push(format!("write {n0} docs"));
    t.refresh().await?;
    let mut ids = TokIds::default();
    let nq = args.vol(14, 40);
    // the F22 reproduction first (table 0): fixed queries of the design-time probe
    let w = |xs: &[&str]| xs.iter().map(|x| x.to_string()).collect::<Vec<String>>();
    let fixed: Vec<Q> = vec![
        q_phrase(&params, w(&["omega", "quux", "omega"])),
        q_phrase(&params, w(&["kappa", "quux", "quux"])),
        q_phrase(&params, w(&["zeta", "kappa", "omega"])),
        q_match(&params, true, w(&["zeta", "kappa"])),
        q_phrase(&params, w(&["zeta", "kappa"])),
        q_phrase(&params, w(&["quux", "quux"])),
        q_match(&params, true, w(&["zeta", UNKNOWN])),
        q_match(&params, true, w(&["zeta", "rare"])),
        q_match(&params, false, w(&["émile", UNKNOWN])),
    ];
    t.ds.create_index(&["text"], IndexType::Inverted, Some(IDX.into()), &params, true).await.map_err(es)?;
    t.hist.push("create_index inverted with_position".into());
    t.refresh().await?;
    let steps: Vec<&str> = if ti == 0 { vec!["none", "append80", "delete9", "optimize"] } else { vec!["none", "append", "delete", "append", "optimize", "compact", "delete"] };
    for step in steps {
        match step {
            "none" => {}
            "append80" | "append" => {
                let n = if step == "append80" { 80 } else { rng.range(5, 60) as usize };
                let docs = t.new_docs(rng, n);
                let b = t.batch(&docs);
                t.ds.append(RecordBatchIterator::new(vec![Ok(b)], schema.clone()), Some(WriteParams { mode: WriteMode::Append, ..Default::default() })).await.map_err(es)?;
                t.docs.extend(docs);
                t.hist.push(format!("append {n} docs"));
            }
            "delete9" | "delete" => {
                let m = if step == "delete9" { 9 } else { rng.range(3, 9) as i32 };
                let r = if step == "delete9" { 0 } else { rng.below(m as u64) as i32 };
                t.ds.delete(&format!("id % {m} = {r}")).await.map_err(es)?;
                for d in t.docs.iter_mut() {
                    if d.id % m == r {
                        d.deleted = true;
                    }
                }
                t.hist.push(format!("delete id % {m} = {r}"));
            }
            "optimize" => {
                let (o, nm) = match rng.below(3) {
                    0 => (OptimizeOptions::append(), "append"),
                    1 => (OptimizeOptions::merge(2), "merge"),
                    _ => (OptimizeOptions::default(), "default"),
                };
                t.ds.optimize_indices(&o).await.map_err(es)?;
                t.hist.push(format!("optimize_indices {nm}"));
            }
            _ => {
                compact_files(&mut t.ds, CompactionOptions { target_rows_per_fragment: 1000, materialize_deletions_threshold: 0.0, ..Default::default() }, None).await.map_err(es)?;
                t.hist.push("compact_files".into());
            }
        }
        t.refresh().await?;
        for q in &fixed {
            let multi = t.hist.iter().any(|h| h.starts_with("optimize"));
            if multi && matches!(q, Q::Match { and: true, raw, .. } if raw.iter().any(|r| r == VOCAB[6])) {
                continue;
            }
            one_query(&t, q, &mut ids, sink, fts, step).await?;
        }
        for _ in 0..nq {
            let q = gen_query(rng, &params, t.hist.iter().any(|h| h.starts_with("optimize")));
            one_query(&t, &q, &mut ids, sink, fts, step).await?;
        }
    }
    Ok(())
}

pub fn run(args: &Args) -> i32 {
    let mut sink = Sink::new("C23", &args.out);
    let mut rng = Rng::new(args.seed);
    let rt = tokio::runtime::Builder::new_multi_thread().worker_threads(4).enable_all().build().unwrap();
    let dty = "list (N * option (list N))";
    let mut fts = Stream::new("fts", REQ, "chk_fts", &format!("bool * {dty} * {dty} * list N * fquery"), "outcome (list N)");
    fts.shard = 30;
    let dir = tempfile::tempdir().unwrap();
    for ti in 0..args.vol(3, 12) {
        let mut r = rng.fork();
        if let Err(e) = rt.block_on(table_history(ti, dir.path(), &mut r, &mut sink, &mut fts, args)) {
            sink.oracle_fail(None, &format!("C23 history: operation failed: {}", e.chars().take(300).collect::<String>()), json!({"table": ti, "seed": args.seed}));
        }
    }
    sink.notes.push("token lists come from the real tokenizer (InvertedIndexParams::build + collect_doc_tokens); tokens travel as numbers".into());
    sink.add(fts);
    sink.finish();
    0
}
