//! hx_c23: full-text search (inverted index with positions, flat search of unindexed rows, boolean queries)
//! against the Gallina model Index/Model_Fts.v and a brute-force evaluator over the REAL tokenizer's output.
mod e2e;

fn main() {
    let (sub, args) = hxlib::util::Args::parse();
    let code = match sub.as_str() {
        "c23" => e2e::run(&args),
        _ => {
            eprintln!("unknown subcommand {sub}");
            2
        }
    };
    std::process::exit(code);
}
