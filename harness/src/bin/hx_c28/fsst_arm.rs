//! FSST arm: fsst::fsst::compress / decompress on generated string arrays, and decompress on synthetic
//! code streams over tables the real compressor produced.
use crate::common::{cbytes, clist, cstrs, hex};
use arrow_array::OffsetSizeTrait;
use fsst::fsst::{compress, decompress, FSST_LEAST_INPUT_SIZE, FSST_SYMBOL_TABLE_SIZE};
use hxlib::util::{catch, Args, Rng, Sink, Stream};
use serde_json::{json, Value};

const REQ: &str = "Common.Base Codec.Model_Fsst";

#[derive(Clone, Debug, PartialEq)]
pub enum Oc<T> {
    Ok(T),
    Err,
    Panic,
}
impl<T> Oc<T> {
    fn coq(&self, f: impl Fn(&T) -> String) -> String {
        match self {
            Oc::Ok(v) => format!("(Ok {})", f(v)),
            Oc::Err => "Err".into(),
            Oc::Panic => "Panic".into(),
        }
    }
    fn tag(&self) -> &'static str {
        match self {
            Oc::Ok(_) => "ok",
            Oc::Err => "err",
            Oc::Panic => "panic",
        }
    }
}

pub struct Arr {
    pub data: Vec<u8>,
    pub offs: Vec<usize>,
    pub kind: String,
}
impl Arr {
    fn new(kind: &str) -> Self {
        Arr { data: vec![], offs: vec![0], kind: kind.into() }
    }
    fn push(&mut self, s: &[u8]) {
        self.data.extend_from_slice(s);
        self.offs.push(self.data.len());
    }
    fn n(&self) -> usize {
        self.offs.len() - 1
    }
}

/// (data, offsets) if the offsets slice the data consistently
fn consistent(data: &[u8], offs: &[usize]) -> bool {
    !offs.is_empty() && offs[0] == 0 && offs.windows(2).all(|w| w[0] <= w[1]) && *offs.last().unwrap() == data.len()
}

type Strs = (Vec<u8>, Vec<usize>);

fn do_compress<T: OffsetSizeTrait>(a: &Arr, tb: &mut [u8], out_cap: usize, offs_cap: usize) -> Oc<Strs> {
    let offs: Vec<T> = a.offs.iter().map(|o| T::from_usize(*o).unwrap()).collect();
    let mut out = vec![0u8; out_cap];
    let mut out_offs = vec![T::from_usize(0).unwrap(); offs_cap];
    match catch(|| compress::<T>(tb, &a.data, &offs, &mut out, &mut out_offs)) {
        Err(_) => Oc::Panic,
        Ok(Err(_)) => Oc::Err,
        Ok(Ok(())) => Oc::Ok((out, out_offs.iter().map(|o| o.as_usize()).collect())),
    }
}

fn do_decompress<T: OffsetSizeTrait>(tb: &[u8], data: &[u8], offs_u: &[usize], out_cap: usize, offs_cap: usize) -> Oc<Strs> {
    let offs: Vec<T> = offs_u.iter().map(|o| T::from_usize(*o).unwrap()).collect();
    let mut out = vec![0u8; out_cap];
    let mut out_offs = vec![T::from_usize(0).unwrap(); offs_cap];
    match catch(|| decompress::<T>(tb, data, &offs, &mut out, &mut out_offs)) {
        Err(_) => Oc::Panic,
        Ok(Err(_)) => Oc::Err,
        Ok(Ok(())) => Oc::Ok((out, out_offs.iter().map(|o| o.as_usize()).collect())),
    }
}

// ------------------------------------------------------------------ generators
fn word(rng: &mut Rng, alphabet: &[u8], lo: u64, hi: u64) -> Vec<u8> {
    (0..rng.range(lo, hi)).map(|_| *rng.pick(alphabet)).collect()
}

const KINDS: [&str; 11] =
    ["text", "random", "vocab-bytes", "high-bytes", "repeat-long", "empty-heavy", "all-bytes", "single-huge", "two-letters", "chunk-edges", "mixed"];

fn gen_array(rng: &mut Rng, kind: &str, target: usize) -> Arr {
    let mut a = Arr::new(kind);
    // skewed lower-case alphabet
    let alpha: Vec<u8> = b"eeeeeeeetttttaaaaooooiiiinnnnsssshhhrrrddlllcumwfgypbvk  ,.".to_vec();
    let vocab: Vec<Vec<u8>> = (0..120).map(|_| word(rng, &alpha[..alpha.len() - 4], 1, 9)).collect();
    let bvocab: Vec<Vec<u8>> = (0..rng.range(4, 16)).map(|_| (0..rng.range(1, 9)).map(|_| rng.below(256) as u8).collect()).collect();
    let text_line = |rng: &mut Rng| -> Vec<u8> {
        let mut l = vec![];
        for i in 0..rng.below(13) {
            if i > 0 {
                l.push(b' ');
            }
            l.extend_from_slice(rng.pick::<Vec<u8>>(&vocab));
        }
        l
    };
    while a.data.len() < target {
        let room = target - a.data.len();
        let mut s: Vec<u8> = match kind {
            "text" => text_line(rng),
            "random" => (0..rng.below(65)).map(|_| rng.below(256) as u8).collect(),
            "vocab-bytes" => {
                let mut l = vec![];
                for _ in 0..rng.below(25) {
                    l.extend_from_slice(rng.pick::<Vec<u8>>(&bvocab));
                }
                l
            }
            "high-bytes" => (0..rng.below(41)).map(|_| 250 + rng.below(6) as u8).collect(),
            "repeat-long" => {
                let pat: Vec<u8> = (0..rng.range(1, 9)).map(|_| b'a' + rng.below(3) as u8).collect();
                let len = *rng.pick(&[510usize, 511, 512, 513, 1021, 1022, 1023, 1024, 5000, 3, 0]);
                (0..len).map(|i| pat[i % pat.len()]).collect()
            }
            "empty-heavy" => {
                if rng.chance(4, 5) {
                    vec![]
                } else {
                    let mut l = text_line(rng);
                    l.extend_from_slice(&text_line(rng));
                    l.extend_from_slice(&text_line(rng));
                    l
                }
            }
            "all-bytes" => {
                // every byte value equally often: a rotation of 0..=255
                let st = rng.below(256) as usize;
                let n = rng.range(1, 256) as usize;
                (0..n).map(|i| ((st + i) % 256) as u8).collect()
            }
            "single-huge" => {
                let mut l = vec![];
                while l.len() < target {
                    l.extend_from_slice(&text_line(rng));
                    l.push(b'\n');
                }
                l
            }
            "two-letters" => (0..rng.below(60)).map(|_| if rng.chance(2, 3) { b'a' } else { b'b' }).collect(),
            "chunk-edges" => {
                let len = *rng.pick(&[509usize, 510, 511, 512, 513, 1022, 1023, 1533, 2044, 7, 1, 0]);
                let mut l = vec![];
                while l.len() < len {
                    l.extend_from_slice(rng.pick::<Vec<u8>>(&vocab));
                    if rng.chance(1, 20) {
                        l.push(255);
                    }
                }
                l.truncate(len);
                l
            }
            _ => match rng.below(5) {
                0 => text_line(rng),
                1 => (0..rng.below(30)).map(|_| rng.below(256) as u8).collect(),
                2 => vec![],
                3 => {
                    let mut l = text_line(rng);
                    l.push(255);
                    l.push(0);
                    l
                }
                _ => rng.pick::<Vec<u8>>(&bvocab).repeat(rng.below(40) as usize),
            },
        };
        if s.len() > room && kind != "single-huge" {
            s.truncate(room);
        }
        a.push(&s);
        if a.n() > 6000 {
            // avoid arrays of thousands of empty strings: pad with text
            let l = text_line(rng);
            a.push(&l);
        }
    }
    a
}

fn human(a: &Arr, bits: u32, tb_len: usize, out_cap: usize, offs_cap: usize) -> Value {
    let firsts: Vec<String> = (1..a.offs.len().min(4)).map(|i| hex(&a.data[a.offs[i - 1]..a.offs[i].min(a.offs[i - 1] + 40)])).collect();
    json!({"kind": a.kind, "strings": a.n(), "total_len": a.data.len(), "offset_bits": bits, "table_buf_len": tb_len,
           "out_cap": out_cap, "offsets_cap": offs_cap, "first_strings_hex": firsts})
}

struct RealTable {
    tb: Vec<u8>,
    n: usize,
    syms: Vec<Vec<u8>>, // first lens[k] bytes of symbol k
}

fn parse_real(tb: &[u8]) -> RealTable {
    let n = tb[0] as usize;
    let syms = (0..n)
        .map(|k| {
            let len = tb[8 + 8 * n + k] as usize;
            tb[8 + 8 * k..8 + 8 * k + len.min(8)].to_vec()
        })
        .collect();
    RealTable { tb: tb.to_vec(), n, syms }
}

pub fn run(args: &Args, rng: &mut Rng, sink: &mut Sink) {
    let mut tables: Vec<RealTable> = vec![];
    let mut copy_table: Option<Vec<u8>> = None;

    // ------------------------------------------------------------ compress + decompress
    let mut s = Stream::new(
        "fsst_rt",
        REQ,
        "chk_fsst_roundtrip",
        "(N * N) * N * N * list (list PrimInt63.int)",
        "outcome (list PrimInt63.int * list (list PrimInt63.int) * outcome (option (list (list PrimInt63.int))))",
    );
    s.shard = 2;
    // same checker, separate stream so that the many small cases share one coqc process
    let mut s_small = Stream::new(
        "fsst_small",
        REQ,
        "chk_fsst_roundtrip",
        "(N * N) * N * N * list (list PrimInt63.int)",
        "outcome (list PrimInt63.int * list (list PrimInt63.int) * outcome (option (list (list PrimInt63.int))))",
    );
    s_small.shard = 60;
    // plan: (kind, target total length, error flavour)
    let mut plan: Vec<(String, usize, &str)> = vec![];
    let bulk = args.vol(11, 66);
    for k in 0..bulk {
        let kind = KINDS[k % KINDS.len()];
        let target = match k % 4 {
            0 => FSST_LEAST_INPUT_SIZE,
            1 => FSST_LEAST_INPUT_SIZE + 1 + rng.below(2000) as usize,
            _ => FSST_LEAST_INPUT_SIZE + rng.below(12000) as usize,
        };
        plan.push((kind.to_string(), target, "none"));
    }
    // copy path (below the 32 KiB switch), including the boundary and the empty array
    for (k, t) in [0usize, 1, 7, 300, 2000, FSST_LEAST_INPUT_SIZE - 1].iter().enumerate() {
        plan.push((KINDS[(k * 3) % KINDS.len()].to_string(), *t, "none"));
    }
    for k in 0..args.vol(3, 20) {
        plan.push((KINDS[(k * 5 + 1) % KINDS.len()].to_string(), rng.below(3000) as usize, "none"));
    }
    // argument errors
    for e in ["table-short", "table-long", "out-small", "offs-small", "out-small-copy"] {
        let t = if e == "out-small-copy" || e.starts_with("table-") { 500 } else { FSST_LEAST_INPUT_SIZE + 100 };
        plan.push(("text".into(), t, e));
    }

    for (ci, (kind, target, flavour)) in plan.iter().enumerate() {
        let a = gen_array(rng, kind, *target);
        let bits = if ci % 3 == 2 { 64 } else { 32 };
        let len = a.data.len();
        let n_offs = a.offs.len();
        let tb_fill: u8 = if ci % 4 == 3 { 0xAA } else { 0 };
        let (tb_len, out_cap, offs_cap) = match *flavour {
            "table-short" => (FSST_SYMBOL_TABLE_SIZE - 1, 2 * len, n_offs),
            "table-long" => (FSST_SYMBOL_TABLE_SIZE + 1, 2 * len, n_offs),
            "out-small" => (FSST_SYMBOL_TABLE_SIZE, len - 1, n_offs),
            "out-small-copy" => (FSST_SYMBOL_TABLE_SIZE, len / 2, n_offs),
            "offs-small" => (FSST_SYMBOL_TABLE_SIZE, 2 * len, n_offs - 1),
            // what lance-encoding passes: 2x data, 2x offsets; sometimes the exact offsets length
            _ => (FSST_SYMBOL_TABLE_SIZE, 2 * len, if ci % 2 == 0 { 2 * n_offs } else { n_offs }),
        };
        let mut tb = vec![tb_fill; tb_len];
        let c = if bits == 32 { do_compress::<i32>(&a, &mut tb, out_cap, offs_cap) } else { do_compress::<i64>(&a, &mut tb, out_cap, offs_cap) };
        let hj = human(&a, bits, tb_len, out_cap, offs_cap);
        let full = || -> Value {
            let mut v = hj.clone();
            v["data_hex"] = json!(hex(&a.data));
            v["offsets"] = json!(a.offs);
            v
        };
        let path = if len < FSST_LEAST_INPUT_SIZE { "copy" } else { "table" };
        sink.count(&format!("fsst_rt:{path}:{}", c.tag()));
        sink.count(&format!("fsst_rt:kind:{kind}"));
        sink.count(&format!("fsst_rt:offsets{bits}"));
        sink.nontrivial(&format!("fsstrt{ci}/{kind}/{len}/{}", a.n()));
        let inp = format!("(({}, {}), {}, {}, {})", tb_len, tb_fill, out_cap, offs_cap, cstrs(&a.data, &a.offs));
        let out = match &c {
            Oc::Panic => {
                sink.oracle_fail(None, "fsst::compress panicked (it may return Err, not panic)", full());
                "Panic".to_string()
            }
            Oc::Err => {
                // allowed by the property; counted
                if *flavour == "none" {
                    sink.count("fsst_rt:compress-err-on-valid-arguments");
                }
                sink.oracle_ok();
                "Err".to_string()
            }
            Oc::Ok((comp, comp_offs)) => {
                if !consistent(comp, comp_offs) || comp_offs.len() != n_offs {
                    sink.oracle_fail(None, "fsst::compress returned inconsistent offsets", full());
                    continue;
                }
                // decompress with what lance-encoding passes: 8x the compressed size, same number of offsets
                let d = if bits == 32 {
                    do_decompress::<i32>(&tb, comp, comp_offs, comp.len() * 8, comp_offs.len())
                } else {
                    do_decompress::<i64>(&tb, comp, comp_offs, comp.len() * 8, comp_offs.len())
                };
                let dec = match &d {
                    Oc::Ok((dd, doffs)) => {
                        // direct oracle: decompress(compress(x)) = x, values and offsets
                        if *dd == a.data && *doffs == a.offs {
                            sink.oracle_ok();
                            "(Ok None)".to_string()
                        } else {
                            sink.oracle_fail(None, "fsst decompress(compress(x)) != x", full());
                            if consistent(dd, doffs) {
                                format!("(Ok (Some {}))", cstrs(dd, doffs))
                            } else {
                                "(Ok (Some [[1000%uint63]]))".to_string()
                            }
                        }
                    }
                    Oc::Err => {
                        sink.oracle_fail(None, "fsst::decompress returned Err on the compressor's own output", full());
                        "Err".to_string()
                    }
                    Oc::Panic => {
                        sink.oracle_fail(None, "fsst::decompress panicked on the compressor's own output", full());
                        "Panic".to_string()
                    }
                };
                if path == "table" {
                    sink.count_n("fsst_rt:table:symbols", tb[0] as u64);
                    sink.count_n("fsst_rt:table:compressed_permille", (comp.len() * 1000 / len.max(1)) as u64);
                    if tables.len() < 12 {
                        tables.push(parse_real(&tb));
                    }
                } else if copy_table.is_none() {
                    copy_table = Some(tb.clone());
                }
                let mut comp_rec = comp.clone();
                if crate::common::plant("fsst-diff") && path == "table" && ci == 0 && !comp_rec.is_empty() {
                    let mid = comp_rec.len() / 2;
                    comp_rec[mid] ^= 1; // recorded compressed byte differs from the model (sanity test of the check)
                }
                format!("(Ok ({}, {}, {}))", cbytes(&tb), cstrs(&comp_rec, comp_offs), dec)
            }
        };
        if len < 8000 {
            s_small.push(inp, out, hj);
        } else {
            s.push(inp, out, hj);
        }
    }
    sink.add(s);
    sink.add(s_small);

    // ------------------------------------------------------------ decompress on synthetic code streams
    let mut s = Stream::new("fsst_dec", REQ, "chk_fsst_decompress", "list PrimInt63.int * list (list PrimInt63.int) * N * N", "outcome (list (list PrimInt63.int))");
    s.shard = 30;
    let per_table = args.vol(3, 12);
    for (ti, rt) in tables.iter().enumerate() {
        for k in 0..per_table {
            // flavour: 0 well-formed, 1 with codes >= n_symbols (decode to nothing), 2 malformed (escape at the end of a value)
            let flavour = if k < per_table - 2 || per_table < 3 { 0 } else { k - (per_table - 3) };
            let nstr = rng.range(1, 40) as usize;
            let mut data = vec![];
            let mut offs = vec![0usize];
            let mut expect = vec![];
            let mut expect_offs = vec![0usize];
            for si in 0..nstr {
                let ntok = if rng.chance(1, 6) { 0 } else { rng.below(14) };
                for _ in 0..ntok {
                    if rng.chance(1, 4) {
                        let b = if rng.chance(1, 3) { 255 } else { rng.below(256) as u8 };
                        data.push(255);
                        data.push(b);
                        expect.push(b);
                    } else if flavour == 1 && rng.chance(1, 5) && rt.n < 255 {
                        data.push(rng.range(rt.n as u64, 254) as u8);
                    } else if rt.n > 0 {
                        let c = rng.below(rt.n as u64) as usize;
                        data.push(c as u8);
                        expect.extend_from_slice(&rt.syms[c]);
                    }
                }
                if flavour == 2 && (si % 3 == 1 || si + 1 == nstr) {
                    data.push(255); // escape without its byte: the decoder reads the next value's first byte
                }
                offs.push(data.len());
                expect_offs.push(expect.len());
            }
            let out_cap = data.len() * 8;
            let r = do_decompress::<i32>(&rt.tb, &data, &offs, out_cap, offs.len());
            let fname = ["well-formed", "unused-codes", "dangling-escape"][flavour];
            let hj = json!({"table": ti, "n_symbols": rt.n, "flavour": fname, "strings": nstr,
                            "compressed_hex": hex(&data), "offsets": offs, "table_hex": hex(&rt.tb[..8 + 9 * rt.n])});
            if flavour < 2 {
                // oracle: symbol-by-symbol expansion (brute force)
                if r == Oc::Ok((expect.clone(), expect_offs.clone())) {
                    sink.oracle_ok();
                } else {
                    sink.oracle_fail(None, "fsst::decompress differs from symbol-by-symbol expansion of a well-formed code stream", hj.clone());
                }
            }
            sink.count(&format!("fsst_dec:{}:{}", fname, r.tag()));
            sink.nontrivial(&format!("fsstdec{ti}/{k}/{}", hex(&data[..data.len().min(16)])));
            let out = match &r {
                Oc::Ok((d, o)) if consistent(d, o) => format!("(Ok {})", cstrs(d, o)),
                Oc::Ok(_) => "(Ok [[1000%uint63]])".to_string(),
                Oc::Err => "Err".into(),
                Oc::Panic => "Panic".into(),
            };
            s.push(format!("({}, {}, {}, {})", cbytes(&rt.tb), cstrs(&data, &offs), out_cap, offs.len()), out, hj);
        }
    }
    // argument errors and the switch-off table
    if let Some(rt) = tables.first() {
        let data: Vec<u8> = (0..40).map(|i| (i % rt.n.max(1)) as u8).collect();
        let offs = vec![0usize, 10, 10, 25, 40];
        let mut bad_magic = rt.tb.clone();
        bad_magic[6] ^= 0x10;
        let mut extra_magic = rt.tb.clone();
        extra_magic[7] |= 0x80; // superset of the magic bits: accepted by `&`
        let cases: Vec<(&str, Vec<u8>, usize, usize)> = vec![
            ("bad-magic", bad_magic, 320, 5),
            ("magic-superset", extra_magic, 320, 5),
            ("table-short", rt.tb[..FSST_SYMBOL_TABLE_SIZE - 1].to_vec(), 320, 5),
            ("table-7-bytes", rt.tb[..7].to_vec(), 320, 5),
            ("out-cap-3x-minus-1", rt.tb.clone(), 119, 5),
            ("offs-cap-small", rt.tb.clone(), 320, 4),
            ("ok", rt.tb.clone(), 320, 5),
        ];
        for (kind, tb, out_cap, offs_cap) in cases {
            let r = do_decompress::<i32>(&tb, &data, &offs, out_cap, offs_cap);
            sink.count(&format!("fsst_dec:args:{kind}:{}", r.tag()));
            sink.nontrivial(&format!("fsstdecargs/{kind}"));
            let out = r.coq(|(d, o)| if consistent(d, o) { cstrs(d, o) } else { "[[1000%uint63]]".into() });
            s.push(format!("({}, {}, {}, {})", cbytes(&tb), cstrs(&data, &offs), out_cap, offs_cap), out, json!({"kind": kind, "out_cap": out_cap, "offs_cap": offs_cap, "outcome": r.tag()}));
        }
    }
    if let Some(tb) = &copy_table {
        let data: Vec<u8> = (0..200).map(|_| rng.below(256) as u8).collect();
        let offs = vec![0usize, 0, 13, 200];
        for (out_cap, offs_cap) in [(200usize, 4usize), (199, 4), (200, 3), (1000, 8)] {
            let r = do_decompress::<i64>(tb, &data, &offs, out_cap, offs_cap);
            if out_cap >= 200 && offs_cap >= 4 {
                if r == Oc::Ok((data.clone(), offs.clone())) {
                    sink.oracle_ok();
                } else {
                    sink.oracle_fail(None, "fsst::decompress with the copy-path table does not return its input", json!({"data_hex": hex(&data), "offsets": offs}));
                }
            }
            sink.count(&format!("fsst_dec:copy-table:{}", r.tag()));
            sink.nontrivial(&format!("fsstdeccopy/{out_cap}/{offs_cap}"));
            let out = r.coq(|(d, o)| if consistent(d, o) { cstrs(d, o) } else { "[[1000%uint63]]".into() });
            s.push(format!("({}, {}, {}, {})", cbytes(tb), cstrs(&data, &offs), out_cap, offs_cap), out, json!({"kind": "copy-table", "out_cap": out_cap, "offs_cap": offs_cap, "outcome": r.tag()}));
        }
    }
    sink.add(s);
    let _ = clist;
}
