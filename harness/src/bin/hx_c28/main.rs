//! hx_c28: standalone compression kernels (C28): FastLanes bit packing and FSST.
mod common;
mod fastlanes;
mod fsst_arm;

fn main() {
    let (sub, args) = hxlib::util::Args::parse();
    let code = match sub.as_str() {
        "c28" => run(&args),
        _ => {
            eprintln!("unknown subcommand {sub}");
            2
        }
    };
    std::process::exit(code);
}

fn run(args: &hxlib::util::Args) -> i32 {
    let mut sink = hxlib::util::Sink::new("C28", &args.out);
    let mut rng = hxlib::util::Rng::new(args.seed);
    fastlanes::run(args, &mut rng, &mut sink);
    fsst_arm::run(args, &mut rng, &mut sink);
    sink.exhaustive = false;
    sink.notes.push(
        "FastLanes: every (type, width) pair of u8/u16/u32/u64 (124 pairs) x value patterns through \
         BitPacking::unchecked_pack/unchecked_unpack (pack+unpack, unpack of random words, unmasked values, \
         contract violations); FSST: fsst::compress/decompress on generated string arrays (copy path < 32 KiB \
         and symbol-table path), 32/64-bit offsets, plus decompress on synthetic code streams over real tables"
            .into(),
    );
    sink.finish();
    0
}
