//! FastLanes arm: BitPacking::unchecked_pack / unchecked_unpack for u8/u16/u32/u64, every width 0..=T.
use crate::common::{clist, cvals};
use hxlib::util::{catch, coq, Args, Rng, Sink, Stream};
use lance_bitpacking::BitPacking;
use serde_json::json;

const REQ: &str = "Common.Base Codec.Model_FastLanes";

pub trait Elem: BitPacking + Copy + PartialEq + std::fmt::Debug {
    const BITS: usize;
    fn from_u64(x: u64) -> Self;
    fn to_u64(self) -> u64;
}
macro_rules! elem {
    ($t:ty, $b:expr) => {
        impl Elem for $t {
            const BITS: usize = $b;
            fn from_u64(x: u64) -> Self {
                x as $t
            }
            fn to_u64(self) -> u64 {
                self as u64
            }
        }
    };
}
elem!(u8, 8);
elem!(u16, 16);
elem!(u32, 32);
elem!(u64, 64);

fn mask(w: usize) -> u64 {
    if w >= 64 {
        u64::MAX
    } else {
        (1u64 << w) - 1
    }
}

fn pack<E: Elem>(w: usize, input: &[u64], out_len: usize, fill: u64) -> Result<Vec<u64>, bool> {
    let inp: Vec<E> = input.iter().map(|x| E::from_u64(*x)).collect();
    let mut out: Vec<E> = vec![E::from_u64(fill); out_len];
    catch(|| unsafe { E::unchecked_pack(w, &inp, &mut out) })?;
    Ok(out.iter().map(|x| x.to_u64()).collect())
}

fn unpack<E: Elem>(w: usize, packed: &[u64], out_len: usize, fill: u64) -> Result<Vec<u64>, bool> {
    let inp: Vec<E> = packed.iter().map(|x| E::from_u64(*x)).collect();
    let mut out: Vec<E> = vec![E::from_u64(fill); out_len];
    catch(|| unsafe { E::unchecked_unpack(w, &inp, &mut out) })?;
    Ok(out.iter().map(|x| x.to_u64()).collect())
}

fn pack_t(t: usize, w: usize, input: &[u64], out_len: usize, fill: u64) -> Result<Vec<u64>, bool> {
    match t {
        8 => pack::<u8>(w, input, out_len, fill),
        16 => pack::<u16>(w, input, out_len, fill),
        32 => pack::<u32>(w, input, out_len, fill),
        _ => pack::<u64>(w, input, out_len, fill),
    }
}
fn unpack_t(t: usize, w: usize, packed: &[u64], out_len: usize, fill: u64) -> Result<Vec<u64>, bool> {
    match t {
        8 => unpack::<u8>(w, packed, out_len, fill),
        16 => unpack::<u16>(w, packed, out_len, fill),
        32 => unpack::<u32>(w, packed, out_len, fill),
        _ => unpack::<u64>(w, packed, out_len, fill),
    }
}

const PATTERNS: [&str; 8] = ["random", "all-max", "zeros", "alternate", "index", "one-hot", "sparse", "high-bit"];

/// 1024 values < 2^w
fn values(rng: &mut Rng, pat: &str, t: usize, w: usize) -> Vec<u64> {
    let m = mask(w);
    (0..1024u64)
        .map(|i| match pat {
            "random" => rng.next() & m,
            "all-max" => m,
            "zeros" => 0,
            "alternate" => {
                if i % 2 == 0 {
                    m
                } else {
                    0
                }
            }
            "index" => i.wrapping_mul(0x9E37_79B9_7F4A_7C15 >> (64 - t.max(1))) & m,
            "one-hot" => {
                if w == 0 {
                    0
                } else {
                    1u64 << (i as usize % w)
                }
            }
            "sparse" => {
                if rng.chance(1, 16) {
                    m
                } else if rng.chance(1, 16) {
                    rng.next() & m
                } else {
                    0
                }
            }
            _ => {
                // "high-bit": the top bit of the width set, low bits random
                if w == 0 {
                    0
                } else {
                    (1u64 << (w - 1)) | (rng.next() & (m >> 1))
                }
            }
        })
        .collect()
}

fn outcome_list(t: usize, r: &Result<Vec<u64>, bool>) -> String {
    coq::outcome(&r.as_ref().map(|v| cvals(t, v)).map_err(|e| *e))
}

pub fn run(args: &Args, rng: &mut Rng, sink: &mut Sink) {
    let types = [8usize, 16, 32, 64];

    // ---- pack then unpack, all (T, W); recorded: packed words + sparse difference unpacked vs input
    let mut s = Stream::new("fl_rt", REQ, "chk_fl_roundtrip", "N * N * list PrimInt63.int * N", "list PrimInt63.int * list (N * N)");
    s.shard = 62;
    let per_pair = args.vol(2, 10);
    let mut pat_rot = 0usize;
    for &t in &types {
        for w in 0..=t {
            // quick tier: the second (fixed-pattern) block only at the boundary widths
            let n_here = if args.thorough() || w <= 2 || w + 1 >= t || w == t / 2 { per_pair } else { 1 };
            for k in 0..n_here {
                // first pattern always random, the others rotate through the fixed patterns
                let pat = if k == 0 {
                    "random"
                } else {
                    pat_rot += 1;
                    PATTERNS[1 + pat_rot % (PATTERNS.len() - 1)]
                };
                let vals = values(rng, pat, t, w);
                let fill = rng.next() & mask(t);
                let plen = 1024 * w / t;
                let packed = pack_t(t, w, &vals, plen, fill);
                let case = json!({"type_bits": t, "width": w, "pattern": pat, "fill": fill, "first_values": &vals[..8]});
                let packed = match packed {
                    Ok(p) => p,
                    Err(_) => {
                        sink.oracle_fail(None, "unchecked_pack panicked on a call that satisfies its contract", case);
                        continue;
                    }
                };
                let unp = unpack_t(t, w, &packed, 1024, fill);
                let mut unp = match unp {
                    Ok(u) => u,
                    Err(_) => {
                        sink.oracle_fail(None, "unchecked_unpack panicked on a call that satisfies its contract", case);
                        continue;
                    }
                };
                let mut packed = packed;
                // self-test of the check (CONTRIB "sanity test"): HX_C28_PLANT corrupts what is RECORDED as the
                // implementation's output for one case, so that ./check must report it. Never set in normal runs.
                if crate::common::plant("fl-diff") && t == 16 && w == 5 && k == 0 {
                    packed[3] ^= 1; // recorded packed word differs from the model, oracle unaffected
                }
                if crate::common::plant("fl-oracle") && t == 32 && w == 7 && k == 0 {
                    unp[100] ^= 1; // the recorded unpacked value is wrong: oracle failure with this input
                }
                // direct oracle: unpack (pack v) = v for values < 2^W
                if unp == vals {
                    sink.oracle_ok();
                } else {
                    let bad = (0..1024).find(|i| unp[*i] != vals[*i]).unwrap();
                    sink.oracle_fail(
                        None,
                        "FastLanes unpack(pack(v)) != v for values masked to the width",
                        json!({"type_bits": t, "width": w, "pattern": pat, "first_bad_index": bad, "value": vals[bad], "unpacked": unp[bad], "values": vals}),
                    );
                }
                let diffs: Vec<String> = (0..1024).filter(|i| unp[*i] != vals[*i]).map(|i| format!("({}, {})", i, unp[i])).collect();
                sink.count(&format!("fl_rt:u{t}"));
                sink.count(&format!("fl_rt:{pat}"));
                sink.nontrivial(&format!("flrt{t}/{w}/{pat}/{k}"));
                s.push(
                    format!("({}, {}, {}, {})", t, w, cvals(t, &vals), fill),
                    format!("({}, {})", cvals(t, &packed), clist(diffs)),
                    case,
                );
            }
        }
    }
    sink.add(s);

    // ---- unpack of arbitrary packed words (every word array is the image of some values), then re-pack
    let mut s = Stream::new("fl_unpack", REQ, "chk_fl_unpack", "N * N * list PrimInt63.int * (N * N)", "outcome (list PrimInt63.int)");
    s.shard = 60;
    for &t in &types {
        for w in 0..=t {
            if !args.thorough() && !(w <= 2 || w + 2 >= t || rng.chance(1, 3)) {
                continue;
            }
            let plen = 1024 * w / t;
            let packed: Vec<u64> = (0..plen).map(|_| rng.next() & mask(t)).collect();
            let fill = rng.next() & mask(t);
            let unp = unpack_t(t, w, &packed, 1024, fill);
            let case = json!({"type_bits": t, "width": w, "fill": fill, "first_words": &packed[..packed.len().min(8)]});
            match &unp {
                Ok(u) => {
                    // oracle: values fit the width, and packing them again gives the same words
                    let fits = u.iter().all(|x| *x <= mask(w));
                    let re = pack_t(t, w, u, plen, fill);
                    if fits && re.as_ref().ok() == Some(&packed) {
                        sink.oracle_ok();
                    } else {
                        sink.oracle_fail(None, "FastLanes pack(unpack(words)) != words, or unpacked value exceeds the width", json!({"type_bits": t, "width": w, "words": packed}));
                    }
                }
                Err(_) => sink.oracle_fail(None, "unchecked_unpack panicked on a call that satisfies its contract", case.clone()),
            }
            sink.count(&format!("fl_unpack:u{t}"));
            sink.nontrivial(&format!("flun{t}/{w}"));
            s.push(format!("({}, {}, {}, (1024, {}))", t, w, cvals(t, &packed), fill), outcome_list(t, &unp), case);
        }
    }
    sink.add(s);

    // ---- pack of values that are NOT masked to the width (the kernel masks them), and calls that break
    //      the documented contract (debug_assert! -> panic in this debug build)
    let mut s = Stream::new("fl_pack", REQ, "chk_fl_pack", "N * N * list PrimInt63.int * (N * N)", "outcome (list PrimInt63.int)");
    s.shard = 60;
    for &t in &types {
        let n = args.vol(3, 3 * t);
        for _ in 0..n {
            let w = rng.range(0, t as u64) as usize;
            let vals: Vec<u64> = (0..1024).map(|_| rng.next() & mask(t)).collect();
            let fill = rng.next() & mask(t);
            let plen = 1024 * w / t;
            let packed = pack_t(t, w, &vals, plen, fill);
            let case = json!({"type_bits": t, "width": w, "kind": "unmasked values", "first_values": &vals[..8]});
            // oracle (model independent): unpack gives back the values reduced to the width
            match &packed {
                Ok(p) => {
                    let u = unpack_t(t, w, p, 1024, fill);
                    let want: Vec<u64> = vals.iter().map(|x| x & mask(w)).collect();
                    if u.as_ref().ok() == Some(&want) {
                        sink.oracle_ok();
                    } else {
                        sink.oracle_fail(None, "FastLanes unpack(pack(v)) != v mod 2^W for unmasked values", json!({"type_bits": t, "width": w, "values": vals}));
                    }
                }
                Err(_) => sink.oracle_fail(None, "unchecked_pack panicked on a call that satisfies its contract", case.clone()),
            }
            sink.count("fl_pack:unmasked");
            sink.nontrivial(&format!("flpk{t}/{w}/{}", vals[0]));
            s.push(format!("({}, {}, {}, ({}, {}))", t, w, cvals(t, &vals), plen, fill), outcome_list(t, &packed), case);
        }
        if cfg!(debug_assertions) {
            // contract violations: wrong output length, wrong input length, width > T
            let w = rng.range(1, t as u64) as usize;
            let plen = 1024 * w / t;
            let vals: Vec<u64> = (0..1024).map(|_| rng.next() & mask(w)).collect();
            let viol: Vec<(usize, Vec<u64>, usize, &str)> = vec![
                (w, vals.clone(), plen + 1, "output one too long"),
                (w, vals.clone(), plen - 1, "output one too short"),
                (w, vals[..1023].to_vec(), plen, "input 1023 values"),
                (t + 1, vals.clone(), 1024 * (t + 1) / t, "width T+1"),
                (t + 7, vals.clone(), 1024 * (t + 7) / t, "width T+7"),
            ];
            for (w, v, olen, kind) in viol {
                let r = pack_t(t, w, &v, olen, 0);
                sink.count("fl_pack:contract-violation");
                sink.nontrivial(&format!("flpkv{t}/{w}/{kind}"));
                s.push(
                    format!("({}, {}, {}, ({}, 0))", t, w, cvals(t, &v), olen),
                    outcome_list(t, &r),
                    json!({"type_bits": t, "width": w, "kind": kind, "out_len": olen, "in_len": v.len(), "panicked": r.is_err()}),
                );
                // same for unpack
            }
        }
    }
    sink.add(s);

    if cfg!(debug_assertions) {
        let mut s = Stream::new("fl_unpack_contract", REQ, "chk_fl_unpack", "N * N * list PrimInt63.int * (N * N)", "outcome (list PrimInt63.int)");
        s.shard = 60;
        for &t in &types {
            let w = rng.range(1, t as u64) as usize;
            let plen = 1024 * w / t;
            let words: Vec<u64> = (0..plen + 1).map(|_| rng.next() & mask(t)).collect();
            let viol: Vec<(usize, Vec<u64>, usize, &str)> = vec![
                (w, words.clone(), 1024, "input one too long"),
                (w, words[..plen - 1].to_vec(), 1024, "input one too short"),
                (w, words[..plen].to_vec(), 1023, "output 1023"),
                (w, words[..plen].to_vec(), 1025, "output 1025"),
                (t + 1, (0..1024 * (t + 1) / t).map(|i| i as u64 & mask(t)).collect(), 1024, "width T+1"),
            ];
            for (w, v, olen, kind) in viol {
                let r = unpack_t(t, w, &v, olen, 0);
                sink.count("fl_unpack:contract-violation");
                sink.nontrivial(&format!("flunv{t}/{w}/{kind}"));
                s.push(
                    format!("({}, {}, {}, ({}, 0))", t, w, cvals(t, &v), olen),
                    outcome_list(t, &r),
                    json!({"type_bits": t, "width": w, "kind": kind, "out_len": olen, "in_len": v.len(), "panicked": r.is_err()}),
                );
            }
        }
        sink.add(s);
    }
}
