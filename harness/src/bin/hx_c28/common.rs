//! Coq term printing for long lists: `[a; b; ...]` is quadratic in coqc for long lists, so long lists are
//! printed as balanced `++` trees of chunks of 32.
pub fn clist(items: Vec<String>) -> String {
    if items.len() <= 32 {
        return format!("[{}]", items.join("; "));
    }
    let mut level: Vec<String> = items.chunks(32).map(|c| format!("[{}]", c.join("; "))).collect();
    while level.len() > 1 {
        level = level.chunks(16).map(|c| if c.len() == 1 { c[0].clone() } else { format!("({})", c.join(" ++ ")) }).collect();
    }
    level.pop().unwrap()
}

pub fn cbytes(xs: &[u8]) -> String {
    clist(xs.iter().map(|x| x.to_string()).collect())
}

pub fn cu64s(xs: &[u64]) -> String {
    clist(xs.iter().map(|x| x.to_string()).collect())
}

/// list (list N) from a flat buffer and offsets
pub fn cstrs(data: &[u8], offs: &[usize]) -> String {
    clist((1..offs.len()).map(|i| cbytes(&data[offs[i - 1]..offs[i]])).collect())
}

pub fn hex(xs: &[u8]) -> String {
    let mut s = String::with_capacity(xs.len() * 2);
    for x in xs {
        s.push_str(&format!("{:02x}", x));
    }
    s
}
