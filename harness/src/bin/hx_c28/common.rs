//! Coq term printing for long lists: `[a; b; ...]` is quadratic in coqc for long lists, so long lists are
//! printed as balanced `++` trees of chunks of 32.
pub fn clist(items: Vec<String>) -> String {
    if items.len() <= 32 {
        return format!("[{}]", items.join("; "));
    }
    let mut level: Vec<String> = items.chunks(32).map(|c| format!("[{}]", c.join("; "))).collect();
    while level.len() > 1 {
        level = level.chunks(16).map(|c| if c.len() == 1 { c[0].clone() } else { format!("({})", c.join(" ++ ")) }).collect();
    }
    level.pop().unwrap()
}

/// bytes as primitive-integer literals (list PrimInt63.int)
pub fn cbytes(xs: &[u8]) -> String {
    format!("({})%uint63", clist(xs.iter().map(|x| x.to_string()).collect()))
}

/// values of a T-bit type as primitive-integer literals; T = 64: (low 32 bits, high 32 bits) per value
pub fn cvals(t: usize, xs: &[u64]) -> String {
    let items: Vec<String> = if t == 64 {
        xs.iter().flat_map(|x| [(x & 0xFFFF_FFFF).to_string(), (x >> 32).to_string()]).collect()
    } else {
        xs.iter().map(|x| x.to_string()).collect()
    };
    format!("({})%uint63", clist(items))
}

/// list (list PrimInt63.int) from a flat buffer and offsets
pub fn cstrs(data: &[u8], offs: &[usize]) -> String {
    format!("({})%uint63", clist((1..offs.len()).map(|i| clist(data[offs[i - 1]..offs[i]].iter().map(|x| x.to_string()).collect())).collect()))
}

pub fn hex(xs: &[u8]) -> String {
    let mut s = String::with_capacity(xs.len() * 2);
    for x in xs {
        s.push_str(&format!("{:02x}", x));
    }
    s
}

/// HX_C28_PLANT=<name>[,<name>..] or "all": deliberately corrupt one recorded implementation output (sanity test
/// of the check itself; see notes/CONTRIB.md). Unset in every normal run.
pub fn plant(name: &str) -> bool {
    match std::env::var("HX_C28_PLANT") {
        Ok(v) => v == "all" || v.split(',').any(|x| x == name),
        Err(_) => false,
    }
}
