//! C37: feature flags and storage-version strings. Unit arm is exhaustive over the finite domains;
//! the e2e arm reads back the flags of real manifests after small histories.
use hxlib::util::{coq, Args, Rng, Sink, Stream};
use lance_encoding::version::LanceFileVersion;
use lance_table::feature_flags::{apply_feature_flags, can_read_dataset, can_write_dataset, has_deprecated_v2_feature_flag};
use lance_table::format::{BasePath, DataStorageFormat, DeletionFile, DeletionFileType, Fragment, Manifest, RowIdMeta};
use serde_json::json;
use std::collections::HashMap;
use std::str::FromStr;
use std::sync::Arc;

const REQ: &str = "Common.Base Meta.Model_Flags";

fn ver_rank(v: LanceFileVersion) -> u64 {
    match v {
        LanceFileVersion::Legacy => 0,
        LanceFileVersion::V2_0 => 1,
        LanceFileVersion::Stable => 2,
        LanceFileVersion::V2_1 => 3,
        LanceFileVersion::Next => 4,
        LanceFileVersion::V2_2 => 5,
    }
}
const VERS: [LanceFileVersion; 6] = [
    LanceFileVersion::Legacy,
    LanceFileVersion::V2_0,
    LanceFileVersion::Stable,
    LanceFileVersion::V2_1,
    LanceFileVersion::Next,
    LanceFileVersion::V2_2,
];
fn token(s: &str) -> u64 {
    match s.to_lowercase().as_str() {
        "0.1" => 0,
        "2.0" => 1,
        "2.1" => 2,
        "2.2" => 3,
        "stable" => 4,
        "legacy" => 5,
        "next" => 6,
        "0.3" => 7,
        _ => 8,
    }
}

fn test_schema() -> lance_core::datatypes::Schema {
    let a = arrow_schema::Schema::new(vec![arrow_schema::Field::new("i", arrow_schema::DataType::Int32, true)]);
    lance_core::datatypes::Schema::try_from(&a).unwrap()
}

fn manifest_of(frags: &[(bool, bool)], cfg: bool, bp: bool) -> Manifest {
    let fragments: Vec<Fragment> = frags
        .iter()
        .enumerate()
        .map(|(i, (del, rid))| {
            let mut f = Fragment::new(i as u64);
            if *del {
                f.deletion_file = Some(DeletionFile { read_version: 1, id: 7, file_type: DeletionFileType::Array, num_deleted_rows: Some(1), base_id: None });
            }
            if *rid {
                f.row_id_meta = Some(RowIdMeta::Inline(vec![]));
            }
            f
        })
        .collect();
    let mut base_paths = HashMap::new();
    if bp {
        base_paths.insert(1u32, BasePath::new(1, "memory://x".to_string(), None, true));
    }
    let mut m = Manifest::new(test_schema(), Arc::new(fragments), DataStorageFormat::default(), base_paths);
    if cfg {
        m.config.insert("k".into(), "v".into());
    }
    // garbage that must be reset
    m.reader_feature_flags = 0xFFFF;
    m.writer_feature_flags = 0xFF00;
    m
}

pub fn run(args: &Args) -> i32 {
    let mut sink = Sink::new("C37", &args.out);
    let mut rng = Rng::new(args.seed);

    // ---- flags words: exhaustive over bits 0..6 (all 128 words), every single high bit, boundaries, random
    let mut s = Stream::new("flags", REQ, "c37_flags_case", "N", "bool * bool * bool");
    let mut words: Vec<u64> = (0..128).collect();
    for k in 6..64 {
        words.push(1u64 << k);
        words.push((1u64 << k) | rng.below(64));
        words.push((1u64 << k).wrapping_sub(1));
    }
    words.push(u64::MAX);
    for _ in 0..args.vol(200, 5000) {
        words.push(rng.next() >> rng.below(64));
    }
    for w in words {
        let out = (can_read_dataset(w), can_write_dataset(w), has_deprecated_v2_feature_flag(w));
        // direct oracle: known bits are 0..5
        let expect = w & !63 == 0;
        if out.0 != expect || out.1 != expect {
            sink.oracle_fail(None, "flag word with unknown bit accepted or known word refused", json!({"w": w, "can_read": out.0, "can_write": out.1}));
        } else {
            sink.oracle_ok();
        }
        sink.nontrivial(&format!("w{w}"));
        sink.count(if w < 64 { "flags:known" } else { "flags:unknown-bit" });
        s.push(coq::n(w), format!("({}, {}, {})", coq::b(out.0), coq::b(out.1), coq::b(out.2)), json!({"w": w, "out": [out.0, out.1, out.2]}));
    }
    sink.add(s);

    // ---- apply_feature_flags: exhaustive over fragment lists of length <= 3 x 16 boolean settings
    let mut s = Stream::new("apply", REQ, "c37_apply_case", "list (bool * bool) * (bool * bool * bool * bool)", "outcome (N * N)");
    let mut frag_lists: Vec<Vec<(bool, bool)>> = vec![vec![]];
    let combos = [(false, false), (false, true), (true, false), (true, true)];
    for len in 1..=3usize {
        let n = 4usize.pow(len as u32);
        for code in 0..n {
            let mut c = code;
            let mut l = vec![];
            for _ in 0..len {
                l.push(combos[c % 4]);
                c /= 4;
            }
            frag_lists.push(l);
        }
    }
    for _ in 0..args.vol(50, 2000) {
        let len = rng.range(4, 12) as usize;
        // mostly uniform row-id presence so the Ok branch is reached
        let uniform = rng.chance(3, 4);
        let rid0 = rng.bool();
        frag_lists.push((0..len).map(|_| (rng.chance(1, 3), if uniform { rid0 } else { rng.bool() })).collect());
    }
    for frags in &frag_lists {
        for code in 0..16u32 {
            let (cfg, bp, en, dis) = (code & 1 != 0, code & 2 != 0, code & 4 != 0, code & 8 != 0);
            let mut m = manifest_of(frags, cfg, bp);
            let r = apply_feature_flags(&mut m, en, dis);
            let out: Result<String, bool> = match &r {
                Ok(()) => Ok(format!("({}, {})", m.reader_feature_flags, m.writer_feature_flags)),
                Err(_) => Err(false),
            };
            // direct oracle: flags reflect contents
            let has_del = frags.iter().any(|f| f.0);
            let any_rid = frags.iter().any(|f| f.1);
            let all_rid = frags.iter().all(|f| f.1);
            let stable = any_rid || en;
            match &r {
                Ok(()) => {
                    let er = (has_del as u64) | ((stable as u64) << 1) | ((bp as u64) << 4);
                    let ew = er | ((cfg as u64) << 3) | ((dis as u64) << 5);
                    if m.reader_feature_flags != er || m.writer_feature_flags != ew || (stable && !all_rid) {
                        sink.oracle_fail(None, "flags do not reflect manifest contents", json!({"frags": frags, "cfg": cfg, "bp": bp, "enable_stable": en, "disable_txn_file": dis, "reader": m.reader_feature_flags, "writer": m.writer_feature_flags}));
                    } else {
                        sink.oracle_ok();
                    }
                    sink.count("apply:ok");
                }
                Err(_) => {
                    if !(stable && !all_rid) {
                        sink.oracle_fail(None, "apply_feature_flags failed on a consistent manifest", json!({"frags": frags, "cfg": cfg, "bp": bp, "enable_stable": en, "disable_txn_file": dis}));
                    } else {
                        sink.oracle_ok();
                    }
                    sink.count("apply:err");
                }
            }
            let inp = format!(
                "({}, ({}, {}, {}, {}))",
                coq::list(frags.iter().map(|f| format!("({}, {})", coq::b(f.0), coq::b(f.1)))),
                coq::b(cfg),
                coq::b(bp),
                coq::b(en),
                coq::b(dis)
            );
            sink.nontrivial(&inp);
            s.push(inp, coq::outcome(&out), json!({"frags": frags, "cfg": cfg, "bp": bp, "enable_stable": en, "disable_txn_file": dis, "out": format!("{:?}", out)}));
        }
    }
    sink.add(s);

    // ---- versions (finite)
    let mut s = Stream::new("ver", REQ, "c37_ver_case", "N", "N * bool * (N * N) * N");
    for v in VERS {
        let (a, b) = v.to_numbers();
        let disp = v.to_string();
        // oracle: display/from_str round trip; numbers -> resolve
        let rt = LanceFileVersion::from_str(&disp).ok() == Some(v);
        let nr = LanceFileVersion::try_from_major_minor(a, b).ok() == Some(v.resolve());
        let rr = v.resolve().resolve() == v.resolve() && v.resolve() != LanceFileVersion::Stable && v.resolve() != LanceFileVersion::Next;
        if rt && nr && rr {
            sink.oracle_ok();
        } else {
            sink.oracle_fail(None, "version string/number conversion inconsistent", json!({"version": disp, "numbers": [a, b]}));
        }
        sink.nontrivial(&format!("ver{}", ver_rank(v)));
        s.push(
            coq::n(ver_rank(v)),
            format!("({}, {}, ({}, {}), {})", ver_rank(v.resolve()), coq::b(v.is_unstable()), a, b, token(&disp)),
            json!({"version": format!("{:?}", v), "resolve": format!("{:?}", v.resolve()), "numbers": [a, b], "display": disp}),
        );
    }
    sink.add(s);

    let mut s = Stream::new("str", REQ, "c37_str_case", "N", "option N");
    let strs = ["0.1", "2.0", "2.1", "2.2", "stable", "legacy", "next", "0.3", "STABLE", "Legacy", "NEXT", "Stable", "", "2", "2.3", "0.2", "2.0 ", " 2.0", "v2.0", "1.0", "latest", "2.10", "0.10"];
    for st in strs {
        let r = LanceFileVersion::from_str(st).ok();
        sink.nontrivial(&format!("str{st}"));
        sink.count(if r.is_some() { "str:accepted" } else { "str:rejected" });
        s.push(coq::n(token(st)), coq::opt(r.map(|v| coq::n(ver_rank(v)))), json!({"string": st, "token": token(st), "parsed": r.map(|v| format!("{:?}", v))}));
    }
    sink.add(s);

    let mut s = Stream::new("mm", REQ, "c37_mm_case", "N * N", "option N");
    let mut mms = vec![];
    for a in 0..5u32 {
        for b in 0..5u32 {
            mms.push((a, b));
        }
    }
    mms.extend([(u32::MAX, 0), (0, u32::MAX), (2, 100), (100, 2), (3, 0)]);
    for (a, b) in mms {
        let r = LanceFileVersion::try_from_major_minor(a, b).ok();
        sink.nontrivial(&format!("mm{a}.{b}"));
        s.push(format!("({}, {})", a, b), coq::opt(r.map(|v| coq::n(ver_rank(v)))), json!({"major": a, "minor": b, "parsed": r.map(|v| format!("{:?}", v))}));
    }
    sink.add(s);

    sink.exhaustive = true;
    sink.notes.push("flag words: all 128 words over bits 0..6, every single high bit 6..63, boundaries, plus random; apply_feature_flags: all fragment lists of length <= 3 x 16 settings, plus random longer; versions/strings/number pairs: finite, all".into());
    sink.finish();
    0
}
