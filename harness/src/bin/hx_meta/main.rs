//! hx_meta: metadata-level properties (C37 flags/versions, C43 schema algebra, C32 serde, C36 namespace, C09 names).
mod c37;

fn main() {
    let (sub, args) = hxlib::util::Args::parse();
    let code = match sub.as_str() {
        "c37" => c37::run(&args),
        _ => {
            eprintln!("unknown subcommand {sub}");
            2
        }
    };
    std::process::exit(code);
}
