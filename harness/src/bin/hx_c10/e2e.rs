//! End-to-end arm: `Dataset` writes / opens through `ExternalManifestCommitHandler` over a local directory and an
//! in-memory external store (real tokio scheduling), with three scripted faults of the external store.
use arrow_array::{Int32Array, RecordBatch, RecordBatchIterator};
use async_trait::async_trait;
use hxlib::util::{Rng, Sink};
use lance::dataset::builder::DatasetBuilder;
use lance::dataset::{WriteMode, WriteParams};
use lance::Dataset;
use lance_core::{Error, Result};
use lance_table::io::commit::external_manifest::{ExternalManifestCommitHandler, ExternalManifestStore};
use lance_table::io::commit::CommitHandler;
use serde_json::json;
use std::collections::HashMap;
use std::sync::atomic::{AtomicU32, Ordering};
use std::sync::{Arc, Mutex};

#[derive(Debug, Default)]
struct Ext {
    map: Mutex<HashMap<(String, u64), String>>,
    /// the next n put_if_exists calls fail without effect (a writer that dies after the external commit)
    fail_put_if_exists: AtomicU32,
    /// the next put_if_not_exists is applied but answers with an error (lost reply)
    lose_ack: AtomicU32,
}

#[async_trait]
impl ExternalManifestStore for Ext {
    async fn get(&self, uri: &str, version: u64) -> Result<String> {
        self.map.lock().unwrap().get(&(uri.to_string(), version)).cloned().ok_or(Error::NotFound { uri: uri.to_string(), location: snafu::location!() })
    }
    async fn get_latest_version(&self, uri: &str) -> Result<Option<(u64, String)>> {
        let m = self.map.lock().unwrap();
        Ok(m.iter().filter(|((u, _), _)| u == uri).max_by_key(|((_, v), _)| *v).map(|((_, v), p)| (*v, p.clone())))
    }
    async fn put_if_not_exists(&self, uri: &str, version: u64, path: &str, _size: u64, _e: Option<String>) -> Result<()> {
        tokio::task::yield_now().await;
        let mut m = self.map.lock().unwrap();
        if m.contains_key(&(uri.to_string(), version)) {
            return Err(Error::io("exists".to_string(), snafu::location!()));
        }
        m.insert((uri.to_string(), version), path.to_string());
        if self.lose_ack.load(Ordering::SeqCst) > 0 {
            self.lose_ack.fetch_sub(1, Ordering::SeqCst);
            return Err(Error::io("timeout: reply lost (write was applied)".to_string(), snafu::location!()));
        }
        Ok(())
    }
    async fn put_if_exists(&self, uri: &str, version: u64, path: &str, _size: u64, _e: Option<String>) -> Result<()> {
        tokio::task::yield_now().await;
        if self.fail_put_if_exists.load(Ordering::SeqCst) > 0 {
            self.fail_put_if_exists.fetch_sub(1, Ordering::SeqCst);
            return Err(Error::io("injected".to_string(), snafu::location!()));
        }
        let mut m = self.map.lock().unwrap();
        if !m.contains_key(&(uri.to_string(), version)) {
            return Err(Error::io("missing".to_string(), snafu::location!()));
        }
        m.insert((uri.to_string(), version), path.to_string());
        Ok(())
    }
}

fn batch(w: i32, n: usize) -> (Arc<arrow_schema::Schema>, RecordBatch) {
    let schema = Arc::new(arrow_schema::Schema::new(vec![arrow_schema::Field::new("w", arrow_schema::DataType::Int32, false)]));
    let b = RecordBatch::try_new(schema.clone(), vec![Arc::new(Int32Array::from(vec![w; n]))]).unwrap();
    (schema, b)
}

async fn append(uri: &str, handler: Arc<dyn CommitHandler>, w: i32) -> std::result::Result<u64, String> {
    let (schema, b) = batch(w, 3);
    let rb = RecordBatchIterator::new(vec![Ok(b)], schema);
    let params = WriteParams { mode: WriteMode::Append, commit_handler: Some(handler), ..Default::default() };
    Dataset::write(rb, uri, Some(params)).await.map(|d| d.manifest().version).map_err(|e| e.to_string().chars().take(160).collect())
}

fn versions_dir(uri: &str) -> Vec<String> {
    let mut v: Vec<String> = std::fs::read_dir(format!("{uri}/_versions")).map(|rd| rd.map(|e| e.unwrap().file_name().into_string().unwrap()).collect()).unwrap_or_default();
    v.sort();
    v
}

/// the three statements of the property on a quiescent table: every external entry is final and exists, no staging
/// file is left, every committed version opens through the handler
async fn settled(uri: &str, ext: &Ext, handler: Arc<dyn CommitHandler>) -> std::result::Result<(u64, usize), String> {
    let ds = DatasetBuilder::from_uri(uri).with_commit_handler(handler.clone()).load().await.map_err(|e| format!("open failed: {}", e.to_string().chars().take(160).collect::<String>()))?;
    let latest = ds.manifest().version;
    let rows = ds.count_rows(None).await.map_err(|e| e.to_string())?;
    let m = ext.map.lock().unwrap().clone();
    let max_ext = m.keys().map(|k| k.1).max().unwrap_or(0);
    if max_ext != latest {
        return Err(format!("latest version through the handler is {latest} but the external store knows {max_ext}"));
    }
    // after the open the latest entry must have been finalised
    let p = m.iter().find(|(k, _)| k.1 == latest).map(|(_, p)| p.clone()).unwrap();
    if !p.ends_with(".manifest") {
        return Err(format!("external entry of the latest version {latest} still points at a staging file {p}"));
    }
    for v in 1..=latest {
        let d = ds.checkout_version(v).await.map_err(|e| format!("version {v} does not open: {}", e.to_string().chars().take(120).collect::<String>()))?;
        if d.manifest().version != v {
            return Err(format!("checkout {v} gave {}", d.manifest().version));
        }
    }
    let m = ext.map.lock().unwrap().clone();
    for ((_, v), p) in &m {
        if !p.ends_with(".manifest") {
            return Err(format!("external entry of version {v} still points at a staging file after it was opened"));
        }
    }
    // (LocalFileSystem::copy leaves a hard link `<n>.manifest#0` when the same file is copied twice: not a staging file)
    let left: Vec<String> = versions_dir(uri).into_iter().filter(|f| f.contains(".manifest-")).collect();
    if !left.is_empty() {
        return Err(format!("staging files left after every version was opened: {:?}", left));
    }
    Ok((latest, rows))
}

pub async fn e2e(sink: &mut Sink, rng: &mut Rng, rounds: usize) {
    // (1) concurrent appends through the external handler
    for round in 0..rounds {
        let dir = tempfile::tempdir().unwrap();
        let uri = dir.path().join("t").to_str().unwrap().to_string();
        let ext = Arc::new(Ext::default());
        let handler: Arc<dyn CommitHandler> = Arc::new(ExternalManifestCommitHandler { external_manifest_store: ext.clone() });
        let (schema, b) = batch(0, 3);
        let params = WriteParams { commit_handler: Some(handler.clone()), ..Default::default() };
        Dataset::write(RecordBatchIterator::new(vec![Ok(b)], schema), &uri, Some(params)).await.unwrap();
        let n = 3 + rng.below(4) as i32;
        let mut hs = vec![];
        for w in 1..=n {
            let uri = uri.clone();
            let h = handler.clone();
            hs.push(tokio::spawn(async move { append(&uri, h, w).await }));
        }
        let mut versions = vec![];
        for h in hs {
            if let Ok(Ok(v)) = h.await {
                versions.push(v);
            }
        }
        versions.sort();
        let ok = versions.len();
        let distinct = versions.windows(2).all(|w| w[0] != w[1]);
        let r = settled(&uri, &ext, handler.clone()).await;
        let case = json!({"arm": "e2e-concurrent-append", "round": round, "writers": n, "acknowledged": versions, "settled": format!("{:?}", r)});
        sink.count("e2e-concurrent-append");
        match r {
            Ok((latest, rows)) if distinct && latest == 1 + ok as u64 && rows == 3 * (1 + ok) => sink.oracle_ok(),
            Ok(_) => sink.oracle_fail(None, "concurrent appends through the external handler: acknowledged versions not unique / lost", case),
            Err(e) => sink.oracle_fail(None, &format!("concurrent appends through the external handler: {e}"), case),
        }
    }
    // (2) a writer that dies between the external commit and finalisation: later readers repair
    {
        let dir = tempfile::tempdir().unwrap();
        let uri = dir.path().join("t").to_str().unwrap().to_string();
        let ext = Arc::new(Ext::default());
        let handler: Arc<dyn CommitHandler> = Arc::new(ExternalManifestCommitHandler { external_manifest_store: ext.clone() });
        let (schema, b) = batch(0, 3);
        let params = WriteParams { commit_handler: Some(handler.clone()), ..Default::default() };
        Dataset::write(RecordBatchIterator::new(vec![Ok(b)], schema), &uri, Some(params)).await.unwrap();
        ext.fail_put_if_exists.store(1, Ordering::SeqCst);
        let r1 = append(&uri, handler.clone(), 1).await;
        let staged: Vec<String> = versions_dir(&uri).into_iter().filter(|f| !f.ends_with(".manifest")).collect();
        let entry2 = ext.map.lock().unwrap().iter().find(|(k, _)| k.1 == 2).map(|(_, p)| p.clone());
        let r = settled(&uri, &ext, handler.clone()).await;
        let case = json!({"arm": "e2e-crash-before-put_if_exists", "append": format!("{:?}", r1), "staging_before_repair": staged, "entry2_before_repair": entry2, "settled": format!("{:?}", r)});
        sink.count("e2e-crash-repair");
        // version 2 is committed in the external store (whatever the writer was told): it must be visible with its rows
        match r {
            Ok((2, 6)) if entry2.is_some() => sink.oracle_ok(),
            Ok(x) => sink.oracle_fail(None, &format!("crash between external commit and finalisation: table settles at {:?}", x), case),
            Err(e) => sink.oracle_fail(None, &format!("crash between external commit and finalisation not repaired: {e}"), case),
        }
    }
    // (3) F13: the reply of put_if_not_exists is lost (the write was applied)
    {
        let dir = tempfile::tempdir().unwrap();
        let uri = dir.path().join("t").to_str().unwrap().to_string();
        let ext = Arc::new(Ext::default());
        let handler: Arc<dyn CommitHandler> = Arc::new(ExternalManifestCommitHandler { external_manifest_store: ext.clone() });
        let (schema, b) = batch(0, 3);
        let params = WriteParams { commit_handler: Some(handler.clone()), ..Default::default() };
        Dataset::write(RecordBatchIterator::new(vec![Ok(b)], schema), &uri, Some(params)).await.unwrap();
        ext.lose_ack.store(1, Ordering::SeqCst);
        let uri2 = uri.clone();
        let h2 = handler.clone();
        let r1 = tokio::time::timeout(std::time::Duration::from_secs(3), async move { append(&uri2, h2, 1).await }).await;
        let entry2 = ext.map.lock().unwrap().iter().find(|(k, _)| k.1 == 2).map(|(_, p)| p.clone());
        let r = settled(&uri, &ext, handler.clone()).await;
        let case = json!({"arm": "e2e-lost-ack-put_if_not_exists", "append": format!("{:?}", r1), "entry2": entry2, "versions_dir": versions_dir(&uri), "settled": format!("{:?}", r)});
        sink.count("e2e-lost-ack");
        match r {
            Ok(_) => sink.oracle_ok(),
            Err(e) => sink.oracle_fail(Some(super::CLASS), &format!("lost reply of put_if_not_exists during an append: {e}"), case),
        }
    }
}
